// The harness compiles /repo/src/driver.rs by #[path] exactly as /repo/src/main.rs does;
// driver.rs reads these three compile-time variables (set by vergen in the real build).
fn main() {
    println!("cargo:rustc-env=VERGEN_SEMVER_LIGHTWEIGHT=UNKNOWN");
    println!("cargo:rustc-env=VERGEN_COMMIT_DATE=UNKNOWN");
    println!("cargo:rustc-env=VERGEN_TARGET_TRIPLE=verif");
    println!("cargo:rerun-if-changed=build.rs");
    println!("cargo::rustc-check-cfg=cfg(hlorenzi_customasm_verif)");
}
