//! Independent tokenizer + expression parser (text -> refx::E with its extent), written from the
//! documented grammar (DESIGN §3.2), used by the reference matcher to find expression extents
//! and to evaluate instruction arguments. Constructs it does not model (blocks, asm, assignment)
//! yield `PErr::Unmodelled` => the caller gives no verdict.
use crate::refx::*;

#[derive(Clone, Debug, PartialEq)]
pub enum Tk {
    Ws,
    Comment,
    Ident(String),
    Num(String),
    Str(String),
    P(&'static str),
    Bad,
}

#[derive(Clone, Debug)]
pub struct Token {
    pub tk: Tk,
    pub start: usize,
    pub end: usize,
}

const PUNCT: [&str; 39] = [
    "(", ")", "[", "]", "{", "}", ".", ",", "::", ":", "->", "<-", "=>", "#", "+", "-", "*", "/", "%", "^", "~", "@", "`", "&&", "&", "||", "|", "==", "=", "?", "!=", "!", "<=", "<<", "<", ">=", ">>>", ">>", ">",
];

fn is_id_start(c: char) -> bool {
    c.is_ascii_alphabetic() || c == '_'
}
fn is_id_mid(c: char) -> bool {
    c.is_ascii_alphanumeric() || c == '_'
}

/// Tokenise one line (no line breaks expected inside instruction text).
pub fn tokenize(s: &str) -> Vec<Token> {
    let b: Vec<char> = s.chars().collect();
    // byte offsets of each char
    let mut offs = Vec::with_capacity(b.len() + 1);
    let mut o = 0;
    for c in &b {
        offs.push(o);
        o += c.len_utf8();
    }
    offs.push(o);
    let mut out = vec![];
    let mut i = 0;
    while i < b.len() {
        let c = b[i];
        let st = i;
        let tk;
        if c == ' ' || c == '\t' || c == '\r' {
            while i < b.len() && (b[i] == ' ' || b[i] == '\t' || b[i] == '\r') {
                i += 1;
            }
            tk = Tk::Ws;
        } else if c == ';' {
            if i + 1 < b.len() && b[i + 1] == '*' {
                // block comment with nesting
                i += 2;
                let mut depth = 0;
                loop {
                    if i >= b.len() {
                        break;
                    }
                    if i + 1 < b.len() && b[i] == ';' && b[i + 1] == '*' {
                        depth += 1;
                        i += 2;
                    } else if i + 1 < b.len() && b[i] == '*' && b[i + 1] == ';' {
                        i += 2;
                        if depth == 0 {
                            break;
                        }
                        depth -= 1;
                    } else {
                        i += 1;
                    }
                }
            } else {
                while i < b.len() && b[i] != '\n' {
                    i += 1;
                }
            }
            tk = Tk::Comment;
        } else if c.is_ascii_digit() {
            while i < b.len() && is_id_mid(b[i]) {
                i += 1;
            }
            tk = Tk::Num(b[st..i].iter().collect());
        } else if c == '$' && i + 1 < b.len() && (b[i + 1].is_ascii_hexdigit() || b[i + 1] == '_') {
            i += 1;
            while i < b.len() && (b[i].is_ascii_hexdigit() || b[i] == '_') {
                i += 1;
            }
            tk = Tk::Num(b[st..i].iter().collect());
        } else if c == '%' && i + 1 < b.len() && (b[i + 1] == '0' || b[i + 1] == '1' || b[i + 1] == '_') {
            i += 1;
            while i < b.len() && (b[i] == '0' || b[i] == '1' || b[i] == '_') {
                i += 1;
            }
            tk = Tk::Num(b[st..i].iter().collect());
        } else if c == '$' {
            i += 1;
            tk = Tk::Ident("$".to_string());
        } else if is_id_start(c) {
            while i < b.len() && is_id_mid(b[i]) {
                i += 1;
            }
            tk = Tk::Ident(b[st..i].iter().collect());
        } else if c == '"' {
            i += 1;
            let mut closed = false;
            while i < b.len() {
                if b[i] == '\\' {
                    i += 2;
                    continue;
                }
                if b[i] == '"' {
                    i += 1;
                    closed = true;
                    break;
                }
                i += 1;
            }
            if closed && i <= b.len() {
                tk = Tk::Str(b[st..i].iter().collect());
            } else {
                i = st + 1;
                tk = Tk::Bad;
            }
        } else {
            let mut found = None;
            for p in PUNCT {
                let pc: Vec<char> = p.chars().collect();
                if i + pc.len() <= b.len() && b[i..i + pc.len()] == pc[..] {
                    // longest first among those sharing a first char
                    match found {
                        None => found = Some(p),
                        Some(f) if p.len() > f.len() => found = Some(p),
                        _ => {}
                    }
                }
            }
            match found {
                Some(p) => {
                    i += p.chars().count();
                    tk = Tk::P(p);
                }
                None => {
                    i += 1;
                    tk = Tk::Bad;
                }
            }
        }
        out.push(Token { tk, start: offs[st], end: offs[i.min(b.len())] });
    }
    out
}

#[derive(Clone, Debug, PartialEq)]
pub enum PErr {
    /// not an expression here
    Fail,
    /// a construct this model does not cover => no verdict
    Unmodelled(&'static str),
}

pub struct Parser<'a> {
    pub toks: &'a [Token],
    pub pos: usize,
    depth: usize,
}

type PRes = Result<E, PErr>;

impl<'a> Parser<'a> {
    pub fn new(toks: &'a [Token], pos: usize) -> Parser<'a> {
        Parser { toks, pos, depth: 0 }
    }
    fn skip(&mut self) {
        while self.pos < self.toks.len() && matches!(self.toks[self.pos].tk, Tk::Ws | Tk::Comment) {
            self.pos += 1;
        }
    }
    fn peek(&mut self) -> Option<&Tk> {
        self.skip();
        self.toks.get(self.pos).map(|t| &t.tk)
    }
    fn eat(&mut self, p: &'static str) -> bool {
        if self.peek() == Some(&Tk::P(p)) {
            self.pos += 1;
            true
        } else {
            false
        }
    }
    /// byte offset just after the last consumed token
    pub fn end_offset(&self) -> usize {
        // look-ahead (`peek`) may have stepped over blanks that were not consumed by the expression
        let mut p = self.pos;
        while p > 0 && matches!(self.toks[p - 1].tk, Tk::Ws | Tk::Comment) {
            p -= 1;
        }
        if p == 0 {
            0
        } else {
            self.toks[p - 1].end
        }
    }

    pub fn expr(&mut self) -> PRes {
        self.depth += 1;
        if self.depth > 40 {
            return Err(PErr::Unmodelled("deep nesting"));
        }
        let r = self.ternary();
        self.depth -= 1;
        r
    }
    fn ternary(&mut self) -> PRes {
        let c = self.assign()?;
        if self.eat("?") {
            let a = self.expr()?;
            if self.eat(":") {
                let b = self.expr()?;
                return Ok(E::Tern(Box::new(c), Box::new(a), Box::new(b)));
            }
            return Err(PErr::Unmodelled("ternary without else"));
        }
        Ok(c)
    }
    fn assign(&mut self) -> PRes {
        let l = self.binary(2)?;
        if self.peek() == Some(&Tk::P("=")) {
            return Err(PErr::Unmodelled("assignment"));
        }
        Ok(l)
    }
    fn binop_at(&mut self, level: u8) -> Option<BinOp> {
        let t = self.peek()?.clone();
        let Tk::P(p) = t else { return None };
        for op in ALL_BIN {
            if op.level() == level && op.text() == p {
                return Some(op);
            }
        }
        None
    }
    fn binary(&mut self, level: u8) -> PRes {
        if level > 11 {
            return self.slice();
        }
        let mut l = self.binary(level + 1)?;
        loop {
            let Some(op) = self.binop_at(level) else { break };
            self.pos += 1;
            let r = self.binary(level + 1)?;
            l = E::bin(op, l, r);
        }
        Ok(l)
    }
    fn slice(&mut self) -> PRes {
        let inner = self.short()?;
        if self.eat("[") {
            let hi = self.expr()?;
            if !self.eat(":") {
                return Err(PErr::Fail);
            }
            let lo = self.expr()?;
            if !self.eat("]") {
                return Err(PErr::Fail);
            }
            return Ok(E::Slice(Box::new(inner), Box::new(hi), Box::new(lo)));
        }
        Ok(inner)
    }
    fn short(&mut self) -> PRes {
        let inner = self.unary()?;
        if self.eat("`") {
            let n = self.leaf()?;
            return Ok(E::Short(Box::new(inner), Box::new(n)));
        }
        Ok(inner)
    }
    fn unary(&mut self) -> PRes {
        if self.eat("!") {
            self.depth += 1;
            if self.depth > 40 {
                return Err(PErr::Unmodelled("deep nesting"));
            }
            let r = self.unary()?;
            self.depth -= 1;
            return Ok(E::un(UnOp::Not, r));
        }
        if self.eat("-") {
            self.depth += 1;
            if self.depth > 40 {
                return Err(PErr::Unmodelled("deep nesting"));
            }
            let r = self.unary()?;
            self.depth -= 1;
            return Ok(E::un(UnOp::Neg, r));
        }
        self.call()
    }
    fn call(&mut self) -> PRes {
        let leaf = self.leaf()?;
        if self.peek() == Some(&Tk::P("(")) {
            let E::Var(name) = &leaf else { return Err(PErr::Unmodelled("call of a non-name")) };
            let name = name.clone();
            self.pos += 1;
            let mut args = vec![];
            loop {
                if self.eat(")") {
                    break;
                }
                args.push(self.expr()?);
                if self.eat(")") {
                    break;
                }
                if !self.eat(",") {
                    return Err(PErr::Fail);
                }
            }
            return Ok(E::Call(name, args));
        }
        Ok(leaf)
    }
    fn leaf(&mut self) -> PRes {
        let Some(t) = self.peek().cloned() else { return Err(PErr::Fail) };
        match t {
            Tk::P("(") => {
                self.pos += 1;
                let e = self.expr()?;
                if !self.eat(")") {
                    return Err(PErr::Fail);
                }
                Ok(e)
            }
            Tk::P("{") => {
                self.pos += 1;
                let mut es = vec![];
                loop {
                    if self.eat("}") {
                        break;
                    }
                    es.push(self.expr()?);
                    if self.eat("}") {
                        break;
                    }
                    if !self.eat(",") {
                        return Err(PErr::Unmodelled("block separated by line breaks"));
                    }
                }
                Ok(E::Block(es))
            }
            Tk::Num(s) => {
                self.pos += 1;
                if literal(&s).is_none() {
                    return Err(PErr::Fail);
                }
                Ok(E::Num(s))
            }
            Tk::Str(s) => {
                self.pos += 1;
                Ok(E::Str(s))
            }
            Tk::Ident(s) if s == "asm" => Err(PErr::Unmodelled("asm block")),
            Tk::Ident(s) if s == "true" => {
                self.pos += 1;
                Ok(E::Bool(true))
            }
            Tk::Ident(s) if s == "false" => {
                self.pos += 1;
                Ok(E::Bool(false))
            }
            Tk::Ident(_) | Tk::P(".") => {
                // variable: leading dots then dotted path
                let mut name = String::new();
                while self.eat(".") {
                    name.push('.');
                }
                loop {
                    let Some(Tk::Ident(s)) = self.peek().cloned() else { return Err(PErr::Fail) };
                    if s == "asm" || s == "true" || s == "false" {
                        return Err(PErr::Fail);
                    }
                    self.pos += 1;
                    name.push_str(&s);
                    if self.eat(".") {
                        name.push('.');
                        continue;
                    }
                    break;
                }
                Ok(E::Var(name))
            }
            _ => Err(PErr::Fail),
        }
    }
}

/// Parse a complete text as one expression; Err(Fail) if it is not one or tokens are left over.
pub fn parse_all(text: &str) -> PRes {
    let toks = tokenize(text);
    let mut p = Parser::new(&toks, 0);
    let e = p.expr()?;
    p.skip();
    if p.pos != toks.len() {
        return Err(PErr::Fail);
    }
    Ok(e)
}
