// cav — bounded exhaustive exploration of hlorenzi/customasm against reference models.
// `use customasm::*` at the crate root mirrors /repo/src/main.rs so that /repo/src/driver.rs
// (which says `use crate::*`) compiles unchanged inside this harness.
#[allow(unused_imports)]
use customasm::*;

#[allow(dead_code)]
#[path = "/repo/src/driver.rs"]
pub mod driver;

pub mod corpus;
pub mod corpus_conf;
pub mod props;
pub mod refasm;
pub mod refparse;
pub mod refx;
pub mod run;
pub mod stats;

use stats::Ctx;

fn main() {
    let args: Vec<String> = std::env::args().collect();
    if args.len() < 2 {
        eprintln!("usage: cav <ID> [--tier quick|thorough] [--replay file]");
        std::process::exit(2);
    }
    let id = args[1].clone();
    if id == "REF-FILE" {
        debug_ref_file(&args[2]);
        std::process::exit(0);
    }
    let mut thorough = std::env::var("VERIF_TIER").map(|t| t == "thorough").unwrap_or(false);
    let mut replay: Option<String> = None;
    let mut i = 2;
    while i < args.len() {
        match args[i].as_str() {
            "--tier" => {
                thorough = args.get(i + 1).map(|s| s == "thorough").unwrap_or(false);
                i += 2;
            }
            "--replay" => {
                replay = args.get(i + 1).cloned();
                i += 2;
            }
            _ => {
                eprintln!("unknown argument {}", args[i]);
                std::process::exit(2);
            }
        }
    }
    let seed: i64 = std::env::var("VERIF_SEED").ok().and_then(|s| s.parse().ok()).unwrap_or(0);
    let verif = std::env::var("VERIF_DIR").unwrap_or_else(|_| "/verif".to_string());
    let repo = std::env::var("VERIF_REPO").unwrap_or_else(|_| "/repo".to_string());

    run::install_quiet_panic_hook();
    rayon::ThreadPoolBuilder::new().stack_size(8 << 20).build_global().expect("thread pool");

    if id == "CORPUS-CONF" {
        let c = corpus_conf::run(&repo);
        println!("files={} in_domain={} agreed={} reference_unspecified={} disagreements={}", c.files_total, c.in_domain, c.agreed, c.reference_unspecified, c.disagreements.len());
        for d in &c.disagreements {
            println!("  {}", d);
        }
        for (k, v) in &c.unspecified_reasons {
            println!("  unspecified x{}: {}", v, k);
        }
        std::process::exit(if c.disagreements.is_empty() { 0 } else { 2 });
    }
    let Some(prop) = props::find(&id) else {
        eprintln!("unknown property {}", id);
        std::process::exit(2);
    };
    let ctx = Ctx { id: prop.id, thorough, seed, repo, verif };

    if let Some(path) = replay {
        let text = std::fs::read_to_string(&path).unwrap_or_else(|e| {
            eprintln!("cannot read {}: {}", path, e);
            std::process::exit(2)
        });
        let v: serde_json::Value = serde_json::from_str(&text).unwrap_or_else(|e| {
            eprintln!("bad replay file: {}", e);
            std::process::exit(2)
        });
        let code = (prop.replay)(&ctx, &v["case"]);
        std::process::exit(code);
    }

    let t0 = std::time::Instant::now();
    // the whole check runs on a big-stack thread so deep (but legal) recursion in the harness is safe
    let rep = (prop.run)(&ctx);
    let wall = t0.elapsed().as_secs_f64();
    let code = stats::finish(&ctx, rep, wall);
    std::process::exit(code);
}

#[allow(dead_code)]
pub fn debug_ref_file(path: &str) {
    let text = std::fs::read_to_string(path).unwrap();
    match corpus_conf::translate(&text) {
        None => println!("not translatable"),
        Some(p) => {
            println!("{}", p.render());
            println!("{:?}", match refasm::assemble(&p) { refasm::RefOut::Ok(ok) => format!("OK {}", run::bits_to_hex(&ok.bits)), refasm::RefOut::Error(e) => format!("ERROR {}", e), refasm::RefOut::Unspec(e) => format!("UNSPEC {}", e) });
        }
    }
}
