//! In-process runner for the subject: assembles on a mock file server, catches panics,
//! and turns the public result into a plain observation record.
use customasm::*;
use customasm::util::FileServer;
use std::panic::{catch_unwind, AssertUnwindSafe};

#[derive(Clone, Debug, PartialEq, Eq)]
pub enum DefVal {
    Bool(bool),
    Int(i64),
}

#[derive(Clone, Debug)]
pub struct Opts {
    pub iters: usize,
    pub opt_static: bool,
    pub opt_matcher: bool,
    pub defines: Vec<(String, DefVal)>,
}

impl Default for Opts {
    fn default() -> Self {
        Opts { iters: 10, opt_static: true, opt_matcher: true, defines: vec![] }
    }
}

impl Opts {
    pub fn iters(n: usize) -> Opts {
        Opts { iters: n, ..Default::default() }
    }
    pub fn to_asm(&self) -> asm::AssemblyOptions {
        let mut o = asm::AssemblyOptions::new();
        o.max_iterations = self.iters;
        o.optimize_statically_known = self.opt_static;
        o.optimize_instruction_matching = self.opt_matcher;
        for (n, v) in &self.defines {
            o.driver_symbol_defs.push(asm::DriverSymbolDef {
                name: n.clone(),
                value: match v {
                    DefVal::Bool(b) => expr::Value::make_bool(*b),
                    DefVal::Int(i) => expr::Value::make_integer(*i),
                },
            });
        }
        o
    }
    pub fn to_json(&self) -> serde_json::Value {
        serde_json::json!({"iters": self.iters, "opt_static": self.opt_static, "opt_matcher": self.opt_matcher,
            "defines": self.defines.iter().map(|(n,v)| format!("{}={:?}", n, v)).collect::<Vec<_>>()})
    }
}

#[derive(Clone, Debug, PartialEq, Eq)]
pub struct SpanObs {
    pub offset: Option<usize>,
    pub size: usize,
    pub addr: String, // decimal
    pub file: String,
    pub start: usize,
    pub end: usize,
}

#[derive(Clone, Debug)]
pub struct MsgObs {
    pub kind: &'static str,
    pub descr: String,
    pub file: Option<String>,
    pub range: Option<(usize, usize)>,
    pub inner: Vec<MsgObs>,
}

#[derive(Clone, Debug, Default)]
pub struct Obs {
    pub panicked: Option<String>,
    /// output present
    pub ok: bool,
    pub has_errors: bool,
    /// bits as '0'/'1'
    pub bits: String,
    pub spans: Vec<SpanObs>,
    /// (hierarchical name, value debug) of every declared symbol, in declaration order
    pub symbols: Vec<(String, String)>,
    pub iterations: Option<usize>,
    pub messages: Vec<MsgObs>,
}

impl Obs {
    pub fn hex(&self) -> String {
        bits_to_hex(&self.bits)
    }
    pub fn first_error(&self) -> Option<&MsgObs> {
        self.messages.iter().find(|m| m.kind == "error")
    }
    pub fn summary(&self) -> serde_json::Value {
        serde_json::json!({
            "panicked": self.panicked, "ok": self.ok, "has_errors": self.has_errors,
            "bits_len": self.bits.len(), "hex": self.hex(), "symbols": self.symbols,
            "iterations": self.iterations,
            "messages": self.messages.iter().map(|m| m.flat()).collect::<Vec<_>>(),
        })
    }
    /// Clean success: output and no error diagnostic and no panic.
    pub fn success(&self) -> bool {
        self.panicked.is_none() && self.ok && !self.has_errors
    }
    /// Clean failure: no output, at least one error diagnostic, no panic.
    pub fn failure(&self) -> bool {
        self.panicked.is_none() && !self.ok && self.has_errors
    }
}

impl MsgObs {
    pub fn flat(&self) -> String {
        let mut s = format!("{}: {}", self.kind, self.descr);
        if let (Some(f), Some(r)) = (&self.file, self.range) {
            s += &format!(" @{}:{}..{}", f, r.0, r.1);
        }
        for i in &self.inner {
            s += " / ";
            s += &i.flat();
        }
        s
    }
    /// innermost-first located error span (the deepest message that has a location)
    pub fn deepest_located(&self) -> Option<&MsgObs> {
        for i in &self.inner {
            if let Some(d) = i.deepest_located() {
                return Some(d);
            }
        }
        if self.range.is_some() {
            Some(self)
        } else {
            None
        }
    }
}

pub fn bits_to_hex(bits: &str) -> String {
    let mut s = String::new();
    let b = bits.as_bytes();
    let mut i = 0;
    while i < b.len() {
        let mut d = 0u8;
        for k in 0..4 {
            d <<= 1;
            if i + k < b.len() && b[i + k] == b'1' {
                d |= 1;
            }
        }
        s.push(std::char::from_digit(d as u32, 16).unwrap());
        i += 4;
    }
    s
}

pub fn install_quiet_panic_hook() {
    std::panic::set_hook(Box::new(|_| {}));
}

pub fn panic_text(e: Box<dyn std::any::Any + Send>) -> String {
    if let Some(s) = e.downcast_ref::<&str>() {
        s.to_string()
    } else if let Some(s) = e.downcast_ref::<String>() {
        s.clone()
    } else {
        "panic".to_string()
    }
}

pub fn mock(files: &[(String, Vec<u8>)]) -> util::FileServerMock {
    let mut fs = util::FileServerMock::new();
    for (n, c) in files {
        fs.add(n.clone(), c.clone());
    }
    fs
}

fn conv_msg(fs: &dyn util::FileServer, m: &diagn::Message) -> MsgObs {
    let kind = match m.kind {
        diagn::MessageKind::Error => "error",
        diagn::MessageKind::Warning => "warning",
        diagn::MessageKind::Note => "note",
    };
    let (file, range) = match m.span {
        Some(sp) => match sp.location() {
            Some(loc) => (Some(fs.get_filename(sp.file_handle).to_string()), Some(loc)),
            None => (None, None),
        },
        None => (None, None),
    };
    MsgObs { kind, descr: m.descr.clone(), file, range, inner: m.inner.iter().map(|i| conv_msg(fs, i)).collect() }
}

pub fn messages_of(fs: &dyn util::FileServer, report: &diagn::Report) -> Vec<MsgObs> {
    report.verif_messages().iter().map(|m| conv_msg(fs, m)).collect()
}

pub fn bits_of(out: &util::BitVec) -> String {
    let mut s = String::with_capacity(out.len());
    for i in 0..out.len() {
        s.push(if out.read_bit(i) { '1' } else { '0' });
    }
    s
}

/// Collect (hierarchical name, value) for all declared symbols, in declaration order.
pub fn symbols_of(decls: &asm::ItemDecls, defs: &asm::ItemDefs) -> Vec<(String, String)> {
    // `symbols` output format lists `name = 0x..` lines in declaration order, children indented
    // as `parent.child`. We parse it instead of touching private structures.
    let text = decls.symbols.format_default(decls, defs);
    let mut v = vec![];
    for line in text.lines() {
        if let Some((n, val)) = line.split_once(" = ") {
            v.push((n.trim().to_string(), val.trim().to_string()));
        }
    }
    v
}

/// Full raw run, for checks that need the structured result.
pub struct Raw {
    pub report: diagn::Report,
    pub result: Option<asm::AssemblyResult>,
    pub fs: util::FileServerMock,
    pub panicked: Option<String>,
}

pub fn assemble_raw(files: &[(String, Vec<u8>)], roots: &[&str], opts: &Opts) -> Raw {
    let mut fs = mock(files);
    let mut report = diagn::Report::new();
    let aopts = opts.to_asm();
    let r = catch_unwind(AssertUnwindSafe(|| asm::assemble(&mut report, &aopts, &mut fs, roots)));
    match r {
        Ok(res) => Raw { report, result: Some(res), fs, panicked: None },
        Err(e) => Raw { report, result: None, fs, panicked: Some(panic_text(e)) },
    }
}

pub fn observe(raw: &Raw) -> Obs {
    let mut o = Obs::default();
    o.panicked = raw.panicked.clone();
    o.has_errors = raw.report.has_errors();
    o.messages = messages_of(&raw.fs, &raw.report);
    if let Some(res) = &raw.result {
        o.iterations = res.iterations_taken;
        if let Some(out) = &res.output {
            o.ok = true;
            o.bits = bits_of(out);
            for sp in &out.spans {
                let (start, end) = sp.span.location().unwrap_or((usize::MAX, usize::MAX));
                o.spans.push(SpanObs {
                    offset: sp.offset,
                    size: sp.size,
                    addr: format!("{:x}", sp.addr),
                    file: raw.fs.get_filename(sp.span.file_handle).to_string(),
                    start,
                    end,
                });
            }
            if let (Some(decls), Some(defs)) = (&res.decls, &res.defs) {
                let r = catch_unwind(AssertUnwindSafe(|| symbols_of(decls, defs)));
                match r {
                    Ok(s) => o.symbols = s,
                    Err(e) => o.panicked = Some(format!("symbols: {}", panic_text(e))),
                }
            }
        }
    }
    o
}

/// Assemble a single in-memory file named "main.asm".
pub fn assemble_str(src: &str, opts: &Opts) -> Obs {
    let files = vec![("main.asm".to_string(), src.as_bytes().to_vec())];
    observe(&assemble_raw(&files, &["main.asm"], opts))
}

pub fn assemble_files(files: &[(String, Vec<u8>)], roots: &[&str], opts: &Opts) -> Obs {
    observe(&assemble_raw(files, roots, opts))
}

/// Run the driver (`driver::drive`) on a mock file server. Returns (Ok?, report messages, written files, panic).
pub struct DriveObs {
    pub ok: bool,
    pub panicked: Option<String>,
    pub has_errors: bool,
    pub messages: Vec<MsgObs>,
    /// files written through the file server: (name without the mock suffix, bytes)
    pub written: Vec<(String, Vec<u8>)>,
    pub assembly_output: Option<String>,
}

pub fn drive(files: &[(String, Vec<u8>)], args: &[&str], candidates: &[String]) -> DriveObs {
    let mut fs = mock(files);
    let mut report = diagn::Report::new();
    let mut argv: Vec<String> = vec!["customasm".to_string()];
    argv.extend(args.iter().map(|s| s.to_string()));
    let r = catch_unwind(AssertUnwindSafe(|| crate::driver::drive(&mut report, &argv, &mut fs)));
    let mut o = DriveObs { ok: false, panicked: None, has_errors: report.has_errors(), messages: vec![], written: vec![], assembly_output: None };
    o.messages = messages_of(&fs, &report);
    match r {
        Ok(Ok(res)) => {
            o.ok = true;
            o.assembly_output = res.output.as_ref().map(bits_of);
        }
        Ok(Err(())) => {}
        Err(e) => o.panicked = Some(panic_text(e)),
    }
    for c in candidates {
        let wn = format!("{}{}", c, util::FILESERVER_MOCK_WRITE_FILENAME_SUFFIX);
        let mut dummy = diagn::Report::new();
        if let Ok(h) = fs.get_handle(&mut dummy, None, &wn) {
            if let Ok(b) = fs.get_bytes(&mut dummy, None, h) {
                o.written.push((c.clone(), b));
            }
        }
    }
    o
}

/// Hook H2: the per-pass state digests of the resolver runs executed on this thread since the last call.
pub fn take_pass_trace() -> Vec<(usize, bool, bool, bool, u64)> {
    customasm::asm::resolver::verif::take_trace().into_iter().map(|p| (p.iteration, p.is_first, p.is_last, p.resolved, p.state_digest)).collect()
}

