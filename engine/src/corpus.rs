//! The repository's own test corpus (tests/**.asm, examples) loaded the way /repo/src/test/file.rs
//! loads it: every file of the test's folder on a mock file server under its relative name, plus
//! the std library under `<std>/`.
use std::path::Path;
use std::sync::Arc;

#[derive(Clone)]
pub struct CorpusCase {
    pub id: String,
    pub files: Arc<Vec<(String, Vec<u8>)>>,
    pub root: String,
    /// the maintainers' expectation comments
    pub expects_error: bool,
    pub expects_encoding: bool,
    pub has_command: bool,
}

fn read_tree(dir: &Path, prefix: &str, out: &mut Vec<(String, Vec<u8>)>) {
    let Ok(rd) = std::fs::read_dir(dir) else { return };
    let mut entries: Vec<_> = rd.filter_map(|e| e.ok()).collect();
    entries.sort_by_key(|e| e.file_name());
    for e in entries {
        let p = e.path();
        let name = e.file_name().to_string_lossy().to_string();
        if p.is_file() {
            if let Ok(b) = std::fs::read(&p) {
                out.push((format!("{}{}", prefix, name), b));
            }
        } else if p.is_dir() {
            read_tree(&p, &format!("{}{}/", prefix, name), out);
        }
    }
}

pub fn std_files(repo: &str) -> Vec<(String, Vec<u8>)> {
    let mut v = vec![];
    read_tree(&Path::new(repo).join("std"), "<std>/", &mut v);
    v
}

pub fn load(repo: &str) -> Vec<CorpusCase> {
    let stdf = std_files(repo);
    let mut cases = vec![];
    let tests = Path::new(repo).join("tests");
    let Ok(rd) = std::fs::read_dir(&tests) else { return cases };
    let mut dirs: Vec<_> = rd.filter_map(|e| e.ok()).filter(|e| e.path().is_dir()).collect();
    dirs.sort_by_key(|e| e.file_name());
    for d in dirs {
        let mut files = vec![];
        read_tree(&d.path(), "", &mut files);
        let mut all = files.clone();
        all.extend(stdf.iter().cloned());
        let all = Arc::new(all);
        for (name, content) in &files {
            if !name.ends_with(".asm") || name.contains('/') {
                continue;
            }
            let text = String::from_utf8_lossy(content);
            let expects_error = text.contains("; error:");
            let expects_encoding = text.contains("; =");
            let has_command = text.contains("; command: ");
            if !expects_error && !expects_encoding && !has_command {
                continue; // helper file (included by others)
            }
            cases.push(CorpusCase { id: format!("{}/{}", d.file_name().to_string_lossy(), name), files: all.clone(), root: name.clone(), expects_error, expects_encoding, has_command });
        }
    }
    // examples
    let mut ex = vec![];
    read_tree(&Path::new(repo).join("examples"), "", &mut ex);
    let mut all = ex.clone();
    all.extend(stdf.iter().cloned());
    let all = Arc::new(all);
    for (name, _) in &ex {
        if name.ends_with(".asm") && !name.contains('/') {
            cases.push(CorpusCase { id: format!("examples/{}", name), files: all.clone(), root: name.clone(), expects_error: false, expects_encoding: false, has_command: false });
        }
    }
    cases
}
