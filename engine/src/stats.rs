//! Evidence accumulation, violation records, known-finding matching, parallel enumeration.
use rayon::prelude::*;
use serde_json::{json, Value};
use std::collections::{BTreeMap, HashSet};
use std::hash::{Hash, Hasher};

/// Deterministic 64-bit FNV-1a (state digests must not depend on the process hash seed).
#[derive(Clone, Copy)]
pub struct Fnv(pub u64);
impl Default for Fnv {
    fn default() -> Self {
        Fnv(0xcbf29ce484222325)
    }
}
impl Hasher for Fnv {
    fn finish(&self) -> u64 {
        self.0
    }
    fn write(&mut self, bytes: &[u8]) {
        for b in bytes {
            self.0 ^= *b as u64;
            self.0 = self.0.wrapping_mul(0x100000001b3);
        }
    }
}
pub fn fnv<T: Hash + ?Sized>(t: &T) -> u64 {
    let mut h = Fnv::default();
    t.hash(&mut h);
    h.finish()
}

#[derive(Clone, Debug)]
pub struct Violation {
    pub property: &'static str,
    /// input-side classification used to match known findings (never a panic line or message text)
    pub key: String,
    /// short human description
    pub what: String,
    /// everything needed to re-run the case (files, options/argv, coordinates) + expected/observed
    pub case: Value,
}

/// Per-worker accumulator, merged at the end.
#[derive(Default)]
pub struct Local {
    pub evaluations: u64,
    pub nontrivial: HashSet<u64>,
    pub classes: BTreeMap<String, u64>,
    pub samples: Vec<Value>,
    pub violations: Vec<Violation>,
    pub states: HashSet<u64>,
    pub transitions: u64,
    pub traces_validated: u64,
    pub unspecified: u64,
    pub counters: BTreeMap<String, u64>,
    /// total violations per key (only the first few of each key are kept in `violations`)
    pub viol_counts: BTreeMap<String, u64>,
}

pub const MAX_SAMPLES: usize = 6;
pub const MAX_VIOLATIONS_KEPT_PER_KEY: u64 = 8;

impl Local {
    pub fn new() -> Local {
        Local::default()
    }
    pub fn eval(&mut self) {
        self.evaluations += 1;
    }
    pub fn nontrivial<T: Hash + ?Sized>(&mut self, key: &T) {
        self.nontrivial.insert(fnv(key));
    }
    pub fn class(&mut self, c: &str) {
        *self.classes.entry(c.to_string()).or_insert(0) += 1;
    }
    pub fn count(&mut self, c: &str, n: u64) {
        *self.counters.entry(c.to_string()).or_insert(0) += n;
    }
    pub fn state<T: Hash + ?Sized>(&mut self, s: &T) {
        self.states.insert(fnv(s));
    }
    pub fn sample(&mut self, f: impl FnOnce() -> Value) {
        if self.samples.len() < MAX_SAMPLES {
            self.samples.push(f());
        }
    }
    pub fn violation(&mut self, v: Violation) {
        let n = self.viol_counts.entry(v.key.clone()).or_insert(0);
        *n += 1;
        if *n <= MAX_VIOLATIONS_KEPT_PER_KEY {
            self.violations.push(v);
        }
    }
    pub fn merge(mut self, o: Local) -> Local {
        self.evaluations += o.evaluations;
        self.nontrivial.extend(o.nontrivial);
        for (k, v) in o.classes {
            *self.classes.entry(k).or_insert(0) += v;
        }
        for (k, v) in o.counters {
            *self.counters.entry(k).or_insert(0) += v;
        }
        for s in o.samples {
            if self.samples.len() < MAX_SAMPLES {
                self.samples.push(s);
            }
        }
        for v in o.violations {
            let kept = self.violations.iter().filter(|x| x.key == v.key).count() as u64;
            if kept < MAX_VIOLATIONS_KEPT_PER_KEY {
                self.violations.push(v);
            }
        }
        for (k, v) in o.viol_counts {
            *self.viol_counts.entry(k).or_insert(0) += v;
        }
        self.states.extend(o.states);
        self.transitions += o.transitions;
        self.traces_validated += o.traces_validated;
        self.unspecified += o.unspecified;
        self
    }
}

/// Run `f(i, &mut local)` for every i in 0..n on all cores; canonical order inside chunks,
/// chunk scheduling order is irrelevant for the explored set.
pub fn par_run<F>(n: u64, f: F) -> Local
where
    F: Fn(u64, &mut Local) + Sync + Send,
{
    let chunk: u64 = std::cmp::max(1, std::cmp::min(4096, n / 256 + 1));
    let nchunks = (n + chunk - 1) / chunk;
    (0..nchunks)
        .into_par_iter()
        .map(|c| {
            let mut l = Local::new();
            let lo = c * chunk;
            let hi = std::cmp::min(n, lo + chunk);
            for i in lo..hi {
                f(i, &mut l);
            }
            l
        })
        .reduce(Local::new, Local::merge)
}

/// Run over an explicit list of cases.
pub fn par_cases<T, F>(cases: &[T], f: F) -> Local
where
    T: Sync,
    F: Fn(&T, &mut Local) + Sync + Send,
{
    par_run(cases.len() as u64, |i, l| f(&cases[i as usize], l))
}

/// Mixed-radix decode: index -> digits (least significant first).
pub fn decode(mut i: u64, radices: &[u64]) -> Vec<u64> {
    let mut v = Vec::with_capacity(radices.len());
    for r in radices {
        v.push(i % r);
        i /= r;
    }
    v
}
pub fn product(radices: &[u64]) -> u64 {
    radices.iter().product()
}

/// All sequences over an alphabet of size k with length 0..=maxlen, in length-then-lexicographic order.
pub fn seq_count(k: u64, maxlen: u32) -> u64 {
    (0..=maxlen).map(|l| k.pow(l)).sum()
}
pub fn seq_decode(mut i: u64, k: u64, maxlen: u32) -> Vec<usize> {
    for l in 0..=maxlen {
        let c = k.pow(l);
        if i < c {
            let mut v = vec![0usize; l as usize];
            for p in (0..l as usize).rev() {
                v[p] = (i % k) as usize;
                i /= k;
            }
            return v;
        }
        i -= c;
    }
    unreachable!()
}

pub fn permutations(n: usize) -> Vec<Vec<usize>> {
    fn rec(cur: &mut Vec<usize>, used: &mut Vec<bool>, n: usize, out: &mut Vec<Vec<usize>>) {
        if cur.len() == n {
            out.push(cur.clone());
            return;
        }
        for i in 0..n {
            if !used[i] {
                used[i] = true;
                cur.push(i);
                rec(cur, used, n, out);
                cur.pop();
                used[i] = false;
            }
        }
    }
    let mut out = vec![];
    rec(&mut vec![], &mut vec![false; n], n, &mut out);
    out
}

// ---------------------------------------------------------------------------------------------

pub struct Ctx {
    pub id: &'static str,
    pub thorough: bool,
    pub seed: i64,
    pub repo: String,
    pub verif: String,
}

pub struct Report {
    pub level: &'static str,
    pub rule: String,
    pub exhaustive: bool,
    pub local: Local,
    pub extra: BTreeMap<String, Value>,
    pub assumptions: Vec<String>,
    /// machinery failure (vacuity guard etc.) -> exit 2
    pub machinery_error: Option<String>,
}

impl Report {
    pub fn new(level: &'static str, rule: &str) -> Report {
        Report { level, rule: rule.to_string(), exhaustive: true, local: Local::new(), extra: BTreeMap::new(), assumptions: vec![], machinery_error: None }
    }
    pub fn absorb(&mut self, l: Local) {
        let cur = std::mem::take(&mut self.local);
        self.local = cur.merge(l);
    }
    pub fn extra(&mut self, k: &str, v: Value) {
        self.extra.insert(k.to_string(), v);
    }
    pub fn require_class(&mut self, c: &str) {
        if self.local.classes.get(c).copied().unwrap_or(0) == 0 && self.machinery_error.is_none() {
            self.machinery_error = Some(format!("vacuity guard: class `{}` is empty", c));
        }
    }
}

#[derive(Clone, Debug)]
pub struct KnownFinding {
    pub property: String,
    pub key: String,
    pub what: String,
    pub status: String,
}

pub fn load_known(verif: &str) -> Vec<KnownFinding> {
    let p = format!("{}/known_findings.json", verif);
    let Ok(s) = std::fs::read_to_string(&p) else { return vec![] };
    let Ok(v) = serde_json::from_str::<Value>(&s) else { return vec![] };
    let mut out = vec![];
    if let Some(a) = v.get("findings").and_then(|a| a.as_array()) {
        for e in a {
            out.push(KnownFinding {
                property: e["property"].as_str().unwrap_or("").to_string(),
                key: e["key"].as_str().unwrap_or("").to_string(),
                what: e["what"].as_str().unwrap_or("").to_string(),
                status: e["status"].as_str().unwrap_or("").to_string(),
            });
        }
    }
    out
}

/// Write evidence + replays, print VIOLATION / KNOWN-FINDING lines, return exit code.
pub fn finish(ctx: &Ctx, rep: Report, wall_s: f64) -> i32 {
    let known = load_known(&ctx.verif);
    let mut new_violations: Vec<&Violation> = vec![];
    let mut known_hit: BTreeMap<String, (String, u64)> = BTreeMap::new();
    let is_known = |prop: &str, key: &str| known.iter().find(|k| k.status == "known" && k.property == prop && k.key == key).cloned();
    for v in &rep.local.violations {
        if is_known(v.property, &v.key).is_none() {
            new_violations.push(v);
        }
    }
    let mut nviol: u64 = 0;
    for (k, n) in &rep.local.viol_counts {
        match is_known(ctx.id, k) {
            Some(kf) => {
                known_hit.insert(k.clone(), (kf.what.clone(), *n));
            }
            None => nviol += n,
        }
    }
    // replay files
    let dir = format!("{}/replays/{}", ctx.verif, ctx.id);
    let mut per_key: BTreeMap<String, u64> = BTreeMap::new();
    let mut lines = vec![];
    for v in &new_violations {
        let n = per_key.entry(v.key.clone()).or_insert(0);
        *n += 1;
        // up to 4 replay files per distinct key, 40 overall
        if *n > 4 || lines.len() >= 40 {
            continue;
        }
        let _ = std::fs::create_dir_all(&dir);
        let body = json!({"property": v.property, "key": v.key, "what": v.what, "case": v.case,
            "build_profile": "release, opt-level=2, overflow-checks=on, debug-assertions=on, --cfg hlorenzi_customasm_verif"});
        let text = serde_json::to_string_pretty(&body).unwrap();
        let h = fnv(&text);
        let path = format!("{}/{:016x}.json", dir, h);
        let _ = std::fs::write(&path, text);
        lines.push(format!("VIOLATION property={} replay={}", v.property, path));
        eprintln!("  violation: [{}] {}", v.key, v.what);
    }
    for (k, n) in &rep.local.viol_counts {
        if is_known(ctx.id, k).is_none() {
            eprintln!("  violations with key [{}]: {}", k, n);
        }
    }
    for (k, (what, n)) in &known_hit {
        println!("KNOWN-FINDING: property={} {} [key={} cases={}]", ctx.id, what, k, n);
    }
    for l in &lines {
        println!("{}", l);
    }

    // evidence
    let mut cov = serde_json::Map::new();
    cov.insert("evaluations".into(), json!(rep.local.evaluations));
    cov.insert("distinct_nontrivial".into(), json!(rep.local.nontrivial.len()));
    cov.insert("rule".into(), json!(rep.rule));
    cov.insert("samples".into(), json!(rep.local.samples));
    cov.insert("exhaustive".into(), json!(rep.exhaustive));
    cov.insert("classes".into(), json!(rep.local.classes));
    if !rep.local.counters.is_empty() {
        cov.insert("counters".into(), json!(rep.local.counters));
    }
    if rep.local.unspecified > 0 {
        cov.insert("unspecified_no_verdict".into(), json!(rep.local.unspecified));
    }
    if rep.level == "model_checking" {
        // states/transitions only where the check really explores a state graph (pass states, include-stack
        // configurations, #if worlds, accepted command lines); checks against a closed-form or executable
        // reference report the generic keys plus the number of reference predictions compared
        if !rep.local.states.is_empty() {
            cov.insert("states".into(), json!(rep.local.states.len()));
            cov.insert("transitions".into(), json!(rep.local.transitions));
        }
        cov.insert("traces_validated_against_impl".into(), json!(rep.local.traces_validated));
    }
    cov.insert("known_findings_reobserved".into(), json!(known_hit.iter().map(|(k, (_, n))| json!({"key": k, "cases": n})).collect::<Vec<_>>()));
    for (k, v) in &rep.extra {
        cov.insert(k.clone(), v.clone());
    }
    let ev = json!({
        "property_id": ctx.id,
        "tier": if ctx.thorough { "thorough" } else { "quick" },
        "seed": ctx.seed,
        "level": rep.level,
        "coverage": Value::Object(cov),
        "assumptions": rep.assumptions,
        "wall_s": wall_s,
        "violations": nviol,
    });
    let evdir = format!("{}/evidence", ctx.verif);
    let _ = std::fs::create_dir_all(&evdir);
    std::fs::write(format!("{}/{}.json", evdir, ctx.id), serde_json::to_string_pretty(&ev).unwrap() + "\n").expect("write evidence");

    eprintln!(
        "[{}] evaluations={} distinct_nontrivial={} violations={} known={} wall={:.1}s",
        ctx.id,
        rep.local.evaluations,
        rep.local.nontrivial.len(),
        nviol,
        known_hit.len(),
        wall_s
    );
    // A violation found by a sound oracle stands whatever the vacuity guards say about the *rest* of the
    // run (a change in the subject may empty an outcome class); without violations a guard failure means the
    // run proved less than it claims: machinery failure, not a verdict.
    if nviol > 0 {
        if let Some(e) = &rep.machinery_error {
            eprintln!("note: vacuity/machinery guard also failed: {}", e);
        }
        return 1;
    }
    if let Some(e) = rep.machinery_error {
        eprintln!("MACHINERY ERROR: {}", e);
        return 2;
    }
    0
}
