//! Reference assembler (DESIGN §3.3–3.4): an independent, declarative implementation of rule
//! matching, layout, scoping and emission for *size-static* programs, working from the
//! generator's abstract program. Anything outside its defined domain => `RefOut::Unspec`.
use crate::refparse::{self, PErr, Parser, Tk};
use crate::refx::*;
use std::collections::HashMap;

// ------------------------------------------------------------------------------------------
// abstract program

#[derive(Clone, Debug, PartialEq, Eq, Hash)]
pub struct RuleSrc {
    pub pattern: String,
    pub prod: String,
}
impl RuleSrc {
    pub fn new(p: &str, e: &str) -> RuleSrc {
        RuleSrc { pattern: p.to_string(), prod: e.to_string() }
    }
}

#[derive(Clone, Debug, PartialEq, Eq, Hash)]
pub struct RuleDefSrc {
    pub name: Option<String>,
    pub sub: bool,
    pub rules: Vec<RuleSrc>,
}

#[derive(Clone, Debug, PartialEq, Eq, Hash, Default)]
pub struct BankSrc {
    pub name: String,
    pub bits: Option<usize>,
    pub addr: Option<i128>,
    pub size: Option<usize>,
    pub outp: Option<usize>,
    pub fill: bool,
    pub labelalign: Option<usize>,
}

#[derive(Clone, Debug, PartialEq, Eq, Hash)]
pub enum Item {
    Instr(String),
    /// label with its leading dots, e.g. `A`, `.l`, `..m`
    Label(String),
    /// constant `name = expr` (name with leading dots)
    Const(String, String),
    Data(Option<usize>, Vec<String>),
    Res(String),
    Align(String),
    Addr(String),
    Bank(String),
    /// define a bank here (switches to it)
    Bankdef(BankSrc),
}

#[derive(Clone, Debug, PartialEq, Eq, Hash, Default)]
pub struct Prog {
    pub ruledefs: Vec<RuleDefSrc>,
    pub items: Vec<Item>,
}

impl BankSrc {
    pub fn render(&self) -> String {
        let mut f = vec![];
        if let Some(b) = self.bits {
            f.push(format!("bits = {}", b));
        }
        if let Some(a) = self.addr {
            f.push(format!("addr = {}", a));
        }
        if let Some(s) = self.size {
            f.push(format!("size = {}", s));
        }
        if let Some(o) = self.outp {
            f.push(format!("outp = {}", o));
        }
        if self.fill {
            f.push("fill".to_string());
        }
        if let Some(l) = self.labelalign {
            f.push(format!("labelalign = {}", l));
        }
        format!("#bankdef {} {{ {} }}\n", self.name, f.join(", "))
    }
}

impl Item {
    pub fn render(&self) -> String {
        match self {
            Item::Instr(s) => format!("{}\n", s),
            Item::Label(n) => format!("{}:\n", n),
            Item::Const(n, e) => format!("{} = {}\n", n, e),
            Item::Data(w, es) => format!("#d{} {}\n", w.map(|w| w.to_string()).unwrap_or_default(), es.join(", ")),
            Item::Res(e) => format!("#res {}\n", e),
            Item::Align(e) => format!("#align {}\n", e),
            Item::Addr(e) => format!("#addr {}\n", e),
            Item::Bank(n) => format!("#bank {}\n", n),
            Item::Bankdef(b) => b.render(),
        }
    }
}

impl RuleDefSrc {
    pub fn render(&self) -> String {
        let mut s = String::new();
        s += if self.sub { "#subruledef" } else { "#ruledef" };
        if let Some(n) = &self.name {
            s += " ";
            s += n;
        }
        s += "\n{\n";
        for r in &self.rules {
            s += &format!("    {} => {}\n", r.pattern, r.prod);
        }
        s += "}\n";
        s
    }
}

impl Prog {
    pub fn render(&self) -> String {
        let mut s = String::new();
        for r in &self.ruledefs {
            s += &r.render();
        }
        for i in &self.items {
            s += &i.render();
        }
        s
    }
}

// ------------------------------------------------------------------------------------------
// rules

#[derive(Clone, Debug, PartialEq)]
pub enum PPart {
    Exact(char),
    Ws,
    Param(usize),
}

#[derive(Clone, Debug, PartialEq)]
pub enum PTy {
    Untyped,
    Int(char, usize),
    Sub(String),
}

#[derive(Clone, Debug)]
pub struct RRule {
    pub parts: Vec<PPart>,
    pub params: Vec<(String, PTy)>,
    pub prod: Result<E, PErr>,
    pub exact: usize,
}

#[derive(Clone, Debug)]
pub struct RDef {
    pub name: Option<String>,
    pub sub: bool,
    pub rules: Vec<RRule>,
}

fn parse_type(t: &str) -> PTy {
    let c = t.chars().next().unwrap_or(' ');
    if c == 'u' || c == 's' || c == 'i' {
        if let Ok(n) = t[1..].parse::<usize>() {
            return PTy::Int(c, n);
        }
    }
    PTy::Sub(t.to_string())
}

pub fn parse_rule(src: &RuleSrc) -> Result<RRule, String> {
    let toks = refparse::tokenize(src.pattern.trim());
    let mut parts = vec![];
    let mut params: Vec<(String, PTy)> = vec![];
    let mut i = 0;
    while i < toks.len() {
        match &toks[i].tk {
            Tk::Ws => parts.push(PPart::Ws),
            Tk::P("{") => {
                // {name} or {name: type}
                let mut j = i + 1;
                let mut words = vec![];
                while j < toks.len() && toks[j].tk != Tk::P("}") {
                    match &toks[j].tk {
                        Tk::Ident(s) => words.push(s.clone()),
                        Tk::Num(s) => words.push(s.clone()),
                        Tk::Ws | Tk::P(":") => {}
                        _ => return Err("bad parameter".into()),
                    }
                    j += 1;
                }
                if j >= toks.len() || words.is_empty() || words.len() > 2 {
                    return Err("bad parameter".into());
                }
                let ty = if words.len() == 2 { parse_type(&words[1]) } else { PTy::Untyped };
                parts.push(PPart::Param(params.len()));
                params.push((words[0].clone(), ty));
                i = j;
            }
            Tk::Comment | Tk::Bad | Tk::Str(_) => return Err("unsupported pattern token".into()),
            _ => {
                for c in src.pattern.trim()[toks[i].start..toks[i].end].chars() {
                    parts.push(PPart::Exact(c.to_ascii_lowercase()));
                }
            }
        }
        i += 1;
    }
    let exact = parts.iter().filter(|p| matches!(p, PPart::Exact(_))).count();
    let prod = refparse::parse_all(&src.prod);
    Ok(RRule { parts, params, prod, exact })
}

// ------------------------------------------------------------------------------------------
// matching

#[derive(Clone, Debug, PartialEq)]
pub enum Arg {
    Expr { e: E, start: usize, end: usize },
    Nested { def: usize, rule: usize, args: Vec<Arg>, start: usize, end: usize },
}

#[derive(Clone, Debug, PartialEq)]
pub struct Match {
    pub def: usize,
    pub rule: usize,
    pub args: Vec<Arg>,
    /// byte offsets (in the trimmed line) of the characters matched by literal pattern parts
    pub exact_pos: Vec<usize>,
}

pub struct Matcher<'a> {
    pub defs: &'a [RDef],
    pub unmodelled: Option<&'static str>,
    /// a complete match was found in which blanks separate two characters that are adjacent
    /// literals in the pattern (`h a l t` for `halt`, `inc (hl)` for `inc(hl)`): the repository's
    /// own tests expect "no match" for the first and the two matcher modes disagree, so such
    /// lines are outside this model's defined domain (C07/C08 deal with them differentially)
    pub lax_match_seen: bool,
}

fn next_useful(s: &str, pos: usize, limit: usize) -> usize {
    // start of the first non-blank, non-comment token at or after pos (== limit when none)
    let toks = refparse::tokenize(&s[pos..limit]);
    for t in &toks {
        if !matches!(t.tk, Tk::Ws | Tk::Comment) {
            return pos + t.start;
        }
    }
    limit
}

fn find_cut(s: &str, pos: usize, limit: usize, wanted: char) -> Option<usize> {
    let mut seen = false;
    let (mut paren, mut brace) = (0i32, 0i32);
    for (off, c) in s[pos..limit].char_indices() {
        if c.eq_ignore_ascii_case(&wanted) && seen && paren == 0 && brace == 0 {
            return Some(pos + off);
        } else if c == '(' {
            paren += 1;
        } else if c == ')' {
            if paren == 0 {
                break;
            }
            paren -= 1;
        } else if c == '{' {
            brace += 1;
        } else if c == '}' {
            if brace == 0 {
                break;
            }
            brace -= 1;
        }
        if !(c == ' ' || c == '\t' || c == '\r') {
            seen = true;
        }
    }
    None
}

fn next_exact(parts: &[PPart], at: usize) -> Option<char> {
    let mut i = at + 1;
    while i < parts.len() {
        match parts[i] {
            PPart::Ws => i += 1,
            PPart::Exact(c) => return Some(c),
            PPart::Param(_) => return None,
        }
    }
    None
}

impl<'a> Matcher<'a> {
    fn sub_index(&self, name: &str) -> Option<usize> {
        self.defs.iter().position(|d| d.name.as_deref() == Some(name))
    }

    /// all ways `rule` matches s[pos..limit] from pattern part `at`; returns (args, end position)
    fn match_from(&mut self, def: usize, rule: usize, at: usize, s: &str, pos: usize, limit: usize, consume_all: bool, args: Vec<Arg>, ex: Vec<usize>) -> Vec<(Vec<Arg>, usize, Vec<usize>)> {
        let mut ex = ex;
        let r = &self.defs[def].rules[rule];
        let mut pos = pos;
        let mut lax = false;
        for idx in at..r.parts.len() {
            match &r.parts[idx] {
                PPart::Exact(c) => {
                    let u = next_useful(s, pos, limit);
                    if u >= limit {
                        return vec![];
                    }
                    if u > pos && idx > 0 && matches!(r.parts[idx - 1], PPart::Exact(_)) {
                        lax = true;
                    }
                    let ch = s[u..limit].chars().next().unwrap();
                    if !ch.eq_ignore_ascii_case(c) {
                        return vec![];
                    }
                    ex.push(u);
                    pos = u + ch.len_utf8();
                }
                PPart::Ws => {
                    if pos < limit {
                        let ch = s[pos..limit].chars().next().unwrap();
                        if !(ch == ' ' || ch == '\t' || ch == '\r') {
                            return vec![];
                        }
                    }
                }
                PPart::Param(pi) => {
                    let ty = r.params[*pi].1.clone();
                    let la = next_exact(&r.parts, idx);
                    let mut out = vec![];
                    for lookahead in [false, true] {
                        let region = if lookahead {
                            let Some(c) = la else { continue };
                            let Some(cut) = find_cut(s, pos, limit, c) else { continue };
                            cut
                        } else {
                            limit
                        };
                        let start = next_useful(s, pos, region);
                        match &ty {
                            PTy::Untyped | PTy::Int(..) => {
                                let toks = refparse::tokenize(&s[pos..region]);
                                let mut p = Parser::new(&toks, 0);
                                match p.expr() {
                                    Ok(e) => {
                                        let end = pos + p.end_offset();
                                        let mut a = args.clone();
                                        a.push(Arg::Expr { e, start: start.min(end), end });
                                        let sub = self.match_from(def, rule, idx + 1, s, end, limit, consume_all, a, ex.clone());
                                        if lax && !sub.is_empty() {
                                            self.lax_match_seen = true;
                                        }
                                        out.extend(sub);
                                    }
                                    Err(PErr::Fail) => {}
                                    Err(PErr::Unmodelled(w)) => self.unmodelled = Some(w),
                                }
                            }
                            PTy::Sub(name) => {
                                let Some(sd) = self.sub_index(name) else {
                                    self.unmodelled = Some("unknown sub-ruledef");
                                    continue;
                                };
                                for sr in 0..self.defs[sd].rules.len() {
                                    let nested = self.match_from(sd, sr, 0, s, pos, region, false, vec![], vec![]);
                                    for (nargs, nend, nex) in nested {
                                        let mut ex2 = ex.clone();
                                        ex2.extend(nex);
                                        let mut a = args.clone();
                                        a.push(Arg::Nested { def: sd, rule: sr, args: nargs, start: start.min(nend), end: nend });
                                        let sub = self.match_from(def, rule, idx + 1, s, nend, limit, consume_all, a, ex2);
                                        if lax && !sub.is_empty() {
                                            self.lax_match_seen = true;
                                        }
                                        out.extend(sub);
                                    }
                                }
                            }
                        }
                    }
                    return out;
                }
            }
        }
        if consume_all && pos < limit {
            return vec![];
        }
        if lax {
            self.lax_match_seen = true;
        }
        vec![(args, pos, ex)]
    }

    fn exact_count(&self, m_def: usize, m_rule: usize, args: &[Arg]) -> usize {
        let mut n = self.defs[m_def].rules[m_rule].exact;
        for a in args {
            if let Arg::Nested { def, rule, args, .. } = a {
                n += self.exact_count(*def, *rule, args);
            }
        }
        n
    }

    /// surviving matches of an instruction line: deduplicated, maximal literal-character count
    pub fn match_line(&mut self, line: &str) -> Vec<Match> {
        let line = line.trim();
        let mut all: Vec<Match> = vec![];
        for d in 0..self.defs.len() {
            if self.defs[d].sub {
                continue;
            }
            for r in 0..self.defs[d].rules.len() {
                for (args, _, ex) in self.match_from(d, r, 0, line, 0, line.len(), true, vec![], vec![]) {
                    let m = Match { def: d, rule: r, args, exact_pos: ex };
                    if !all.iter().any(|x| same_match(x, &m)) {
                        all.push(m);
                    }
                }
            }
        }
        let max = all.iter().map(|m| self.exact_count(m.def, m.rule, &m.args)).max().unwrap_or(0);
        all.into_iter().filter(|m| self.exact_count(m.def, m.rule, &m.args) == max).collect()
    }
}

fn same_args(a: &[Arg], b: &[Arg]) -> bool {
    a.len() == b.len()
        && a.iter().zip(b).all(|(x, y)| match (x, y) {
            (Arg::Expr { start: s1, end: e1, .. }, Arg::Expr { start: s2, end: e2, .. }) => s1 == s2 && e1 == e2,
            (Arg::Nested { def: d1, rule: r1, args: a1, start: s1, end: e1 }, Arg::Nested { def: d2, rule: r2, args: a2, start: s2, end: e2 }) => s1 == s2 && e1 == e2 && d1 == d2 && r1 == r2 && same_args(a1, a2),
            _ => false,
        })
}
fn same_match(a: &Match, b: &Match) -> bool {
    a.def == b.def && a.rule == b.rule && same_args(&a.args, &b.args)
}

// ------------------------------------------------------------------------------------------
// symbols

#[derive(Clone, Debug)]
pub enum SymKind {
    Label,
    Const(E),
}

#[derive(Clone, Debug)]
pub struct Sym {
    pub path: Vec<String>,
    pub kind: SymKind,
    /// scope in which the constant's expression is evaluated
    pub ctx: Vec<String>,
    pub item: usize,
}

pub fn split_name(n: &str) -> (usize, Vec<String>) {
    let level = n.chars().take_while(|c| *c == '.').count();
    (level, n[level..].split('.').map(|s| s.to_string()).collect())
}

// ------------------------------------------------------------------------------------------
// assembling

#[derive(Clone, Debug)]
pub struct Bank {
    pub name: String,
    pub bits: usize,
    pub addr: Z,
    pub size: Option<usize>, // in bits
    pub outp: Option<usize>,
    pub fill: bool,
    pub labelalign: Option<usize>,
    pub cursor: usize,
}

#[derive(Clone, Debug)]
pub struct Placement {
    pub item: usize,
    pub sub: usize,
    pub bank: usize,
    pub pos: usize,
    pub size: usize,
    pub written: bool,
}

#[derive(Clone, Debug)]
pub struct RefOk {
    pub bits: String,
    /// integer-valued symbols, hierarchical name -> value, in declaration order
    pub symbols: Vec<(String, Z)>,
    pub placements: Vec<Placement>,
    pub banks: Vec<Bank>,
    /// for each instruction item: (def, rule) chosen
    pub chosen: Vec<(usize, usize, usize)>,
}

#[derive(Clone, Debug)]
pub enum RefOut {
    Ok(RefOk),
    Error(String),
    Unspec(String),
}

enum Stop {
    Error(String),
    Unspec(String),
}
type R<T> = Result<T, Stop>;

fn err<T>(s: &str) -> R<T> {
    Err(Stop::Error(s.to_string()))
}
fn unspec<T>(s: &str) -> R<T> {
    Err(Stop::Unspec(s.to_string()))
}

pub struct Asm<'a> {
    pub prog: &'a Prog,
    pub defs: Vec<RDef>,
    pub syms: Vec<Sym>,
    pub by_path: HashMap<Vec<String>, usize>,
    /// scope (hierarchy) in force at each item
    pub ctx_at: Vec<Vec<String>>,
    pub label_val: HashMap<usize, Z>,
    const_val: HashMap<usize, RVal>,
    const_busy: Vec<usize>,
    /// when false, labels and `$` are not available yet (phase 1)
    addresses_known: bool,
    /// label values assumed while the layout is computed (fixed-point iteration / certificate); they are checked
    /// against the addresses the layout really yields before anything is concluded from them
    label_guess: Option<HashMap<usize, Z>>,
    /// address of the position at which each constant is declared (`$` inside its expression), known after layout
    const_here: HashMap<usize, Z>,
}

fn collect_vars(e: &E, out: &mut Vec<String>) {
    match e {
        E::Var(n) => {
            if !out.contains(n) {
                out.push(n.clone())
            }
        }
        E::Num(_) | E::Bool(_) | E::Str(_) => {}
        E::Un(_, a) => collect_vars(a, out),
        E::Bin(_, a, b) | E::Short(a, b) => {
            collect_vars(a, out);
            collect_vars(b, out)
        }
        E::Tern(a, b, c) | E::Slice(a, b, c) => {
            collect_vars(a, out);
            collect_vars(b, out);
            collect_vars(c, out)
        }
        E::Call(_, args) | E::Block(args) => {
            for a in args {
                collect_vars(a, out)
            }
        }
    }
}

const BUILTINS: [&str; 10] = ["assert", "le", "sizeof", "strlen", "utf8", "ascii", "utf16be", "utf16le", "utf32be", "utf32le"];

impl<'a> Asm<'a> {
    fn lookup(&self, ctx: &[String], name: &str) -> Option<usize> {
        let (level, path) = split_name(name);
        if level > ctx.len() {
            return None;
        }
        let mut full: Vec<String> = ctx[0..level].to_vec();
        full.extend(path);
        self.by_path.get(&full).copied()
    }

    /// evaluate expression `e` in scope `ctx` with `$` = here (if known)
    fn eval_in(&mut self, e: &E, ctx: &[String], here: Option<&R<Z>>, locals: &Env) -> R<RVal> {
        let mut vars = vec![];
        collect_vars(e, &mut vars);
        let mut env = locals.clone();
        for v in vars {
            if env.get(&v).is_some() {
                continue;
            }
            if v == "$" || v == "pc" {
                match here {
                    Some(Ok(z)) => env.set(&v, RVal::Int(z.clone(), None)),
                    Some(Err(Stop::Error(s))) => return Err(Stop::Error(s.clone())),
                    Some(Err(Stop::Unspec(s))) => return Err(Stop::Unspec(s.clone())),
                    None => return unspec("address-dependent"),
                }
                continue;
            }
            if BUILTINS.contains(&v.as_str()) {
                continue;
            }
            let Some(si) = self.lookup(ctx, &v) else { return err("undefined symbol") };
            let val = self.sym_value(si)?;
            env.set(&v, val);
        }
        match eval(e, &env) {
            Ok(v) => Ok(v),
            Err(RErr::Error(s)) => Err(Stop::Error(s.to_string())),
            Err(RErr::Unspec(s)) => Err(Stop::Unspec(s.to_string())),
            Err(RErr::Constraint) => Err(Stop::Error("assertion failed".to_string())),
        }
    }

    fn sym_value(&mut self, si: usize) -> R<RVal> {
        match self.syms[si].kind.clone() {
            SymKind::Label => {
                if !self.addresses_known {
                    if let Some(g) = &self.label_guess {
                        return match g.get(&si) {
                            Some(z) => Ok(RVal::Int(z.clone(), None)),
                            None => unspec("label without an assumed address"),
                        };
                    }
                    return unspec("address-dependent");
                }
                match self.label_val.get(&si) {
                    Some(z) => Ok(RVal::Int(z.clone(), None)),
                    None => unspec("label without address"),
                }
            }
            SymKind::Const(e) => {
                if let Some(v) = self.const_val.get(&si) {
                    return Ok(v.clone());
                }
                if self.const_busy.contains(&si) {
                    return err("cyclic constant definition");
                }
                self.const_busy.push(si);
                let ctx = self.syms[si].ctx.clone();
                // `$` inside a constant: the address of the position at which the constant is declared
                let here: Option<R<Z>> = if self.addresses_known { self.const_here.get(&si).map(|z| Ok(z.clone())) } else { None };
                let r = self.eval_in(&e, &ctx, here.as_ref(), &Env::new());
                self.const_busy.pop();
                let v = r?;
                if self.addresses_known {
                    self.const_val.insert(si, v.clone());
                }
                Ok(v)
            }
        }
    }
}

/// the C04 predicate
pub fn type_accepts(t: char, n: usize, v: &Z) -> bool {
    let two_v = v * 2;
    let half = pow2(n);
    match t {
        'u' => *v >= Z::from(0) && *v < pow2(n),
        's' => two_v >= -half.clone() && two_v < half,
        _ => two_v >= -half && *v < pow2(n),
    }
}

enum Cand {
    Value(Z, usize),
    Discarded,
}

impl<'a> Asm<'a> {
    /// evaluate one match: Ok(Value) / Ok(Discarded) (constraint) / Err
    fn eval_match(&mut self, def: usize, rule: usize, args: &[Arg], ctx: &[String], here: Option<&R<Z>>, placeholder: bool) -> R<Cand> {
        let r = self.defs[def].rules[rule].clone();
        let mut env = Env::new();
        env.placeholder = placeholder;
        for (i, a) in args.iter().enumerate() {
            let (pname, pty) = &r.params[i];
            match a {
                Arg::Expr { e, .. } => {
                    let v = if placeholder {
                        match pty {
                            PTy::Int(_, n) => RVal::Int(Z::from(0), Some(*n)),
                            _ => RVal::Int(Z::from(0), None),
                        }
                    } else {
                        let v = self.eval_in(e, ctx, here, &Env::new())?;
                        match pty {
                            PTy::Int(t, n) => {
                                let z = match &v {
                                    RVal::Int(z, _) => z.clone(),
                                    RVal::Str(..) => return unspec("string passed to a typed parameter"),
                                    _ => return err("typed parameter needs an integer"),
                                };
                                if *n == 0 {
                                    return unspec("zero-width type");
                                }
                                if !type_accepts(*t, *n, &z) {
                                    return Ok(Cand::Discarded);
                                }
                                RVal::Int(z, Some(*n))
                            }
                            _ => match &v {
                                RVal::Int(..) => v,
                                RVal::Str(..) => return unspec("string passed to a parameter"),
                                _ => return err("parameter needs an integer"),
                            },
                        }
                    };
                    env.set(pname, v);
                }
                Arg::Nested { def: d2, rule: r2, args: a2, .. } => match self.eval_match(*d2, *r2, a2, ctx, here, placeholder)? {
                    Cand::Discarded => return Ok(Cand::Discarded),
                    Cand::Value(z, s) => env.set(pname, RVal::Int(z, Some(s))),
                },
            }
        }
        let prod = match &r.prod {
            Ok(e) => e.clone(),
            Err(_) => return unspec("production outside the modelled expression language"),
        };
        // production may use `$` and global symbols
        let mut vars = vec![];
        collect_vars(&prod, &mut vars);
        for v in vars {
            if env.get(&v).is_some() || BUILTINS.contains(&v.as_str()) {
                continue;
            }
            if v == "$" || v == "pc" {
                if placeholder {
                    env.set(&v, RVal::Int(Z::from(0), None));
                    continue;
                }
                match here {
                    Some(Ok(z)) => env.set(&v, RVal::Int(z.clone(), None)),
                    Some(Err(Stop::Error(s))) => return Err(Stop::Error(s.clone())),
                    Some(Err(Stop::Unspec(s))) => return Err(Stop::Unspec(s.clone())),
                    None => return unspec("address-dependent"),
                }
                continue;
            }
            if placeholder {
                env.set(&v, RVal::Int(Z::from(0), None));
                continue;
            }
            // global symbol referenced from a production: resolved in the global scope
            let Some(si) = self.lookup(&[], &v) else { return err("undefined symbol in production") };
            let val = self.sym_value(si)?;
            env.set(&v, val);
        }
        match eval(&prod, &env) {
            Ok(RVal::Int(z, Some(s))) => Ok(Cand::Value(z, s)),
            Ok(RVal::Int(_, None)) => err("production has no definite size"),
            Ok(RVal::Str(..)) => unspec("string production"),
            Ok(_) => err("production is not an integer"),
            Err(RErr::Constraint) => Ok(Cand::Discarded),
            Err(RErr::Error(s)) => Err(Stop::Error(s.to_string())),
            Err(RErr::Unspec(s)) => Err(Stop::Unspec(s.to_string())),
        }
    }

    /// choose the encoding of an instruction: unique smallest among the non-discarded survivors
    fn choose(&mut self, matches: &[Match], ctx: &[String], here: Option<&R<Z>>) -> R<(usize, Z, usize)> {
        if matches.is_empty() {
            return err("no match");
        }
        let mut vals: Vec<(usize, Z, usize)> = vec![];
        for (i, m) in matches.iter().enumerate() {
            match self.eval_match(m.def, m.rule, &m.args, ctx, here, false)? {
                Cand::Value(z, s) => vals.push((i, z, s)),
                Cand::Discarded => {}
            }
        }
        if vals.is_empty() {
            return err("all candidates discarded");
        }
        let min = vals.iter().map(|v| v.2).min().unwrap();
        let smallest: Vec<_> = vals.into_iter().filter(|v| v.2 == min).collect();
        if smallest.len() > 1 {
            return err("several equally small candidates");
        }
        Ok(smallest.into_iter().next().unwrap())
    }

    fn static_size(&mut self, matches: &[Match], ctx: &[String]) -> R<usize> {
        // assumed label values must not leak into the notion of a *static* size
        let saved = self.label_guess.take();
        let r = self.static_size_inner(matches, ctx);
        self.label_guess = saved;
        r
    }

    fn static_size_inner(&mut self, matches: &[Match], ctx: &[String]) -> R<usize> {
        // address-independent: evaluate exactly
        self.addresses_known = false;
        let exact = self.choose(matches, ctx, None);
        match exact {
            Ok((_, _, s)) => return Ok(s),
            Err(Stop::Error(e)) => {
                // a definite error that does not depend on addresses will recur in phase 3; any size works
                let _ = e;
            }
            Err(Stop::Unspec(_)) => {}
        }
        // address-dependent: all survivors must have one static size
        let mut size: Option<usize> = None;
        if matches.is_empty() {
            return err("no match");
        }
        for m in matches {
            match self.eval_match(m.def, m.rule, &m.args, ctx, None, true) {
                Ok(Cand::Value(_, s)) => {
                    if size.is_some() && size != Some(s) {
                        return unspec("value-dependent instruction size");
                    }
                    size = Some(s);
                }
                Ok(Cand::Discarded) => return unspec("placeholder discarded"),
                Err(Stop::Error(_)) => return unspec("size not statically determinable"),
                Err(Stop::Unspec(s)) => return Err(Stop::Unspec(s)),
            }
        }
        Ok(size.unwrap())
    }
}

fn bank_from(b: &BankSrc) -> R<Bank> {
    let bits = b.bits.unwrap_or(8);
    if bits == 0 {
        return unspec("bank with zero-bit address unit (C19)");
    }
    Ok(Bank {
        name: b.name.clone(),
        bits,
        addr: Z::from(b.addr.unwrap_or(0)),
        size: b.size.map(|s| s * bits),
        outp: b.outp,
        fill: b.fill,
        labelalign: b.labelalign,
        cursor: 0,
    })
}

fn to_usize_z(z: &Z) -> Option<usize> {
    usize::try_from(z).ok()
}

pub fn assemble(prog: &Prog) -> RefOut {
    assemble_fixpoint(prog)
}

/// `claimed`: sizes (bits) of the instruction items, in program order, as some assembler run
/// claims them. Then nothing is predicted: the layout is derived from those sizes and every
/// instruction must re-select exactly that size as its unique smallest encoding (DESIGN §3.5).
pub fn assemble_with(prog: &Prog, claimed: Option<&[usize]>) -> RefOut {
    match assemble_inner(prog, claimed, None) {
        Ok(ok) => RefOut::Ok(ok),
        Err(Stop::Error(s)) => RefOut::Error(s),
        Err(Stop::Unspec(s)) => RefOut::Unspec(s),
    }
}

/// Certificate with claimed label values: the layout directives (`#res`, `#align`, `#addr`, unsized data) are
/// evaluated at the claimed label values; the layout that results must give every label exactly its claimed value
/// (otherwise Error), and then everything is re-derived as in `assemble_with`.
pub fn assemble_certified(prog: &Prog, claimed_sizes: Option<&[usize]>, claimed_labels: &HashMap<String, Z>) -> RefOut {
    match assemble_inner(prog, claimed_sizes, Some((claimed_labels, true))) {
        Ok(ok) => RefOut::Ok(ok),
        Err(Stop::Error(s)) => RefOut::Error(s),
        Err(Stop::Unspec(s)) => RefOut::Unspec(s),
    }
}

/// Like `assemble`, but a layout directive (`#res`, `#align`, `#addr`) may depend on labels.
/// 1. The layout is iterated (directives that cannot be evaluated or fail under the merely assumed label values are
///    skipped in that round) from two starting assumptions — no label has a value / every label = 0xfff0 — until the
///    assumed label values reproduce themselves; both must arrive at the same labels.
/// 2. Uniqueness: a static dependency analysis (`layout_dependency_cycle`). A directive D *affects* every label declared
///    after it in the same bank up to the next `#addr` with a literal operand; D *depends on* the labels its operand
///    mentions (through constants, `$` = the position just before the directive). If the relation "D depends on a label
///    that D' affects" has a cycle (in particular `#addr L - 4` with `L` right behind it, or `#align (B - A) * 8` in
///    front of A and B), the program may have several self-consistent layouts and gets no verdict. Without a cycle the
///    directive values are determined one after the other, the layout is unique, and any iterative resolver reaches it.
/// Anything else (no convergence, disagreement, unsized data that depends on labels) is Unspecified as well.
pub fn assemble_fixpoint(prog: &Prog) -> RefOut {
    let first = assemble_with(prog, None);
    match &first {
        RefOut::Unspec(w) if w == "layout directive depends on an address" => {}
        _ => return first,
    }
    let label_names = match label_names(prog) {
        Ok(n) => n,
        Err(_) => return first,
    };
    // iterate to a fixed point; returns (labels, result, directive values) or a reason
    let iterate = |start: Option<i64>, force: Option<(usize, Z)>| -> Result<(HashMap<String, Z>, Result<RefOk, String>, HashMap<usize, Z>), String> {
        let mut guess: HashMap<String, Z> = match start {
            None => HashMap::new(),
            Some(v) => label_names.iter().map(|n| (n.clone(), Z::from(v))).collect(),
        };
        for _round in 0..12 {
            let mut io = IterOut { force: force.clone(), ..Default::default() };
            let r = assemble_inner2(prog, None, Some((&guess, false)), &mut io);
            let Some(got) = io.labels else { return Err("no layout under an assumed labelling".into()) };
            if got == guess {
                if io.tolerated {
                    return Err("a layout directive keeps failing at the layout the iteration settles on".into());
                }
                return match r {
                    Ok(ok) => Ok((guess, Ok(ok), io.dir_vals)),
                    Err(Stop::Error(e)) => Ok((guess, Err(e), io.dir_vals)),
                    Err(Stop::Unspec(w)) => Err(w),
                };
            }
            guess = got;
        }
        Err("no self-consistent layout within 12 rounds".into())
    };
    let (l1, r1, vals) = match iterate(None, None) {
        Ok(x) => x,
        Err(w) => return RefOut::Unspec(format!("label-dependent layout: {}", w)),
    };
    let (l2, r2, _) = match iterate(Some(0xfff0), None) {
        Ok(x) => x,
        Err(w) => return RefOut::Unspec(format!("label-dependent layout: {}", w)),
    };
    if l1 != l2 {
        return RefOut::Unspec("label-dependent layout: more than one self-consistent layout".into());
    }
    let _ = vals;
    // the solution must be unique: no layout directive may depend, directly or through other directives, on a label
    // whose address its own effect shifts (static dependency analysis, conservative)
    if let Some(why) = layout_dependency_cycle(prog) {
        return RefOut::Unspec(format!("label-dependent layout: {}", why));
    }
    match (r1, r2) {
        (Ok(a), Ok(b)) if a.bits == b.bits && a.symbols == b.symbols => RefOut::Ok(a),
        (Err(e), Err(_)) => RefOut::Error(e),
        _ => RefOut::Unspec("label-dependent layout: the two iterations disagree".into()),
    }
}


/// Some(reason) when a label-dependent layout directive may depend on its own effect (see `assemble_fixpoint`).
fn layout_dependency_cycle(prog: &Prog) -> Option<String> {
    // bank of every item
    let mut bank_of: Vec<String> = vec![];
    let mut cur = String::new();
    for it in &prog.items {
        match it {
            Item::Bankdef(b) => cur = b.name.clone(),
            Item::Bank(n) => cur = n.clone(),
            _ => {}
        }
        bank_of.push(cur.clone());
    }
    let last_seg = |n: &str| n.trim_start_matches('.').rsplit('.').next().unwrap_or("").to_string();
    let labels: Vec<(String, usize)> = prog.items.iter().enumerate().filter_map(|(i, it)| if let Item::Label(n) = it { Some((last_seg(n), i)) } else { None }).collect();
    let consts: Vec<(String, String, usize)> = prog.items.iter().enumerate().filter_map(|(i, it)| if let Item::Const(n, e) = it { Some((last_seg(n), e.clone(), i)) } else { None }).collect();
    // positions (item indices) an expression at item `at` depends on: labels by their item index, `$` by `at` itself
    fn deps(text: &str, at: usize, labels: &[(String, usize)], consts: &[(String, String, usize)], seen: &mut Vec<usize>, out: &mut Vec<usize>) -> bool {
        let Ok(e) = refparse::parse_all(text) else { return false };
        let mut vars = vec![];
        collect_vars(&e, &mut vars);
        for v in vars {
            if v == "$" || v == "pc" {
                out.push(at);
                continue;
            }
            for seg in v.trim_start_matches('.').split('.') {
                for (n, i) in labels {
                    if n == seg {
                        out.push(*i);
                    }
                }
                for (n, t, i) in consts {
                    if n == seg && !seen.contains(i) {
                        seen.push(*i);
                        if !deps(t, *i, labels, consts, seen, out) {
                            return false;
                        }
                    }
                }
            }
        }
        true
    }
    let literal_addr = |i: usize| -> bool {
        if let Item::Addr(t) = &prog.items[i] {
            if let Ok(e) = refparse::parse_all(t) {
                let mut vs = vec![];
                collect_vars(&e, &mut vs);
                return vs.is_empty();
            }
        }
        false
    };
    // directives with a non-literal operand
    let dirs: Vec<usize> = prog
        .items
        .iter()
        .enumerate()
        .filter(|(i, it)| matches!(it, Item::Res(_) | Item::Align(_) | Item::Addr(_)) && !literal_addr(*i) && {
            let t = match it {
                Item::Res(t) | Item::Align(t) | Item::Addr(t) => t,
                _ => unreachable!(),
            };
            refparse::parse_all(t).map(|e| { let mut vs = vec![]; collect_vars(&e, &mut vs); !vs.is_empty() }).unwrap_or(true)
        })
        .map(|(i, _)| i)
        .collect();
    // does directive d shift the position of item x?
    let affects = |d: usize, x: usize| -> bool { x > d && bank_of[x] == bank_of[d] && !(d + 1..x).any(|k| bank_of[k] == bank_of[d] && literal_addr(k)) };
    let mut edges: Vec<Vec<usize>> = vec![vec![]; dirs.len()];
    for (a, d) in dirs.iter().enumerate() {
        let t = match &prog.items[*d] {
            Item::Res(t) | Item::Align(t) | Item::Addr(t) => t.clone(),
            _ => unreachable!(),
        };
        let mut out = vec![];
        if !deps(&t, *d, &labels, &consts, &mut vec![], &mut out) {
            return Some("a layout directive's operand cannot be analysed".into());
        }
        for (b, d2) in dirs.iter().enumerate() {
            // `$` at the directive itself (x == d) is the position before the directive: not shifted by it
            if out.iter().any(|x| affects(*d2, *x)) {
                edges[a].push(b);
            }
        }
    }
    // cycle detection (self loops included)
    fn reach(from: usize, to: usize, edges: &[Vec<usize>], seen: &mut Vec<bool>) -> bool {
        for n in &edges[from] {
            if *n == to {
                return true;
            }
            if !seen[*n] {
                seen[*n] = true;
                if reach(*n, to, edges, seen) {
                    return true;
                }
            }
        }
        false
    }
    for a in 0..dirs.len() {
        if reach(a, a, &edges, &mut vec![false; dirs.len()]) {
            return Some("a layout directive depends on a label that its own effect shifts (directly or through other directives)".into());
        }
    }
    None
}

/// full names of the labels of a program (declaration pass only)
fn label_names(prog: &Prog) -> R<Vec<String>> {
    let mut names = vec![];
    let mut ctx: Vec<String> = vec![];
    for it in &prog.items {
        if let Item::Label(n) = it {
            let level = n.chars().take_while(|c| *c == '.').count();
            let base = n.trim_start_matches('.').to_string();
            if level > ctx.len() {
                return err("label skips a nesting level");
            }
            ctx.truncate(level);
            ctx.push(base);
            names.push(ctx.join("."));
        } else if let Item::Const(n, _) = it {
            let level = n.chars().take_while(|c| *c == '.').count();
            if level > ctx.len() {
                return err("constant skips a nesting level");
            }
            ctx.truncate(level);
            ctx.push(n.trim_start_matches('.').to_string());
        }
    }
    Ok(names)
}

fn assemble_inner(prog: &Prog, claimed: Option<&[usize]>, guess: Option<(&HashMap<String, Z>, bool)>) -> R<RefOk> {
    let mut scratch = IterOut::default();
    assemble_inner2(prog, claimed, guess, &mut scratch)
}

/// what one round of the fixed-point iteration reports besides its result
#[derive(Default)]
struct IterOut {
    /// label values the layout of this round yields (set as soon as the layout is complete)
    labels: Option<HashMap<String, Z>>,
    /// some layout directive failed under the merely assumed label values and was skipped in this round
    tolerated: bool,
    /// value every layout directive evaluated to in this round (item index -> value), before any forcing
    dir_vals: HashMap<usize, Z>,
    /// in: replace the value of the directive at this item index (perturbation test)
    force: Option<(usize, Z)>,
}

fn assemble_inner2(prog: &Prog, claimed: Option<&[usize]>, guess: Option<(&HashMap<String, Z>, bool)>, iter_out: &mut IterOut) -> R<RefOk> {
    let tolerant = matches!(guess, Some((_, false)));
    // rules
    let mut defs = vec![];
    for d in &prog.ruledefs {
        let mut rules = vec![];
        for r in &d.rules {
            match parse_rule(r) {
                Ok(rr) => rules.push(rr),
                Err(e) => return unspec(&format!("rule pattern: {}", e)),
            }
        }
        defs.push(RDef { name: d.name.clone(), sub: d.sub, rules });
    }
    for (i, d) in defs.iter().enumerate() {
        if let Some(n) = &d.name {
            if defs[..i].iter().any(|o| o.name.as_ref() == Some(n)) {
                return err("duplicate rule block name");
            }
        }
        for r in &d.rules {
            for (_, ty) in &r.params {
                if let PTy::Sub(t) = ty {
                    if !defs.iter().any(|o| o.name.as_ref() == Some(t)) {
                        return err("unknown rule block used as a parameter type");
                    }
                }
            }
        }
    }
    let mut a = Asm { prog, defs, syms: vec![], by_path: HashMap::new(), ctx_at: vec![], label_val: HashMap::new(), const_val: HashMap::new(), const_busy: vec![], addresses_known: false, label_guess: None, const_here: HashMap::new() };

    // declarations and scopes
    let mut ctx: Vec<String> = vec![];
    let mut bank_names: Vec<String> = vec![];
    for (idx, it) in prog.items.iter().enumerate() {
        match it {
            Item::Label(n) | Item::Const(n, _) => {
                let (level, path) = split_name(n);
                if path.len() != 1 {
                    return unspec("dotted declaration");
                }
                if level > ctx.len() {
                    return err("declaration skips a nesting level");
                }
                let mut full: Vec<String> = ctx[0..level].to_vec();
                full.push(path[0].clone());
                if a.by_path.contains_key(&full) {
                    return err("duplicate symbol");
                }
                if BUILTINS.contains(&path[0].as_str()) || path[0] == "$" || path[0] == "pc" {
                    return unspec("symbol named like a built-in");
                }
                ctx = full.clone();
                let kind = match it {
                    Item::Const(_, e) => match refparse::parse_all(e) {
                        Ok(e) => SymKind::Const(e),
                        Err(PErr::Fail) => return err("malformed constant expression"),
                        Err(PErr::Unmodelled(w)) => return unspec(w),
                    },
                    _ => SymKind::Label,
                };
                a.by_path.insert(full.clone(), a.syms.len());
                a.syms.push(Sym { path: full, kind, ctx: ctx.clone(), item: idx });
            }
            Item::Bankdef(b) => {
                if bank_names.contains(&b.name) {
                    return err("duplicate bank");
                }
                bank_names.push(b.name.clone());
            }
            _ => {}
        }
        a.ctx_at.push(ctx.clone());
    }

    // banks: index 0 is the default bank
    let mut banks: Vec<Bank> = vec![Bank { name: "".into(), bits: 8, addr: Z::from(0), size: None, outp: Some(0), fill: false, labelalign: None, cursor: 0 }];
    for it in &prog.items {
        if let Item::Bankdef(b) = it {
            banks.push(bank_from(b)?);
        }
    }
    let user_banks = banks.len() > 1;
    if let Some((g, _)) = guess {
        let mut m: HashMap<usize, Z> = HashMap::new();
        for (si, sy) in a.syms.iter().enumerate() {
            if let SymKind::Label = sy.kind {
                if let Some(z) = g.get(&sy.path.join(".")) {
                    m.insert(si, z.clone());
                }
            }
        }
        a.label_guess = Some(m);
    }
    // every `#bank` must name a defined bank (banks may be defined later in the file)
    for it in &prog.items {
        if let Item::Bank(n) = it {
            if !banks.iter().any(|b| b.name == *n) {
                return err("unknown bank");
            }
        }
    }

    // phase 1: match lines, static sizes, layout
    let mut matcher = Matcher { defs: &a.defs.clone(), unmodelled: None, lax_match_seen: false };
    let mut line_matches: HashMap<usize, Vec<Match>> = HashMap::new();
    for (idx, it) in prog.items.iter().enumerate() {
        if let Item::Instr(s) = it {
            let m = matcher.match_line(s);
            if let Some(w) = matcher.unmodelled {
                return unspec(w);
            }
            if matcher.lax_match_seen {
                return unspec("blanks between characters that are adjacent literals in the pattern");
            }
            line_matches.insert(idx, m);
        }
    }
    // an instruction without any match is reported before anything else
    for (_, m) in &line_matches {
        if m.is_empty() {
            return err("no match for instruction");
        }
    }

    let mut placements: Vec<Placement> = vec![];
    let mut cur = 0usize;
    let mut n_instr = 0usize;
    let mut item_pos: HashMap<usize, (usize, usize)> = HashMap::new(); // item -> (bank, pos) at item start
    let mut label_pos: Vec<(usize, usize, usize)> = vec![]; // (sym, bank, pos)
    let mut next_bankdef = 1usize;
    let mut data_vals: HashMap<(usize, usize), (Z, usize)> = HashMap::new();
    for (idx, it) in prog.items.iter().enumerate() {
        let ctx = a.ctx_at[idx].clone();
        match it {
            Item::Bankdef(_) => {
                cur = next_bankdef;
                next_bankdef += 1;
            }
            Item::Bank(n) => {
                cur = banks.iter().position(|b| b.name == *n).unwrap();
            }
            Item::Label(_) => {
                let si = a.syms.iter().position(|s| s.item == idx).unwrap();
                if let Some(la) = banks[cur].labelalign {
                    if a.syms[si].path.len() == 1 {
                        if la == 0 {
                            // alignment 0 is ignored for labels
                        } else {
                            let abs = &banks[cur].addr * banks[cur].bits + banks[cur].cursor;
                            let rem = to_usize_z(&(((&abs % la) + la) % la)).unwrap();
                            if rem != 0 {
                                banks[cur].cursor += la - rem;
                            }
                        }
                    }
                }
                label_pos.push((si, cur, banks[cur].cursor));
                item_pos.insert(idx, (cur, banks[cur].cursor));
                placements.push(Placement { item: idx, sub: 0, bank: cur, pos: banks[cur].cursor, size: 0, written: false });
            }
            Item::Const(..) => {
                if let Some(la) = banks[cur].labelalign {
                    let si = a.syms.iter().position(|s| s.item == idx).unwrap();
                    if la != 0 && a.syms[si].path.len() == 1 {
                        let abs = &banks[cur].addr * banks[cur].bits + banks[cur].cursor;
                        if to_usize_z(&(((&abs % la) + la) % la)) != Some(0) {
                            // customasm pads in front of a top-level *constant* as it does in front of a label; whether
                            // `labelalign` is meant to do that is written down nowhere
                            return unspec("top-level constant at an unaligned position in a bank with labelalign");
                        }
                    }
                }
                item_pos.insert(idx, (cur, banks[cur].cursor));
            }
            Item::Instr(_) => {
                let m = line_matches.get(&idx).unwrap().clone();
                let size = match claimed {
                    Some(c) => match c.get(n_instr) {
                        Some(s) => *s,
                        None => return unspec("claimed sizes do not cover every instruction"),
                    },
                    None => a.static_size(&m, &ctx)?,
                };
                n_instr += 1;
                item_pos.insert(idx, (cur, banks[cur].cursor));
                placements.push(Placement { item: idx, sub: 0, bank: cur, pos: banks[cur].cursor, size, written: true });
                banks[cur].cursor += size;
            }
            Item::Data(w, elems) => {
                item_pos.insert(idx, (cur, banks[cur].cursor));
                for (k, etext) in elems.iter().enumerate() {
                    let size = match w {
                        Some(w) => *w,
                        None => {
                            // needs the value's own size: must be address-independent
                            let e = match refparse::parse_all(etext) {
                                Ok(e) => e,
                                Err(PErr::Fail) => return err("malformed data expression"),
                                Err(PErr::Unmodelled(w)) => return unspec(w),
                            };
                            a.addresses_known = false;
                            match a.eval_in(&e, &ctx, None, &Env::new()) {
                                Ok(RVal::Int(_, Some(s))) => s,
                                Ok(RVal::Int(_, None)) => return err("data element has no definite size"),
                                Ok(RVal::Str(t, enc)) => match encode(&t, &enc) {
                                    Ok(b) => b.len() * 8,
                                    Err(_) => return unspec("string encoding"),
                                },
                                Ok(_) => return err("data element is not an integer"),
                                Err(Stop::Error(e)) => return Err(Stop::Error(e)),
                                Err(Stop::Unspec(w)) if w == "address-dependent" => return unspec("unsized data element depends on an address"),
                                Err(Stop::Unspec(w)) => return Err(Stop::Unspec(w)),
                            }
                        }
                    };
                    placements.push(Placement { item: idx, sub: k, bank: cur, pos: banks[cur].cursor, size, written: true });
                    banks[cur].cursor += size;
                }
            }
            Item::Res(etext) | Item::Align(etext) | Item::Addr(etext) => {
                let e = match refparse::parse_all(etext) {
                    Ok(e) => e,
                    Err(PErr::Fail) => return err("malformed directive expression"),
                    Err(PErr::Unmodelled(w)) => return unspec(w),
                };
                let force_now = iter_out.force.clone();
                let mut dir_vals_now: HashMap<usize, Z> = HashMap::new();
                let r: R<()> = (|| {
                a.addresses_known = false;
                    let here_now: R<Z> = if banks[cur].cursor % banks[cur].bits == 0 { Ok(&banks[cur].addr + banks[cur].cursor / banks[cur].bits) } else { err("position is not aligned to an address") };
                    let uses_here = { let mut vs = vec![]; collect_vars(&e, &mut vs); vs.iter().any(|v| v == "$" || v == "pc") };
                    let v = match a.eval_in(&e, &ctx, if uses_here && a.label_guess.is_some() { Some(&here_now) } else { None }, &Env::new()) {
                        Ok(RVal::Int(z, _)) => z,
                        Ok(_) => return err("directive needs an integer"),
                        Err(Stop::Unspec(w)) if w == "address-dependent" => return unspec("layout directive depends on an address"),
                        Err(Stop::Unspec(w)) => return Err(Stop::Unspec(w)),
                        Err(e) => return Err(e),
                    };
                    dir_vals_now.insert(idx, v.clone());
                    let v = match &force_now {
                        Some((fi, fz)) if *fi == idx => fz.clone(),
                        _ => v,
                    };
                    item_pos.insert(idx, (cur, banks[cur].cursor));
                    match it {
                        Item::Res(_) => {
                            if v < Z::from(0) {
                                return err("negative reservation");
                            }
                            if v.bits() > 20 {
                                return unspec("huge reservation (C19)");
                            }
                            let n = to_usize_z(&v).unwrap() * banks[cur].bits;
                            placements.push(Placement { item: idx, sub: 0, bank: cur, pos: banks[cur].cursor, size: n, written: false });
                            banks[cur].cursor += n;
                        }
                        Item::Align(_) => {
                            if v <= Z::from(0) {
                                return err("invalid alignment");
                            }
                            if v.bits() > 20 {
                                return unspec("huge alignment (C19)");
                            }
                            let n = to_usize_z(&v).unwrap();
                            let abs = &banks[cur].addr * banks[cur].bits + banks[cur].cursor;
                            let rem = to_usize_z(&(((&abs % n) + n) % n)).unwrap();
                            if rem != 0 {
                                banks[cur].cursor += n - rem;
                            }
                        }
                        _ => {
                            if v < banks[cur].addr {
                                return err("address below the bank start");
                            }
                            let delta = &v - &banks[cur].addr;
                            if delta.bits() > 24 {
                                return unspec("huge address (C19)");
                            }
                            let d = to_usize_z(&delta).unwrap() * banks[cur].bits;
                            if let Some(sz) = banks[cur].size {
                                if d >= sz {
                                    return err("address beyond the bank");
                                }
                            }
                            banks[cur].cursor = d;
                        }
                    }
    
                    Ok(())
                })();
                iter_out.dir_vals.extend(dir_vals_now);
                match r {
                    Ok(()) => {}
                    Err(Stop::Error(_)) if tolerant => iter_out.tolerated = true,
                    Err(Stop::Unspec(w)) if tolerant && w == "label without an assumed address" => iter_out.tolerated = true,
                    Err(e) => return Err(e),
                }
            }
        }
    }

    // label addresses
    for (si, b, pos) in &label_pos {
        if pos % banks[*b].bits != 0 {
            return err("label not aligned to an address");
        }
        a.label_val.insert(*si, &banks[*b].addr + pos / banks[*b].bits);
    }
    iter_out.labels = Some(a.label_val.iter().map(|(si, z)| (a.syms[*si].path.join("."), z.clone())).collect());
    if let (Some((_, true)), Some(g)) = (guess, &a.label_guess) {
        for (si, z) in &a.label_val {
            if g.get(si) != Some(z) {
                return err("a claimed label value is not the address at which the following item lies");
            }
        }
    }
    for (si, sy) in a.syms.iter().enumerate() {
        if let SymKind::Const(_) = sy.kind {
            if let Some((b, pos)) = item_pos.get(&sy.item) {
                if pos % banks[*b].bits == 0 {
                    a.const_here.insert(si, &banks[*b].addr + pos / banks[*b].bits);
                }
            }
        }
    }
    a.label_guess = None;
    a.addresses_known = true;

    // phase 3: exact evaluation
    let mut chosen = vec![];
    let mut item_bits: HashMap<(usize, usize), String> = HashMap::new();
    for (idx, it) in prog.items.iter().enumerate() {
        let ctx = a.ctx_at[idx].clone();
        let here = |banks: &Vec<Bank>, bp: (usize, usize)| -> R<Z> {
            let (b, pos) = bp;
            if pos % banks[b].bits != 0 {
                return err("position is not aligned to an address");
            }
            Ok(&banks[b].addr + pos / banks[b].bits)
        };
        match it {
            Item::Instr(_) => {
                let bp = item_pos[&idx];
                let h = here(&banks, bp);
                let m = line_matches.get(&idx).unwrap().clone();
                let (mi, z, s) = a.choose(&m, &ctx, Some(&h))?;
                let pl = placements.iter().find(|p| p.item == idx).unwrap();
                if pl.size != s {
                    if claimed.is_some() {
                        return err("claimed encoding is not the unique smallest one at the claimed symbol values");
                    }
                    return unspec("instruction size differs from its static size");
                }
                chosen.push((idx, m[mi].def, m[mi].rule));
                item_bits.insert((idx, 0), bits_of(&z, s));
            }
            Item::Data(w, elems) => {
                let (b0, mut pos) = item_pos[&idx];
                for (k, etext) in elems.iter().enumerate() {
                    let e = match refparse::parse_all(etext) {
                        Ok(e) => e,
                        Err(PErr::Fail) => return err("malformed data expression"),
                        Err(PErr::Unmodelled(w)) => return unspec(w),
                    };
                    let h = here(&banks, (b0, pos));
                    let v = a.eval_in(&e, &ctx, Some(&h), &Env::new())?;
                    let (z, vs) = match v {
                        RVal::Int(z, s) => (z, s),
                        RVal::Str(t, enc) => {
                            let bytes = match encode(&t, &enc) {
                                Ok(b) => b,
                                Err(_) => return unspec("string encoding"),
                            };
                            let mut z = Z::from(0);
                            for b in &bytes {
                                z = z * 256 + *b;
                            }
                            (z, Some(bytes.len() * 8))
                        }
                        _ => return err("data element is not an integer"),
                    };
                    let size = placements.iter().find(|p| p.item == idx && p.sub == k).unwrap().size;
                    match w {
                        Some(n) => {
                            if *n == 0 {
                                return unspec("zero-width data");
                            }
                            let ok = match vs {
                                Some(s) => s <= *n,
                                None => {
                                    let two_v = &z * 2;
                                    two_v >= -pow2(*n) && z < pow2(*n)
                                }
                            };
                            if !ok {
                                return err("value out of range for data directive");
                            }
                        }
                        None => {
                            if vs != Some(size) {
                                return unspec("unsized data element changed size");
                            }
                            if size == 0 {
                                return unspec("zero-size data element");
                            }
                        }
                    }
                    data_vals.insert((idx, k), (z.clone(), size));
                    item_bits.insert((idx, k), bits_of(&z, size));
                    pos += size;
                }
            }
            Item::Const(..) => {
                let si = a.syms.iter().position(|s| s.item == idx).unwrap();
                a.sym_value(si)?;
            }
            _ => {}
        }
    }
    let _ = data_vals;

    // output checks
    if user_banks {
        for p in &placements {
            if p.bank == 0 {
                return err("use of the default bank while banks are defined");
            }
        }
    }
    // bank windows must not intersect
    for i in 1..banks.len() {
        for j in (i + 1)..banks.len() {
            let (Some(o1), Some(o2)) = (banks[i].outp, banks[j].outp) else { continue };
            let e1 = banks[i].size.map(|s| o1 + s);
            let e2 = banks[j].size.map(|s| o2 + s);
            let overlap = match (e1, e2) {
                (None, None) => true,
                (Some(e1), None) => e1 > o2,
                (None, Some(e2)) => e2 > o1,
                (Some(e1), Some(e2)) => e1 > o2 && e2 > o1,
            };
            if overlap {
                return err("bank output windows overlap");
            }
        }
    }
    let mut intervals: Vec<(usize, usize)> = vec![];
    let mut out_len = 0usize;
    let mut empty_fill_end = 0usize;
    for b in banks.iter().skip(1) {
        if b.fill {
            if let (Some(o), Some(s)) = (b.outp, b.size) {
                if s == 0 {
                    // whether an empty filled bank extends the output up to its position is not determined
                    empty_fill_end = empty_fill_end.max(o);
                } else {
                    out_len = out_len.max(o + s);
                }
            }
        }
    }
    for p in &placements {
        let b = &banks[p.bank];
        if let Some(sz) = b.size {
            if p.pos + p.size > sz {
                return err("item beyond the end of its bank");
            }
        }
        if p.written && b.outp.is_none() {
            return err("write into a bank without output");
        }
        let is_label = matches!(prog.items[p.item], Item::Label(_));
        if is_label {
            continue;
        }
        if let Some(o) = b.outp {
            let (s, e) = (o + p.pos, o + p.pos + p.size);
            if p.size > 0 {
                for (s2, e2) in &intervals {
                    if s < *e2 && *s2 < e {
                        return err("output overlap");
                    }
                }
                intervals.push((s, e));
            } else {
                // zero-size items: overlap semantics not determined
            }
            if p.written {
                out_len = out_len.max(e);
            }
        }
    }
    if empty_fill_end > out_len {
        return unspec("an empty filled bank lies beyond the end of the output");
    }
    let mut bits: Vec<u8> = vec![b'0'; out_len];
    for p in &placements {
        if !p.written {
            continue;
        }
        let o = banks[p.bank].outp.unwrap() + p.pos;
        let s = item_bits.get(&(p.item, p.sub)).unwrap();
        for (k, c) in s.bytes().enumerate() {
            bits[o + k] = c;
        }
    }
    // symbols (integers only), declaration order
    let mut symbols = vec![];
    for si in 0..a.syms.len() {
        if let Ok(RVal::Int(z, _)) = a.sym_value(si) {
            symbols.push((a.syms[si].path.join("."), z));
        }
    }
    Ok(RefOk { bits: String::from_utf8(bits).unwrap(), symbols, placements, banks, chosen })
}
