//! Reference model of the expression language (DESIGN §3.2): an independent evaluator over
//! unbounded integers with tracked sizes, plus a printer (minimal / fully parenthesised).
//! `Unspec` marks inputs whose answer the documentation does not determine: no verdict.
use num_bigint::BigInt;
use std::collections::HashMap;

pub type Z = BigInt;

#[derive(Clone, Debug, PartialEq, Eq, Hash)]
pub enum Enc {
    Utf8,
    Ascii,
    Utf16be,
    Utf16le,
    Utf32be,
    Utf32le,
}

impl Enc {
    pub fn name(&self) -> &'static str {
        match self {
            Enc::Utf8 => "utf8",
            Enc::Ascii => "ascii",
            Enc::Utf16be => "utf16be",
            Enc::Utf16le => "utf16le",
            Enc::Utf32be => "utf32be",
            Enc::Utf32le => "utf32le",
        }
    }
    pub fn all() -> [Enc; 6] {
        [Enc::Utf8, Enc::Ascii, Enc::Utf16be, Enc::Utf16le, Enc::Utf32be, Enc::Utf32le]
    }
}

#[derive(Clone, Debug, PartialEq, Eq)]
pub enum RVal {
    Int(Z, Option<usize>),
    Bool(bool),
    Str(String, Enc),
    Void,
}

#[derive(Clone, Debug, PartialEq, Eq)]
pub enum RErr {
    /// the language says: this is an error
    Error(&'static str),
    /// not determined by the documentation: no verdict
    Unspec(&'static str),
    /// an `assert` in the expression does not hold / a typed argument is out of range:
    /// the candidate rule is discarded (not an error by itself)
    Constraint,
}

pub type RRes = Result<RVal, RErr>;

#[derive(Clone, Copy, Debug, PartialEq, Eq, Hash)]
pub enum UnOp {
    Neg,
    Not,
}

#[derive(Clone, Copy, Debug, PartialEq, Eq, Hash)]
pub enum BinOp {
    Add,
    Sub,
    Mul,
    Div,
    Mod,
    Shl,
    Shr,
    And,
    Or,
    Xor,
    Eq,
    Ne,
    Lt,
    Le,
    Gt,
    Ge,
    LAnd,
    LOr,
    Concat,
}

pub const ALL_BIN: [BinOp; 19] = [
    BinOp::Add,
    BinOp::Sub,
    BinOp::Mul,
    BinOp::Div,
    BinOp::Mod,
    BinOp::Shl,
    BinOp::Shr,
    BinOp::And,
    BinOp::Or,
    BinOp::Xor,
    BinOp::Eq,
    BinOp::Ne,
    BinOp::Lt,
    BinOp::Le,
    BinOp::Gt,
    BinOp::Ge,
    BinOp::LAnd,
    BinOp::LOr,
    BinOp::Concat,
];

impl BinOp {
    pub fn text(self) -> &'static str {
        match self {
            BinOp::Add => "+",
            BinOp::Sub => "-",
            BinOp::Mul => "*",
            BinOp::Div => "/",
            BinOp::Mod => "%",
            BinOp::Shl => "<<",
            BinOp::Shr => ">>",
            BinOp::And => "&",
            BinOp::Or => "|",
            BinOp::Xor => "^",
            BinOp::Eq => "==",
            BinOp::Ne => "!=",
            BinOp::Lt => "<",
            BinOp::Le => "<=",
            BinOp::Gt => ">",
            BinOp::Ge => ">=",
            BinOp::LAnd => "&&",
            BinOp::LOr => "||",
            BinOp::Concat => "@",
        }
    }
    /// documented precedence, loosest (small) to tightest (large)
    pub fn level(self) -> u8 {
        match self {
            BinOp::Concat => 2,
            BinOp::LOr => 3,
            BinOp::LAnd => 4,
            BinOp::Eq | BinOp::Ne | BinOp::Lt | BinOp::Le | BinOp::Gt | BinOp::Ge => 5,
            BinOp::Or => 6,
            BinOp::Xor => 7,
            BinOp::And => 8,
            BinOp::Shl | BinOp::Shr => 9,
            BinOp::Add | BinOp::Sub => 10,
            BinOp::Mul | BinOp::Div | BinOp::Mod => 11,
        }
    }
}

pub const L_TERNARY: u8 = 0;
pub const L_SLICE: u8 = 12;
pub const L_SHORT: u8 = 13;
pub const L_UNARY: u8 = 14;
pub const L_CALL: u8 = 15;
pub const L_LEAF: u8 = 16;

#[derive(Clone, Debug, PartialEq, Eq, Hash)]
pub enum E {
    /// numeric literal: source spelling (value/size derived by `literal`)
    Num(String),
    Bool(bool),
    /// string literal: source spelling including quotes
    Str(String),
    Var(String),
    Un(UnOp, Box<E>),
    Bin(BinOp, Box<E>, Box<E>),
    Tern(Box<E>, Box<E>, Box<E>),
    Slice(Box<E>, Box<E>, Box<E>), // inner, hi, lo
    Short(Box<E>, Box<E>),         // inner, n
    Call(String, Vec<E>),
    /// `{ e1, e2, ... }`: evaluated in order, value of the last
    Block(Vec<E>),
}

impl E {
    pub fn num(s: &str) -> E {
        E::Num(s.to_string())
    }
    pub fn int(v: i64) -> E {
        if v < 0 {
            E::Un(UnOp::Neg, Box::new(E::Num(format!("{}", -(v as i128)))))
        } else {
            E::Num(format!("{}", v))
        }
    }
    pub fn var(s: &str) -> E {
        E::Var(s.to_string())
    }
    pub fn bin(op: BinOp, a: E, b: E) -> E {
        E::Bin(op, Box::new(a), Box::new(b))
    }
    pub fn un(op: UnOp, a: E) -> E {
        E::Un(op, Box::new(a))
    }
    pub fn level(&self) -> u8 {
        match self {
            E::Num(_) | E::Bool(_) | E::Str(_) | E::Var(_) => L_LEAF,
            E::Un(..) => L_UNARY,
            E::Bin(op, ..) => op.level(),
            E::Tern(..) => L_TERNARY,
            E::Slice(..) => L_SLICE,
            E::Short(..) => L_SHORT,
            E::Call(..) => L_CALL,
            E::Block(..) => L_LEAF,
        }
    }
    pub fn depth(&self) -> usize {
        match self {
            E::Num(_) | E::Bool(_) | E::Str(_) | E::Var(_) => 0,
            E::Un(_, a) => 1 + a.depth(),
            E::Bin(_, a, b) => 1 + a.depth().max(b.depth()),
            E::Tern(a, b, c) => 1 + a.depth().max(b.depth()).max(c.depth()),
            E::Slice(a, b, c) => 1 + a.depth().max(b.depth()).max(c.depth()),
            E::Short(a, b) => 1 + a.depth().max(b.depth()),
            E::Call(_, args) => 1 + args.iter().map(|a| a.depth()).max().unwrap_or(0),
            E::Block(es) => 1 + es.iter().map(|a| a.depth()).max().unwrap_or(0),
        }
    }

    fn wrap(e: &E, min_level: u8, full: bool) -> String {
        let s = e.print(full);
        if e.level() < min_level || (full && e.level() < L_LEAF) {
            format!("({})", s)
        } else {
            s
        }
    }

    /// `full` = every non-leaf sub-expression parenthesised; otherwise the minimal
    /// parenthesisation under the documented precedence and associativity.
    pub fn print(&self, full: bool) -> String {
        match self {
            E::Num(s) => s.clone(),
            E::Bool(b) => (if *b { "true" } else { "false" }).to_string(),
            E::Str(s) => s.clone(),
            E::Var(s) => s.clone(),
            E::Un(op, a) => {
                let o = match op {
                    UnOp::Neg => "-",
                    UnOp::Not => "!",
                };
                format!("{}{}", o, E::wrap(a, L_UNARY, full))
            }
            E::Bin(op, a, b) => {
                let l = op.level();
                // all binary levels are left-associative
                format!("{} {} {}", E::wrap(a, l, full), op.text(), E::wrap(b, l + 1, full))
            }
            E::Tern(c, a, b) => {
                format!("{} ? {} : {}", E::wrap(c, 1, full), E::wrap(a, 0, full), E::wrap(b, 0, full))
            }
            E::Slice(x, hi, lo) => {
                format!("{}[{}:{}]", E::wrap(x, L_SHORT, full), E::wrap(hi, 1, full), E::wrap(lo, 0, full))
            }
            E::Short(x, n) => {
                format!("{}`{}", E::wrap(x, L_UNARY, full), E::wrap(n, L_LEAF, full))
            }
            E::Call(f, args) => {
                let a: Vec<String> = args.iter().map(|a| E::wrap(a, 0, full)).collect();
                format!("{}({})", f, a.join(", "))
            }
            E::Block(es) => {
                let a: Vec<String> = es.iter().map(|a| E::wrap(a, 0, full)).collect();
                format!("{{ {} }}", a.join(", "))
            }
        }
    }
}

/// Numeric literal: value and size, or None when the spelling is not a valid literal.
/// Decimal is unsized; 0b/% 0o 0x/$ are sized digits*(1|3|4); `_` ignored; zero digits invalid.
pub fn literal(s: &str) -> Option<(Z, Option<usize>)> {
    let (radix, digits, bits): (u32, &str, Option<usize>) = if let Some(r) = s.strip_prefix("0b") {
        (2, r, Some(1))
    } else if let Some(r) = s.strip_prefix("0o") {
        (8, r, Some(3))
    } else if let Some(r) = s.strip_prefix("0x") {
        (16, r, Some(4))
    } else if let Some(r) = s.strip_prefix('%') {
        (2, r, Some(1))
    } else if let Some(r) = s.strip_prefix('$') {
        (16, r, Some(4))
    } else {
        (10, s, None)
    };
    let mut v = Z::from(0);
    let mut n = 0usize;
    for c in digits.chars() {
        if c == '_' {
            continue;
        }
        let d = c.to_digit(radix)?;
        v = v * radix + d;
        n += 1;
    }
    if n == 0 {
        return None;
    }
    Some((v, bits.map(|b| b * n)))
}

/// Decode a string literal's source spelling (with quotes). None = invalid escape.
pub fn decode_string(src: &str) -> Option<String> {
    let inner: Vec<char> = src[1..src.len() - 1].chars().collect();
    let mut out = String::new();
    let mut i = 0;
    while i < inner.len() {
        let c = inner[i];
        i += 1;
        if c != '\\' {
            out.push(c);
            continue;
        }
        let e = *inner.get(i)?;
        i += 1;
        match e {
            '0' => out.push('\0'),
            't' => out.push('\t'),
            'r' => out.push('\r'),
            'n' => out.push('\n'),
            '\'' => out.push('\''),
            '"' => out.push('"'),
            '\\' => out.push('\\'),
            'x' => {
                let h = inner.get(i)?.to_digit(16)?;
                let l = inner.get(i + 1)?.to_digit(16)?;
                i += 2;
                let b = h * 16 + l;
                if b > 0x7f {
                    return None;
                }
                out.push(b as u8 as char);
            }
            'u' => {
                if *inner.get(i)? != '{' {
                    return None;
                }
                i += 1;
                let mut cp: u32 = 0;
                let mut nd = 0;
                loop {
                    let ch = *inner.get(i)?;
                    i += 1;
                    if ch == '}' {
                        break;
                    }
                    nd += 1;
                    if nd > 6 {
                        return None;
                    }
                    cp = cp * 16 + ch.to_digit(16)?;
                }
                out.push(char::from_u32(cp)?);
            }
            _ => return None,
        }
    }
    Some(out)
}

/// Encoded bytes of a string, written by hand (not via std's encoders).
pub fn encode(text: &str, enc: &Enc) -> Result<Vec<u8>, RErr> {
    let mut out = vec![];
    for ch in text.chars() {
        let cp = ch as u32;
        match enc {
            Enc::Utf8 => {
                if cp < 0x80 {
                    out.push(cp as u8);
                } else if cp < 0x800 {
                    out.push(0xc0 | (cp >> 6) as u8);
                    out.push(0x80 | (cp & 0x3f) as u8);
                } else if cp < 0x10000 {
                    out.push(0xe0 | (cp >> 12) as u8);
                    out.push(0x80 | ((cp >> 6) & 0x3f) as u8);
                    out.push(0x80 | (cp & 0x3f) as u8);
                } else {
                    out.push(0xf0 | (cp >> 18) as u8);
                    out.push(0x80 | ((cp >> 12) & 0x3f) as u8);
                    out.push(0x80 | ((cp >> 6) & 0x3f) as u8);
                    out.push(0x80 | (cp & 0x3f) as u8);
                }
            }
            Enc::Ascii => {
                // the repository's own expectation (tests/string_encoding/ok.asm: ascii("àÿĀ") = 0xe0_ff_00,
                // ascii("😀") = 0x00): one byte per character, its code point below 0x100, else 0x00
                out.push(if cp < 0x100 { cp as u8 } else { 0 });
            }
            Enc::Utf16be | Enc::Utf16le => {
                let mut units = vec![];
                if cp < 0x10000 {
                    units.push(cp as u16);
                } else {
                    let c = cp - 0x10000;
                    units.push(0xd800 + (c >> 10) as u16);
                    units.push(0xdc00 + (c & 0x3ff) as u16);
                }
                for u in units {
                    if *enc == Enc::Utf16be {
                        out.push((u >> 8) as u8);
                        out.push(u as u8);
                    } else {
                        out.push(u as u8);
                        out.push((u >> 8) as u8);
                    }
                }
            }
            Enc::Utf32be => {
                out.extend_from_slice(&[(cp >> 24) as u8, (cp >> 16) as u8, (cp >> 8) as u8, cp as u8]);
            }
            Enc::Utf32le => {
                out.extend_from_slice(&[cp as u8, (cp >> 8) as u8, (cp >> 16) as u8, (cp >> 24) as u8]);
            }
        }
    }
    Ok(out)
}

pub fn pow2(n: usize) -> Z {
    Z::from(1) << n
}

/// low `n` bits of the infinite two's-complement representation, as a non-negative integer
pub fn low_bits(v: &Z, n: usize) -> Z {
    let m = pow2(n);
    let r = v % &m;
    if r < Z::from(0) {
        r + m
    } else {
        r
    }
}

fn floor_div_pow2(v: &Z, n: usize) -> Z {
    // arithmetic shift right = floor(v / 2^n)
    let m = pow2(n);
    let q = v / &m; // truncates toward zero
    let r = v % &m;
    if r < Z::from(0) {
        q - 1
    } else {
        q
    }
}

fn bitop(a: &Z, b: &Z, f: fn(bool, bool) -> bool) -> Z {
    // infinite two's complement, bit by bit, independent of num-bigint's operators
    let n = std::cmp::max(a.bits(), b.bits()) as usize + 2;
    let la = low_bits(a, n);
    let lb = low_bits(b, n);
    let mut r = Z::from(0);
    for i in (0..n).rev() {
        let ba = ((&la >> i) % 2u8) == Z::from(1);
        let bb = ((&lb >> i) % 2u8) == Z::from(1);
        r = r * 2;
        if f(ba, bb) {
            r += 1;
        }
    }
    // sign bit = bit n-1 of the result pattern
    if (&r >> (n - 1)) % 2u8 == Z::from(1) {
        r - pow2(n)
    } else {
        r
    }
}

#[derive(Clone, Debug, Default)]
pub struct Env {
    pub vars: HashMap<String, RVal>,
    /// size-only evaluation: `assert` always holds (used to read a production's static size)
    pub placeholder: bool,
}
impl Env {
    pub fn new() -> Env {
        Env::default()
    }
    pub fn get(&self, n: &str) -> Option<&RVal> {
        self.vars.get(n)
    }
    pub fn set(&mut self, n: &str, v: RVal) {
        self.vars.insert(n.to_string(), v);
    }
}

/// integer view of an operand: ints as they are, strings as their encoded bytes (sized 8*len)
fn intlike(v: &RVal, sign_matters: bool) -> Result<Option<(Z, Option<usize>)>, RErr> {
    match v {
        RVal::Int(z, s) => Ok(Some((z.clone(), *s))),
        RVal::Str(t, e) => {
            let bytes = encode(t, e)?;
            if bytes.is_empty() {
                return Err(RErr::Unspec("empty string as an integer"));
            }
            if sign_matters && bytes[0] >= 0x80 {
                return Err(RErr::Unspec("string whose first byte has the top bit set, used where the sign matters"));
            }
            let mut z = Z::from(0);
            for b in &bytes {
                z = z * 256 + *b;
            }
            Ok(Some((z, Some(bytes.len() * 8))))
        }
        _ => Ok(None),
    }
}

fn to_usize(v: &RVal) -> Result<usize, RErr> {
    match v {
        RVal::Int(z, _) => {
            if *z < Z::from(0) {
                return Err(RErr::Error("negative where a non-negative machine integer is needed"));
            }
            if z.bits() > 20 {
                return Err(RErr::Unspec("magnitude above 2^20 (belongs to C19)"));
            }
            Ok(usize::try_from(z).unwrap())
        }
        _ => Err(RErr::Error("expected non-negative integer")),
    }
}

pub fn eval(e: &E, env: &Env) -> RRes {
    match e {
        E::Num(s) => match literal(s) {
            Some((v, sz)) => Ok(RVal::Int(v, sz)),
            None => Err(RErr::Error("invalid literal")),
        },
        E::Bool(b) => Ok(RVal::Bool(*b)),
        E::Str(s) => match decode_string(s) {
            Some(t) => Ok(RVal::Str(t, Enc::Utf8)),
            None => Err(RErr::Error("invalid escape")),
        },
        E::Var(n) => match env.get(n) {
            Some(v) => Ok(v.clone()),
            None => Err(RErr::Error("undefined symbol")),
        },
        E::Un(op, a) => {
            let v = eval(a, env)?;
            match (op, v) {
                (UnOp::Neg, RVal::Int(z, _)) => Ok(RVal::Int(-z, None)),
                (UnOp::Not, RVal::Int(z, _)) => Ok(RVal::Int(-z - 1, None)),
                (UnOp::Not, RVal::Bool(b)) => Ok(RVal::Bool(!b)),
                (UnOp::Neg, RVal::Bool(_)) => Err(RErr::Error("negation of a boolean")),
                (_, RVal::Str(..)) => Err(RErr::Unspec("unary operator on a string")),
                (_, RVal::Void) => Err(RErr::Error("unary operator on void")),
            }
        }
        E::Bin(op, a, b) => {
            if *op == BinOp::LAnd || *op == BinOp::LOr {
                let l = eval(a, env)?;
                let RVal::Bool(lb) = l else { return Err(RErr::Error("lazy operator needs booleans")) };
                if (*op == BinOp::LOr && lb) || (*op == BinOp::LAnd && !lb) {
                    return Ok(RVal::Bool(lb));
                }
                let r = eval(b, env)?;
                let RVal::Bool(rb) = r else { return Err(RErr::Error("lazy operator needs booleans")) };
                return Ok(RVal::Bool(rb));
            }
            let l = eval(a, env)?;
            let r = eval(b, env)?;
            if let (RVal::Bool(x), RVal::Bool(y)) = (&l, &r) {
                return match op {
                    BinOp::And => Ok(RVal::Bool(*x & *y)),
                    BinOp::Or => Ok(RVal::Bool(*x | *y)),
                    BinOp::Xor => Ok(RVal::Bool(*x ^ *y)),
                    BinOp::Eq => Ok(RVal::Bool(x == y)),
                    BinOp::Ne => Ok(RVal::Bool(x != y)),
                    _ => Err(RErr::Error("operator not defined on booleans")),
                };
            }
            let sign_matters = *op != BinOp::Concat;
            let (Some((x, xs)), Some((y, ys))) = (intlike(&l, sign_matters)?, intlike(&r, sign_matters)?) else {
                return Err(RErr::Error("operator needs two integers or two booleans"));
            };
            let zero = Z::from(0);
            match op {
                BinOp::Add => Ok(RVal::Int(x + y, None)),
                BinOp::Sub => Ok(RVal::Int(x - y, None)),
                BinOp::Mul => Ok(RVal::Int(x * y, None)),
                BinOp::Div => {
                    if y == zero {
                        return Err(RErr::Error("division by zero"));
                    }
                    // truncation toward zero, computed on magnitudes
                    let q = abs(&x) / abs(&y);
                    let neg = (x < zero) != (y < zero);
                    Ok(RVal::Int(if neg { -q } else { q }, None))
                }
                BinOp::Mod => {
                    if y == zero {
                        return Err(RErr::Error("modulo by zero"));
                    }
                    // remainder takes the dividend's sign
                    let r = abs(&x) % abs(&y);
                    Ok(RVal::Int(if x < zero { -r } else { r }, None))
                }
                BinOp::Shl => {
                    if y < zero {
                        return Err(RErr::Error("negative shift count"));
                    }
                    if y.bits() > 20 {
                        return Err(RErr::Unspec("shift count above 2^20 (C19)"));
                    }
                    let n = usize::try_from(&y).unwrap();
                    Ok(RVal::Int(x * pow2(n), None))
                }
                BinOp::Shr => {
                    if y < zero {
                        return Err(RErr::Error("negative shift count"));
                    }
                    if y.bits() > 20 {
                        return Err(RErr::Unspec("shift count above 2^20 (C19)"));
                    }
                    let n = usize::try_from(&y).unwrap();
                    Ok(RVal::Int(floor_div_pow2(&x, n), None))
                }
                BinOp::And => Ok(RVal::Int(bitop(&x, &y, |a, b| a & b), None)),
                BinOp::Or => Ok(RVal::Int(bitop(&x, &y, |a, b| a | b), None)),
                BinOp::Xor => Ok(RVal::Int(bitop(&x, &y, |a, b| a ^ b), None)),
                BinOp::Eq => Ok(RVal::Bool(x == y)),
                BinOp::Ne => Ok(RVal::Bool(x != y)),
                BinOp::Lt => Ok(RVal::Bool(x < y)),
                BinOp::Le => Ok(RVal::Bool(x <= y)),
                BinOp::Gt => Ok(RVal::Bool(x > y)),
                BinOp::Ge => Ok(RVal::Bool(x >= y)),
                BinOp::Concat => {
                    let (Some(xs), Some(ys)) = (xs, ys) else { return Err(RErr::Error("concatenation of an unsized value")) };
                    let v = low_bits(&x, xs) * pow2(ys) + low_bits(&y, ys);
                    Ok(RVal::Int(v, Some(xs + ys)))
                }
                BinOp::LAnd | BinOp::LOr => unreachable!(),
            }
        }
        E::Tern(c, a, b) => match eval(c, env)? {
            RVal::Bool(true) => eval(a, env),
            RVal::Bool(false) => eval(b, env),
            _ => Err(RErr::Error("non-boolean condition")),
        },
        E::Slice(x, hi, lo) => {
            let xv = eval(x, env)?;
            let Some((z, zs)) = intlike(&xv, false)? else { return Err(RErr::Error("slice of a non-integer")) };
            let h = to_usize(&eval(hi, env)?)?;
            let l = to_usize(&eval(lo, env)?)?;
            if let (RVal::Str(..), Some(zs)) = (&xv, zs) {
                if h + 1 > zs {
                    intlike(&xv, true)?; // bits beyond a string's size: sign extension is not documented
                }
            }
            if h + 1 < l {
                return Err(RErr::Error("inverted slice bounds"));
            }
            if h + 1 == l {
                return Err(RErr::Unspec("empty slice hi = lo-1"));
            }
            let n = h + 1 - l;
            Ok(RVal::Int(low_bits(&floor_div_pow2(&z, l), n), Some(n)))
        }
        E::Short(x, n) => {
            let xv = eval(x, env)?;
            let Some((z, zs)) = intlike(&xv, false)? else { return Err(RErr::Error("slice of a non-integer")) };
            let n = to_usize(&eval(n, env)?)?;
            if let (RVal::Str(..), Some(zs)) = (&xv, zs) {
                if n > zs {
                    intlike(&xv, true)?;
                }
            }
            if n == 0 {
                return Err(RErr::Unspec("zero-width slice"));
            }
            Ok(RVal::Int(low_bits(&z, n), Some(n)))
        }
        E::Block(es) => {
            let mut last = RVal::Void;
            for x in es {
                last = eval(x, env)?;
            }
            Ok(last)
        }
        E::Call(f, args) if f == "assert" => {
            if args.is_empty() || args.len() > 2 {
                return Err(RErr::Error("wrong number of arguments"));
            }
            match eval(&args[0], env)? {
                RVal::Bool(true) => Ok(RVal::Void),
                RVal::Bool(false) => {
                    if env.placeholder {
                        Ok(RVal::Void)
                    } else {
                        Err(RErr::Constraint)
                    }
                }
                _ => Err(RErr::Error("assert of a non-boolean")),
            }
        }
        E::Call(f, args) => {
            let mut vals = vec![];
            for a in args {
                vals.push(eval(a, env)?);
            }
            let enc = match f.as_str() {
                "utf8" => Some(Enc::Utf8),
                "ascii" => Some(Enc::Ascii),
                "utf16be" => Some(Enc::Utf16be),
                "utf16le" => Some(Enc::Utf16le),
                "utf32be" => Some(Enc::Utf32be),
                "utf32le" => Some(Enc::Utf32le),
                _ => None,
            };
            if let Some(enc) = enc {
                if vals.len() != 1 {
                    return Err(RErr::Error("wrong number of arguments"));
                }
                return match &vals[0] {
                    RVal::Str(t, _) => Ok(RVal::Str(t.clone(), enc)),
                    _ => Err(RErr::Error("expected string")),
                };
            }
            match f.as_str() {
                "le" => {
                    if vals.len() != 1 {
                        return Err(RErr::Error("wrong number of arguments"));
                    }
                    match &vals[0] {
                        RVal::Int(z, Some(s)) => {
                            if s % 8 != 0 {
                                return Err(RErr::Error("le() of a size not multiple of 8"));
                            }
                            if *s == 0 {
                                return Err(RErr::Unspec("le() of zero-size value"));
                            }
                            let mut v = low_bits(z, *s);
                            let mut out = Z::from(0);
                            for _ in 0..(s / 8) {
                                out = out * 256 + (&v % 256u32);
                                v = v / 256u32;
                            }
                            Ok(RVal::Int(out, Some(*s)))
                        }
                        RVal::Int(_, None) => Err(RErr::Error("le() of an unsized value")),
                        RVal::Str(..) => Err(RErr::Unspec("le() of a string")),
                        _ => Err(RErr::Error("le() of a non-integer")),
                    }
                }
                "sizeof" => {
                    if vals.len() != 1 {
                        return Err(RErr::Error("wrong number of arguments"));
                    }
                    match &vals[0] {
                        RVal::Int(_, Some(s)) => Ok(RVal::Int(Z::from(*s), None)),
                        RVal::Int(_, None) => Err(RErr::Error("sizeof of an unsized value")),
                        RVal::Str(t, e) => Ok(RVal::Int(Z::from(encode(t, e)?.len() * 8), None)),
                        _ => Err(RErr::Error("sizeof of a non-integer")),
                    }
                }
                "strlen" => {
                    if vals.len() != 1 {
                        return Err(RErr::Error("wrong number of arguments"));
                    }
                    match &vals[0] {
                        RVal::Str(t, e) => {
                            if !t.is_ascii() || (*e != Enc::Utf8 && *e != Enc::Ascii) {
                                return Err(RErr::Unspec("strlen of a non-ASCII or re-encoded string"));
                            }
                            Ok(RVal::Int(Z::from(t.len()), None))
                        }
                        _ => Err(RErr::Error("expected string")),
                    }
                }
                _ => Err(RErr::Unspec("unknown function")),
            }
        }
    }
}

fn abs(z: &Z) -> Z {
    if *z < Z::from(0) {
        -z.clone()
    } else {
        z.clone()
    }
}

/// Emitted bits ('0'/'1', MSB first) of a value with a definite size.
pub fn bits_of(v: &Z, size: usize) -> String {
    let l = low_bits(v, size);
    let mut s = String::with_capacity(size);
    for i in (0..size).rev() {
        s.push(if ((&l >> i) % 2u8) == Z::from(1) { '1' } else { '0' });
    }
    s
}

/// minimal two's-complement width as the data directive understands it:
/// non-negative v: number of bits of v (0 -> 1); negative: signed width.
pub fn min_width(v: &Z) -> usize {
    let zero = Z::from(0);
    if *v == zero {
        1
    } else if *v > zero {
        v.bits() as usize
    } else {
        // smallest n with -2^(n-1) <= v
        let mut n = 1usize;
        while -pow2(n - 1) > *v {
            n += 1;
        }
        n
    }
}
