//! C16 — conditional assembly and command-line defines select exactly one world.
//!
//! Alphabet: items {marker byte, label, constant, local constant, use of a name, #if/#elif/#else chain},
//! conditions over constants A, B, C (and constants declared inside arms), define assignments.
//! Bound: five families, each a complete product (see `run`): condition trees x condition forms x
//! valuations x placement (`tree`), constants declared inside arms feeding other chains in every
//! textual order (`feed`), one template x every define assignment (`def`), undecidable / non-boolean /
//! dead-arm corner programs (`edge`), and a sub-grid through `driver::drive` with `-d` spellings (`drive`).
//! Oracle: `c16_model::ifworld` (reference interpreter): bytes of the live arms in order + visible
//! integer symbols, or *an* error, or no verdict.
use super::c16_model::{ifworld, text_of, Item, Outcome, Verdict};
use crate::refx::{BinOp, RVal, UnOp, E, Z};
use crate::run;
use crate::stats::*;
use serde_json::{json, Value};
use std::collections::BTreeMap;

pub const ID: &str = "C16";

// ---------------------------------------------------------------------------------------------
// define values

#[derive(Clone, Copy, Debug, PartialEq, Eq, Hash)]
pub enum DV {
    /// `-dNAME` (means true)
    NoValue,
    Bool(bool),
    Int(i64),
    /// `0x10`: sized when it comes through the driver
    Hex10,
}

pub const DVALS: [DV; 7] = [DV::NoValue, DV::Bool(true), DV::Bool(false), DV::Int(0), DV::Int(1), DV::Int(-1), DV::Hex10];

impl DV {
    fn spelling(self) -> String {
        match self {
            DV::NoValue => String::new(),
            DV::Bool(b) => format!("={}", b),
            DV::Int(i) => format!("={}", i),
            DV::Hex10 => "=0x10".to_string(),
        }
    }
    fn model(self, through_driver: bool) -> RVal {
        match self {
            DV::NoValue => RVal::Bool(true),
            DV::Bool(b) => RVal::Bool(b),
            DV::Int(i) => RVal::Int(Z::from(i), None),
            DV::Hex10 => RVal::Int(Z::from(16), if through_driver { Some(8) } else { None }),
        }
    }
    fn real(self) -> run::DefVal {
        match self {
            DV::NoValue => run::DefVal::Bool(true),
            DV::Bool(b) => run::DefVal::Bool(b),
            DV::Int(i) => run::DefVal::Int(i),
            DV::Hex10 => run::DefVal::Int(16),
        }
    }
}

// ---------------------------------------------------------------------------------------------
// expression helpers

fn v(n: &str) -> E {
    E::var(n)
}
fn not(a: E) -> E {
    E::un(UnOp::Not, a)
}
fn eq(a: E, b: E) -> E {
    E::bin(BinOp::Eq, a, b)
}
fn ne(a: E, b: E) -> E {
    E::bin(BinOp::Ne, a, b)
}
fn gt(a: E, b: E) -> E {
    E::bin(BinOp::Gt, a, b)
}
fn and(a: E, b: E) -> E {
    E::bin(BinOp::LAnd, a, b)
}
fn or(a: E, b: E) -> E {
    E::bin(BinOp::LOr, a, b)
}
fn int(i: i64) -> E {
    E::int(i)
}
fn konst(n: &str, e: E) -> Item {
    Item::Const(n.to_string(), e)
}
fn label(n: &str) -> Item {
    Item::Label(n.to_string())
}
fn usen(n: &str) -> Item {
    Item::Use(n.to_string())
}

// ---------------------------------------------------------------------------------------------
// cases and the judge

#[derive(Clone)]
pub struct Case {
    family: &'static str,
    coord: String,
    prog: Vec<Item>,
    defines: Vec<(String, DV)>,
}

fn sym_table(obs_symbols: &[(String, String)]) -> BTreeMap<String, String> {
    // "0x1f" / "0x-1" -> decimal text
    let mut m = BTreeMap::new();
    for (n, val) in obs_symbols {
        let t = val.trim_start_matches("0x");
        let (neg, digits) = match t.strip_prefix('-') {
            Some(d) => (true, d),
            None => (false, t),
        };
        let z = Z::parse_bytes(digits.as_bytes(), 16).map(|z| if neg { -z } else { z });
        m.insert(n.clone(), z.map(|z| z.to_string()).unwrap_or_else(|| format!("?{}", val)));
    }
    m
}

fn bits_of_bytes(b: &[u8]) -> String {
    b.iter().map(|x| format!("{:08b}", x)).collect()
}

fn expected_json(o: &Outcome) -> Value {
    match &o.verdict {
        Verdict::Ok { bytes, symbols } => json!({"success": true, "bits": bits_of_bytes(bytes), "symbols": symbols}),
        Verdict::Error(r) => json!({"success": false, "reason": r}),
        Verdict::Unspec(r) => json!({"unspecified": r}),
    }
}

/// compare one in-process observation with the stored expectation (shared by run and replay)
fn disagreement(expected: &Value, obs: &run::Obs) -> Option<&'static str> {
    if expected.get("unspecified").is_some() {
        return None;
    }
    if expected["success"].as_bool() == Some(true) {
        if obs.panicked.is_some() {
            return Some("panic");
        }
        if !obs.success() {
            return Some("rejected");
        }
        if Some(obs.bits.as_str()) != expected["bits"].as_str() {
            return Some("wrong-bits");
        }
        let want: BTreeMap<String, String> = expected["symbols"].as_object().map(|o| o.iter().map(|(k, v)| (k.clone(), v.as_str().unwrap_or("").to_string())).collect()).unwrap_or_default();
        if sym_table(&obs.symbols) != want {
            return Some("wrong-symbols");
        }
        None
    } else if obs.success() {
        Some("accepted")
    } else {
        None
    }
}

fn record(o: &Outcome, l: &mut Local) {
    for s in &o.states {
        l.state(s);
    }
    l.transitions += o.splices;
    match &o.verdict {
        Verdict::Ok { .. } => l.class("ok"),
        Verdict::Error(r) => l.class(&format!("error:{}", r)),
        Verdict::Unspec(r) => {
            l.unspecified += 1;
            l.class(&format!("unspecified:{}", r));
        }
    }
    if o.define_applied {
        l.class("feature:define-replaced-a-constant");
    }
    if o.rounds > 2 {
        l.class("feature:more-than-one-round-of-splicing");
    }
}

fn violation_key(family: &str, o: &Outcome, how: &str) -> String {
    match &o.verdict {
        Verdict::Error("define-names-label") => "C16:define-names-label".to_string(),
        Verdict::Error(r) => format!("{}:{}:{}", family, r, how),
        _ => format!("{}:ok:{}", family, how),
    }
}

fn judge(c: &Case, l: &mut Local) {
    judge_b(c, 30, l)
}

/// long `#elif` chains and deep nestings, under small and default iteration budgets: deciding conditions from
/// constants is not a matter of the resolution budget
fn long_cases() -> Vec<(Case, usize)> {
    let m = |k: u8| Item::Marker(k);
    let mut out = vec![];
    for n in [2usize, 5, 9, 10, 11, 12, 16] {
        for sel in [0usize, n / 2, n - 1, n] {
            for has_else in [false, true] {
                let chain: Vec<(E, Vec<Item>)> = (0..n).map(|i| (eq(v("SEL"), int(i as i64)), vec![m(0x10 + i as u8), konst(&format!("ARM{}", i), int(i as i64))])).collect();
                let prog = vec![konst("SEL", int(sel as i64)), m(0x80), Item::If(chain, if has_else { Some(vec![m(0xee)]) } else { None }), m(0xff)];
                for budget in [2usize, 3, 10] {
                    out.push((Case { family: "long", coord: format!("chain n{} sel{} else{} iters{}", n, sel, has_else, budget), prog: prog.clone(), defines: vec![] }, budget));
                }
            }
        }
    }
    for depth in [2usize, 3, 4, 6, 10, 11, 12] {
        for innermost_decl in [false, true] {
            let mut body: Vec<Item> = vec![m(0x40 + depth as u8)];
            if innermost_decl {
                body.push(konst("DEEP", int(7)));
            }
            for d in (0..depth).rev() {
                body = vec![m(0x20 + d as u8), Item::If(vec![(eq(v("ON"), int(1)), body)], None)];
            }
            let mut prog = vec![konst("ON", int(1)), m(0x80)];
            prog.extend(body);
            if innermost_decl {
                prog.push(Item::Use("DEEP".into()));
            }
            prog.push(m(0xff));
            for budget in [2usize, 3, 10] {
                out.push((Case { family: "long", coord: format!("nest depth{} decl{} iters{}", depth, innermost_decl, budget), prog: prog.clone(), defines: vec![] }, budget));
            }
        }
    }
    out
}

fn judge_b(c: &Case, budget: usize, l: &mut Local) {
    judge_text(c, text_of(&c.prog), budget, l)
}

/// `text`: the program as written (the model reads `c.prog`, whose names are spelled out in full)
fn judge_text(c: &Case, text: String, budget: usize, l: &mut Local) {
    let mdefs: Vec<(String, RVal)> = c.defines.iter().map(|(n, d)| (n.clone(), d.model(false))).collect();
    let o = ifworld(&c.prog, &mdefs);
    let mut opts = run::Opts::iters(budget);
    opts.defines = c.defines.iter().map(|(n, d)| (n.clone(), d.real())).collect();
    l.eval();
    let obs = run::assemble_str(&text, &opts);
    record(&o, l);
    l.class(&format!("family:{}", c.family));
    if o.decided_by_constant || !c.defines.is_empty() || matches!(o.verdict, Verdict::Error(_)) {
        l.nontrivial(&(&text, &c.defines));
    }
    let exp = expected_json(&o);
    if std::env::var("C16_DEBUG").map(|d| c.coord.contains(&d)).unwrap_or(false) {
        eprintln!("DEBUG [{}]\n{}expected {} observed {}", c.coord, text, exp, obs.summary());
    }
    if !matches!(o.verdict, Verdict::Unspec(_)) {
        l.traces_validated += 1;
    }
    if let Some(how) = disagreement(&exp, &obs) {
        let dtext: Vec<String> = c.defines.iter().map(|(n, d)| format!("{}{}", n, d.spelling())).collect();
        l.violation(Violation {
            property: ID,
            key: violation_key(c.family, &o, how),
            what: format!("{} [{} {}] defines {:?}: model expects {}, real: {}", how, c.family, c.coord, dtext, exp, if obs.success() { format!("success hex={}", obs.hex()) } else { "failure".to_string() }),
            case: json!({"kind": "inproc", "family": c.family, "coord": c.coord, "program": text,
                "defines": c.defines.iter().map(|(n, d)| json!({"name": n, "value": format!("{:?}", d), "spelled": format!("-d{}{}", n, d.spelling())})).collect::<Vec<_>>(),
                "expected": exp, "observed": obs.summary()}),
        });
    }
    l.sample(|| json!({"family": c.family, "coord": c.coord, "program": text, "defines": c.defines.iter().map(|(n, d)| format!("-d{}{}", n, d.spelling())).collect::<Vec<_>>(), "expected": exp}));
}

// ---------------------------------------------------------------------------------------------
// family `relative`: the constants a condition reads are children of a symbol and are written relative to it
// (`.wide` for `config.wide`), in the constant that feeds the condition and in the condition itself; a global constant
// of the same last name exists or not. The model reads the program with every name spelled out in full.

fn relative_cases() -> Vec<(Case, String)> {
    let mut out = vec![];
    let m = |k: u8| Item::Marker(k);
    for depth2 in [false, true] {
    let pre = if depth2 { "config.grp" } else { "config" };
    let conds: Vec<(&str, E)> = vec![
        ("stride", eq(v(&format!("{}.stride", pre)), int(4))),
        ("wide", v(&format!("{}.wide", pre))),
        ("not-wide", not(v(&format!("{}.wide", pre)))),
        ("stride-and-twin", and(eq(v(&format!("{}.stride", pre)), int(4)), v("wide"))),
    ];
    for twin in 0..5usize {
        // 0 none, 1 `wide = false` first, 2 `wide = true` first, 3 `wide = false` last, 4 `wide = true` last
        for parent_is_label in [true, false] {
            for sub_wide in [true, false] {
                for (cname, cond) in &conds {
                    if *cname == "stride-and-twin" && twin == 0 {
                        continue;
                    }
                    for away in [false, true] {
                        for rel_const in [false, true] {
                            for rel_cond in [false, true] {
                                if rel_cond && away {
                                    continue;
                                }
                                for define in 0..3usize {
                                    let mut prog = vec![];
                                    if twin == 1 || twin == 2 {
                                        prog.push(konst("wide", E::Bool(twin == 2)));
                                    }
                                    prog.push(m(0x10));
                                    prog.push(if parent_is_label { label("config") } else { konst("config", int(1)) });
                                    if depth2 {
                                        prog.push(Item::Sub("config".into(), "grp".into(), int(1)));
                                    }
                                    prog.push(Item::Sub(pre.into(), "wide".into(), E::Bool(sub_wide)));
                                    prog.push(Item::Sub(pre.into(), "stride".into(), E::Tern(Box::new(v(&format!("{}.wide", pre))), Box::new(int(4)), Box::new(int(2)))));
                                    if away {
                                        prog.push(label("other"));
                                    }
                                    prog.push(Item::If(vec![(cond.clone(), vec![m(0x44)])], Some(vec![m(0x22)])));
                                    prog.push(usen(&format!("{}.stride", pre)));
                                    if twin == 3 || twin == 4 {
                                        prog.push(konst("wide", E::Bool(twin == 4)));
                                    }
                                    let defines: Vec<(String, DV)> = match define {
                                        0 => vec![],
                                        1 => vec![(format!("{}.wide", pre), DV::Bool(!sub_wide))],
                                        _ => {
                                            if twin == 0 {
                                                continue;
                                            }
                                            vec![("wide".to_string(), DV::Bool(sub_wide))]
                                        }
                                    };
                                    // the text: relative spellings where the writer is inside `config`
                                    let mut text = String::new();
                                    for line in text_of(&prog).lines() {
                                        // children of `config.grp` are declared and referred to with two dots
                                        let (full, dots) = if depth2 { ("config.grp.", "..") } else { ("config.", ".") };
                                        let line = if depth2 && (line.starts_with(".wide") || line.starts_with(".stride")) { format!(".{}", line) } else { line.to_string() };
                                        let t = if (rel_const && line.starts_with(&format!("{}stride", dots))) || (rel_cond && line.starts_with("#if")) { line.replace(full, dots) } else { line.to_string() };
                                        text += &t;
                                        text.push('\n');
                                    }
                                    let coord = format!("depth2-{} twin{} parent_label{} sub_wide{} cond-{} away{} rel_const{} rel_cond{} define{}", depth2, twin, parent_is_label, sub_wide, cname, away, rel_const, rel_cond, define);
                                    out.push((Case { family: "relative", coord, prog, defines }, text));
                                }
                            }
                        }
                    }
                }
            }
        }
    }
    }
    out
}

// ---------------------------------------------------------------------------------------------
// family `block-local`: a constant (or a condition) is written as a block that assigns a local variable; the local is
// named like a global constant that another condition reads, or not. A block's locals end with the block: the model
// reads the block as its value.

fn block_local_cases() -> Vec<(Case, String)> {
    let mut out = vec![];
    let m = |k: u8| Item::Marker(k);
    let orders: [[usize; 3]; 6] = [[0, 1, 2], [1, 0, 2], [1, 2, 0], [2, 1, 0], [0, 2, 1], [2, 0, 1]];
    for local in ["count", "tmp"] {
        for order in orders {
            for define in 0..3usize {
                for cond_chain in 0..3usize {
                    // 0 none, 1 a chain with a block condition before the main chain, 2 after it
                    let consts = [konst("count", int(3)), konst("mask", int(255)), konst("size", E::bin(BinOp::Mul, v("count"), int(2)))];
                    let mut prog = vec![m(0x10)];
                    for k in order {
                        prog.push(consts[k].clone());
                    }
                    let block_chain = Item::If(vec![(E::Bool(true), vec![m(0xcc)])], Some(vec![m(0xdd)]));
                    if cond_chain == 1 {
                        prog.push(block_chain.clone());
                    }
                    prog.push(Item::If(vec![(gt(v("size"), int(10)), vec![m(0xb1)])], Some(vec![m(0x51)])));
                    prog.push(Item::If(vec![(gt(v("count"), int(5)), vec![m(0xb2)])], Some(vec![m(0x52)])));
                    if cond_chain == 2 {
                        prog.push(block_chain.clone());
                    }
                    prog.push(usen("size"));
                    prog.push(usen("mask"));
                    let defines: Vec<(String, DV)> = match define {
                        0 => vec![],
                        1 => vec![("count".to_string(), DV::Int(1))],
                        _ => vec![("count".to_string(), DV::Int(-1))],
                    };
                    let mut text = String::new();
                    for line in text_of(&prog).lines() {
                        let t = if line == "mask = 255" {
                            format!("mask = {{ {l} = 8, (1 << {l}) - 1 }}", l = local)
                        } else if line == "#if true" {
                            format!("#if {{ {l} = 8, {l} > 5 }}", l = local)
                        } else {
                            line.to_string()
                        };
                        text += &t;
                        text.push('\n');
                    }
                    let coord = format!("local-{} order{:?} define{} cond_chain{}", local, order, define, cond_chain);
                    out.push((Case { family: "block-local", coord, prog, defines }, text));
                }
            }
        }
    }
    out
}

// ---------------------------------------------------------------------------------------------
// family `include-in-arm`: an `#include` directive is content of the arm it stands in: the file's text counts where the
// directive is when the arm is live, and nothing of it when the arm is dead (not even whether the file exists).
// The model reads the program with the included text written out in place.

struct IncCase {
    c: Case,
    text: String,
    files: Vec<(String, Vec<u8>)>,
    /// the same program with the directive simply dropped (what "the directive is ignored" would give)
    without: Vec<Item>,
}

fn include_in_arm_cases() -> Vec<IncCase> {
    let mut out = vec![];
    let m = |k: u8| Item::Marker(k);
    // included texts: (name, items it stands for, file text or None = the file does not exist)
    let incs: Vec<(&str, Vec<Item>, Option<&str>)> = vec![
        ("marker", vec![m(0x77)], Some("#d8 0x77\n")),
        ("constant", vec![konst("K", int(5))], Some("K = 5\n")),
        ("missing-file", vec![], None),
    ];
    for (iname, iitems, ifile) in &incs {
        for place in 0..5usize {
            // 0 live first arm, 1 dead first arm (else live), 2 live else arm, 3 nested live arm, 4 top level (control)
            for a_val in [true, false] {
                let live = match place {
                    0 | 3 => a_val,
                    1 => a_val,
                    2 => !a_val,
                    _ => true,
                };
                let placeholder = Item::Func("__include_here__".into());
                let arm_with = |mark: u8| vec![m(mark), placeholder.clone(), m(mark + 1)];
                let chain = match place {
                    0 | 1 => Item::If(vec![(v("A"), arm_with(0x20))], Some(vec![m(0x30)])),
                    2 => Item::If(vec![(v("A"), vec![m(0x20)])], Some(arm_with(0x30))),
                    3 => Item::If(vec![(v("A"), vec![Item::If(vec![(E::Bool(true), arm_with(0x20))], None)])], Some(vec![m(0x30)])),
                    _ => Item::If(vec![(v("A"), vec![m(0x20)])], Some(vec![m(0x30)])),
                };
                let mut skeleton = vec![konst("A", E::Bool(a_val)), m(0x10), chain];
                if place == 4 {
                    skeleton.push(placeholder.clone());
                }
                if *iname == "constant" {
                    skeleton.push(Item::If(vec![(eq(v("K"), int(5)), vec![m(0x55)])], Some(vec![m(0x66)])));
                }
                skeleton.push(m(0x40));
                if *iname == "constant" && !live {
                    continue; // K would be undeclared: another family's subject
                }
                if *iname == "missing-file" && live {
                    // a live directive naming a missing file is an error: stated by hand below
                }
                fn subst(items: &[Item], with: &[Item]) -> Vec<Item> {
                    let mut o = vec![];
                    for it in items {
                        match it {
                            Item::Func(n) if n == "__include_here__" => o.extend(with.iter().cloned()),
                            Item::If(chain, els) => o.push(Item::If(chain.iter().map(|(c, b)| (c.clone(), subst(b, with))).collect(), els.as_ref().map(|b| subst(b, with)))),
                            other => o.push(other.clone()),
                        }
                    }
                    o
                }
                let prog = subst(&skeleton, iitems);
                let without = subst(&skeleton, &[]);
                let text = text_of(&skeleton).replace("#fn __include_here__(x) => x + 1", "#include \"inc.asm\"");
                let mut files = vec![("main.asm".to_string(), text.clone().into_bytes())];
                if let Some(t) = ifile {
                    files.push(("inc.asm".to_string(), t.as_bytes().to_vec()));
                }
                let coord = format!("{} place{} A={} live={}", iname, place, a_val, live);
                out.push(IncCase { c: Case { family: "include-in-arm", coord, prog, defines: vec![] }, text, files, without });
            }
        }
    }
    out
}

fn judge_include_in_arm(ic: &IncCase, l: &mut Local) {
    let c = &ic.c;
    let missing_live = c.coord.starts_with("missing-file") && c.coord.ends_with("live=true");
    let o = ifworld(&c.prog, &[]);
    let opts = run::Opts::iters(30);
    l.eval();
    let obs = run::assemble_files(&ic.files, &["main.asm"], &opts);
    record(&o, l);
    l.class(&format!("family:{}", c.family));
    l.nontrivial(&ic.text);
    let exp = if missing_live { json!({"success": false, "error": "the included file does not exist"}) } else { expected_json(&o) };
    if !matches!(o.verdict, Verdict::Unspec(_)) {
        l.traces_validated += 1;
    }
    if let Some(how) = disagreement(&exp, &obs) {
        // input-side classification of the recorded finding: the observation is exactly that of the program with the
        // directive dropped
        let ignored = disagreement(&expected_json(&ifworld(&ic.without, &[])), &obs).is_none() && c.coord.contains("place") && !c.coord.contains("place4");
        let key = if ignored { "C16:include-directive-inside-an-arm-is-ignored".to_string() } else { violation_key(c.family, &o, how) };
        l.violation(Violation {
            property: ID,
            key,
            what: format!("{} [{} {}]: model expects {}, real: {}", how, c.family, c.coord, exp, if obs.success() { format!("success hex={}", obs.hex()) } else { "failure".to_string() }),
            case: json!({"kind": "include-in-arm", "family": c.family, "coord": c.coord, "program": ic.text, "files": ic.files.iter().map(|(n, b)| json!([n, String::from_utf8_lossy(b)])).collect::<Vec<_>>(), "expected": exp, "observed": obs.summary()}),
        });
    }
}

// ---------------------------------------------------------------------------------------------
// family `ruledef-in-arm`: a rule block is content of the arm it stands in like anything else: its rules exist when the
// arm is live (whatever other rule blocks, named or not, stand before or after it) and do not when it is dead.
// The model sees the instructions as the bytes they stand for.

fn ruledef_in_arm_cases() -> Vec<(Case, String)> {
    let mut out = vec![];
    let m = |k: u8| Item::Marker(k);
    for live in [true, false] {
        for arm_first in [true, false] {
            for nested in [false, true] {
                for arm_named in [false, true] {
                    for top_blocks in 0..3usize {
                        // 0: no rule block at the top level, 1: one anonymous, 2: one anonymous and one named
                        let arm_block = Item::Func("__rd_arm__".into());
                        let inner = if nested { vec![Item::If(vec![(E::Bool(true), vec![arm_block.clone(), m(0x31)])], None)] } else { vec![arm_block.clone(), m(0x31)] };
                        let chain = Item::If(vec![(v("A"), inner)], Some(vec![m(0x32)]));
                        let mut prog = vec![konst("A", E::Bool(live)), m(0x10)];
                        let tops: Vec<Item> = (0..top_blocks).map(|k| Item::Func(format!("__rd_top{}__", k))).collect();
                        if arm_first {
                            prog.push(chain);
                            prog.extend(tops.iter().cloned());
                        } else {
                            prog.extend(tops.iter().cloned());
                            prog.push(chain);
                        }
                        if live {
                            prog.push(m(0x11));
                        }
                        if top_blocks >= 1 {
                            prog.push(m(0x22));
                        }
                        if top_blocks >= 2 {
                            prog.push(m(0x23));
                        }
                        prog.push(m(0x40));
                        let mut text = String::new();
                        for line in text_of(&prog).lines() {
                            let t = line.trim_start();
                            let pad = &line[..line.len() - t.len()];
                            let r = match t {
                                "#fn __rd_arm__(x) => x + 1" => format!("#ruledef{}\n{}{{\n{}    one => 0x11\n{}}}", if arm_named { " armrules" } else { "" }, pad, pad, pad),
                                "#fn __rd_top0__(x) => x + 1" => format!("#ruledef\n{}{{\n{}    two => 0x22\n{}}}", pad, pad, pad),
                                "#fn __rd_top1__(x) => x + 1" => format!("#ruledef toprules\n{}{{\n{}    three => 0x23\n{}}}", pad, pad, pad),
                                "#d8 0x11" => "one".to_string(),
                                "#d8 0x22" => "two".to_string(),
                                "#d8 0x23" => "three".to_string(),
                                other => other.to_string(),
                            };
                            text += pad;
                            text += &r;
                            text.push('\n');
                        }
                        let coord = format!("live{} arm_first{} nested{} arm_named{} top_blocks{}", live, arm_first, nested, arm_named, top_blocks);
                        out.push((Case { family: "ruledef-in-arm", coord, prog, defines: vec![] }, text));
                    }
                }
            }
        }
    }
    out
}

// ---------------------------------------------------------------------------------------------
// family `tree`: condition trees

#[derive(Clone, Debug)]
struct Shape {
    nconds: usize,
    has_else: bool,
    /// at most one arm carries a nested chain (after its marker and label)
    nested: Option<(usize, Box<Shape>)>,
}

fn shapes(depth: usize) -> Vec<Shape> {
    let mut out = vec![];
    let inner = if depth > 1 { shapes(depth - 1) } else { vec![] };
    for (nconds, has_else) in [(1, false), (1, true), (2, false), (2, true)] {
        out.push(Shape { nconds, has_else, nested: None });
        let arms = nconds + has_else as usize;
        for a in 0..arms {
            for s in &inner {
                out.push(Shape { nconds, has_else, nested: Some((a, Box::new(s.clone()))) });
            }
        }
    }
    out
}

fn slots(s: &Shape) -> usize {
    s.nconds + s.nested.as_ref().map(|(_, n)| slots(n)).unwrap_or(0)
}

struct Ctr {
    marker: u8,
    label: usize,
}
impl Ctr {
    fn new() -> Ctr {
        Ctr { marker: 0x80, label: 0 }
    }
    fn m(&mut self) -> Item {
        self.marker += 1;
        Item::Marker(self.marker)
    }
    fn l(&mut self) -> Item {
        self.label += 1;
        Item::Label(format!("l{}", self.label))
    }
}

fn build_tree(s: &Shape, conds: &mut dyn Iterator<Item = E>, k: &mut Ctr) -> Item {
    let arms = s.nconds + s.has_else as usize;
    let mut bodies = vec![];
    let mut cs = vec![];
    for a in 0..arms {
        if a < s.nconds {
            cs.push(conds.next().unwrap());
        }
        let mut body = vec![k.m(), k.l()];
        if let Some((na, ns)) = &s.nested {
            if *na == a {
                body.push(build_tree(ns, conds, k));
                body.push(k.m());
            }
        }
        bodies.push(body);
    }
    let els = if s.has_else { bodies.pop() } else { None };
    Item::If(cs.into_iter().zip(bodies).collect(), els)
}

fn bool_forms() -> Vec<E> {
    vec![v("A"), not(v("A")), v("B"), and(v("A"), v("B")), or(v("C"), v("A")), eq(v("B"), v("C"))]
}
fn int_forms() -> Vec<E> {
    vec![eq(v("A"), int(1)), gt(v("B"), v("A")), ne(v("C"), v("A")), eq(E::bin(BinOp::Sub, v("B"), int(1)), v("C"))]
}

/// A family is an index space plus a decoder, so that no case list has to be materialised.
pub struct Family {
    n: u64,
    make: Box<dyn Fn(u64) -> Case + Sync + Send>,
}

fn tree_family(thorough: bool) -> Family {
    let depth = if thorough { 3 } else { 2 };
    let all = shapes(depth);
    // blocks: (first index, shape, mode, radices)
    let mut blocks: Vec<(u64, usize, usize, Vec<u64>)> = vec![];
    let mut total = 0u64;
    for (si, s) in all.iter().enumerate() {
        let n = slots(s);
        for mode in 0..2usize {
            let nf: u64 = if n > 4 { 3 } else if mode == 0 { 6 } else { 4 };
            let nv: u64 = if mode == 0 { 2 } else { 3 };
            let mut radices = vec![nf; n];
            radices.extend([nv, nv, nv, 3]);
            let cnt = product(&radices);
            blocks.push((total, si, mode, radices));
            total += cnt;
        }
    }
    let make = move |idx: u64| -> Case {
        let b = blocks.partition_point(|b| b.0 <= idx) - 1;
        let (start, si, mode, radices) = &blocks[b];
        let s = &all[*si];
        let n = slots(s);
        let d = decode(idx - start, radices);
        let mut forms = if *mode == 0 { bool_forms() } else { int_forms() };
        if n > 4 {
            forms.truncate(3);
        }
        let vals: Vec<E> = if *mode == 0 { vec![E::Bool(true), E::Bool(false)] } else { vec![int(0), int(1), int(-1)] };
        let mut conds = d[..n].iter().map(|f| forms[*f as usize].clone());
        let mut k = Ctr::new();
        // placement 0: constants before the tree; 1: after it; 2: after it, A through a chain of aliases
        // written in reverse dependency order (needs several rounds of constant resolution)
        let consts = if d[n + 3] == 2 {
            vec![konst("A", v("A1")), konst("B", vals[d[n + 1] as usize].clone()), konst("A1", v("A2")), konst("C", vals[d[n + 2] as usize].clone()), konst("A2", vals[d[n] as usize].clone())]
        } else {
            vec![konst("A", vals[d[n] as usize].clone()), konst("B", vals[d[n + 1] as usize].clone()), konst("C", vals[d[n + 2] as usize].clone())]
        };
        let mut prog = vec![];
        if d[n + 3] == 0 {
            prog.extend(consts.clone());
        }
        prog.push(Item::Marker(0x80));
        prog.push(build_tree(s, &mut conds, &mut k));
        prog.push(Item::Marker(0xff));
        prog.push(label("end"));
        if d[n + 3] >= 1 {
            prog.extend(consts);
        }
        Case { family: "tree", coord: format!("shape{} mode{} idx{}", si, mode, idx - start), prog, defines: vec![] }
    };
    Family { n: total, make: Box::new(make) }
}

// ---------------------------------------------------------------------------------------------
// family `feed`: constants declared inside arms decide other chains, in every textual order

fn feed_cases(thorough: bool) -> Vec<Case> {
    let mut out = vec![];
    let xs: Vec<i64> = if thorough { vec![0, 1, 2, 3] } else { vec![1, 2, 3] };
    let ys: Vec<i64> = if thorough { vec![0, 1, 2] } else { vec![1, 2] };
    let nx = xs.len() as u64;
    let ny = ys.len() as u64;
    // va, x0, x1, else0, kind1, y0, y1, y2, layout(0..10), apos, tail
    let radices = [2, nx, nx, 2, 4, ny, ny, ny, 10, 2, 3];
    let perms = permutations(3);
    for idx in 0..product(&radices) {
        let d = decode(idx, &radices);
        let mut k = Ctr::new();
        let va = E::Bool(d[0] == 0);
        let (x0, x1) = (xs[d[1] as usize], xs[d[2] as usize]);
        let else0 = d[3] == 1;
        let (n1, else1) = [(1, false), (1, true), (2, false), (2, true)][d[4] as usize];
        let yv = [ys[d[5] as usize], ys[d[6] as usize], ys[d[7] as usize]];
        // block 1: X decides, declares Y
        let mut chain1 = vec![];
        for i in 0..n1 {
            chain1.push((eq(v("X"), int(i as i64 + 1)), vec![k.m(), konst("Y", int(yv[i]))]));
        }
        let b1 = Item::If(chain1, if else1 { Some(vec![k.m(), konst("Y", int(yv[2]))]) } else { None });
        // block 2: Y decides
        let b2 = Item::If(vec![(eq(v("Y"), int(1)), vec![k.m(), label("ly")]), (gt(v("Y"), int(1)), vec![k.m()])], Some(vec![k.m()]));
        // block 0: A decides, declares X; layouts 6/7 nest block 1 before X, 8/9 after X
        let layout = d[8] as usize;
        let mut arm0 = vec![k.m()];
        if layout == 6 || layout == 7 {
            arm0.push(b1.clone());
        }
        arm0.push(konst("X", int(x0)));
        if layout == 8 || layout == 9 {
            arm0.push(b1.clone());
        }
        let b0 = Item::If(vec![(v("A"), arm0)], if else0 { Some(vec![k.m(), konst("X", int(x1))]) } else { None });
        let blocks: Vec<Item> = if layout < 6 {
            let all = [b0, b1, b2];
            perms[layout].iter().map(|i| all[*i].clone()).collect()
        } else if layout % 2 == 0 {
            vec![b0, b2]
        } else {
            vec![b2, b0]
        };
        let mut prog = vec![];
        if d[9] == 0 {
            prog.push(konst("A", va.clone()));
        }
        prog.push(Item::Marker(0x80));
        prog.extend(blocks);
        prog.push(Item::Marker(0xff));
        match d[10] {
            1 => prog.push(usen("X")),
            2 => prog.push(usen("Y")),
            _ => {}
        }
        prog.push(label("end"));
        if d[9] == 1 {
            prog.push(konst("A", va));
        }
        out.push(Case { family: "feed", coord: format!("idx{}", idx), prog, defines: vec![] });
    }
    out
}

// ---------------------------------------------------------------------------------------------
// family `ref`: live code mentions a label / constant declared in one arm of a decided tree

fn build_ref_tree(s: &Shape, conds: &mut dyn Iterator<Item = E>, k: &mut Ctr, names: &mut Vec<(String, String)>) -> Item {
    let arms = s.nconds + s.has_else as usize;
    let mut bodies = vec![];
    let mut cs = vec![];
    for a in 0..arms {
        if a < s.nconds {
            cs.push(conds.next().unwrap());
        }
        let m = k.m();
        let Item::Label(ln) = k.l() else { unreachable!() };
        let kn = format!("k{}", k.label);
        let mut body = vec![m, Item::Label(ln.clone()), konst(&kn, int(k.label as i64 + 0x20))];
        names.push((ln, kn));
        if let Some((na, ns)) = &s.nested {
            if *na == a {
                body.push(build_ref_tree(ns, conds, k, names));
                body.push(k.m());
            }
        }
        bodies.push(body);
    }
    let els = if s.has_else { bodies.pop() } else { None };
    Item::If(cs.into_iter().zip(bodies).collect(), els)
}

fn ref_cases(thorough: bool) -> Vec<Case> {
    let mut out = vec![];
    for (si, s) in shapes(if thorough { 3 } else { 2 }).iter().enumerate() {
        let n = slots(s);
        for mask in 0..(1u64 << n) {
            // condition j is the constant T (true) or F (false)
            let mut names = vec![];
            let mut conds = (0..n).map(|j| if mask >> j & 1 == 1 { v("T") } else { v("F") });
            let mut k = Ctr::new();
            let tree = build_ref_tree(s, &mut conds, &mut k, &mut names);
            for (ai, (ln, kn)) in names.iter().enumerate() {
                for kind in 0..4 {
                    for before in 0..2 {
                        let mention = match kind {
                            0 => usen(ln),
                            1 => usen(kn),
                            2 => konst("R", v(kn)),
                            _ => konst("R", v(ln)),
                        };
                        let mut prog = vec![konst("T", E::Bool(true))];
                        if before == 1 {
                            prog.push(mention.clone());
                        }
                        prog.push(Item::Marker(0x80));
                        prog.push(tree.clone());
                        prog.push(Item::Marker(0xff));
                        if before == 0 {
                            prog.push(mention);
                        }
                        prog.push(konst("F", E::Bool(false)));
                        out.push(Case { family: "ref", coord: format!("shape{} mask{} arm{} kind{} before{}", si, mask, ai, kind, before), prog, defines: vec![] });
                    }
                }
            }
        }
    }
    out
}

// ---------------------------------------------------------------------------------------------
// family `def`: one template x every define assignment

fn def_c1() -> Vec<E> {
    vec![v("A"), not(v("A")), eq(v("A"), int(1)), and(v("A"), v("B")), gt(v("B"), v("A"))]
}
fn def_c2(thorough: bool) -> Vec<E> {
    let mut f = vec![v("B"), eq(v("B"), v("A")), eq(v("C"), int(1)), gt(v("a.b"), int(0))];
    if thorough {
        f.push(not(v("B")));
        f.push(or(v("B"), v("C")));
    }
    f
}

/// cplace: 0 = C at top level after the tree, 1/2/3 = C inside arm 1/2/3 of the tree, 4 = C not declared
fn def_template(c1: &E, c2: &E, cplace: usize, base: usize) -> Vec<Item> {
    let (va, vb) = [(E::Bool(true), E::Bool(false)), (int(0), int(1)), (E::Bool(false), int(1))][base].clone();
    let mut arm1 = vec![Item::Marker(0x81)];
    let mut arm2 = vec![Item::Marker(0x82)];
    let mut arm3 = vec![Item::Marker(0x83)];
    match cplace {
        1 => arm1.push(konst("C", int(1))),
        2 => arm2.push(konst("C", int(1))),
        3 => arm3.push(konst("C", int(1))),
        _ => {}
    }
    arm1.push(konst("LIVE1", int(5)));
    arm1.push(label("ll1"));
    let mut p = vec![
        konst("D", v("A")),
        konst("A", va),
        konst("B", vb),
        label("a"),
        Item::Sub("a".into(), "b".into(), int(0)),
        label("lab"),
        Item::Func("fun".into()),
        // an integer constant that is emitted as data: a define must reach the data as well as the conditions
        konst("N", int(3)),
        Item::Use("N".into()),
        // ... and a DERIVED integer constant (its declaration is not a literal): a define replaces it just the same
        konst("N2", E::bin(BinOp::Add, v("N"), int(1))),
        Item::Use("N2".into()),
        Item::Marker(0x80),
        Item::If(vec![(c1.clone(), arm1), (c2.clone(), arm2)], Some(arm3)),
    ];
    if cplace == 0 {
        p.push(konst("C", int(0)));
    }
    p.push(Item::If(vec![(eq(v("a.b"), int(1)), vec![Item::Marker(0x84)])], None));
    p.push(Item::If(vec![(E::Bool(false), vec![konst("DEADK", int(1)), label("deadl")])], None));
    p.push(Item::Marker(0xff));
    p.push(label("end"));
    p
}

fn def_extras() -> Vec<Option<(&'static str, DV)>> {
    vec![
        None,
        Some(("a.b", DV::Int(1))),
        Some(("a.b", DV::NoValue)),
        Some(("a", DV::Int(1))),
        Some(("Q", DV::Int(1))),
        Some(("DEADK", DV::Int(1))),
        Some(("lab", DV::Int(7))),
        Some(("LIVE1", DV::Int(6))),
        Some(("fun", DV::Int(5))),
        Some(("N", DV::Int(9))),
        Some(("N2", DV::Int(20))),
    ]
}

fn def_family(thorough: bool) -> Family {
    let c1s = def_c1();
    let c2s = def_c2(thorough);
    let extras = def_extras();
    // extra, A, B, C, base, cplace, c2, c1
    let radices: Vec<u64> = vec![extras.len() as u64, 8, 8, 8, if thorough { 3 } else { 2 }, 5, c2s.len() as u64, c1s.len() as u64];
    let n = product(&radices);
    let make = move |idx: u64| -> Case {
        let d = decode(idx, &radices);
        let opt = |i: u64| if i == 0 { None } else { Some(DVALS[i as usize - 1]) };
        let prog = def_template(&c1s[d[7] as usize], &c2s[d[6] as usize], d[5] as usize, d[4] as usize);
        let mut defines = vec![];
        // canonical order of the options: extra, C, B, A
        if let Some((n, dv)) = &extras[d[0] as usize] {
            defines.push((n.to_string(), *dv));
        }
        if let Some(dv) = opt(d[3]) {
            defines.push(("C".to_string(), dv));
        }
        if let Some(dv) = opt(d[2]) {
            defines.push(("B".to_string(), dv));
        }
        if let Some(dv) = opt(d[1]) {
            defines.push(("A".to_string(), dv));
        }
        Case { family: "def", coord: format!("c1={} c2={} cplace={} base={} A{} B{} C{} x{}", d[7], d[6], d[5], d[4], d[1], d[2], d[3], d[0]), prog, defines }
    };
    Family { n, make: Box::new(make) }
}

// ---------------------------------------------------------------------------------------------
// family `edge`: undecidable / non-boolean conditions at every chain position, dead-arm names

fn edge_conditions() -> Vec<(&'static str, Vec<Item>, E, Vec<Item>)> {
    // (name, prelude that may go before or after, condition, fixed prelude that stays in front)
    let dead_decl = Item::If(vec![(E::Bool(false), vec![konst("DK", E::Bool(true))])], None);
    vec![
        ("lit-int-1", vec![], int(1), vec![]),
        ("lit-int-0", vec![], int(0), vec![]),
        ("const-int", vec![konst("N", int(1))], v("N"), vec![]),
        ("not-of-int", vec![konst("N", int(0))], not(v("N")), vec![]),
        ("label", vec![], v("lb"), vec![label("lb")]),
        ("label-eq", vec![], eq(v("lb"), int(0)), vec![label("lb")]),
        ("label-forward", vec![label("lf")], eq(v("lf"), int(1)), vec![]),
        ("const-of-label", vec![konst("P", v("lb"))], eq(v("P"), int(0)), vec![label("lb")]),
        ("undeclared", vec![], v("Q"), vec![]),
        ("undeclared-eq", vec![], eq(v("Q"), int(1)), vec![]),
        ("self-cycle", vec![konst("x", v("x"))], v("x"), vec![]),
        ("dead-arm-name", vec![dead_decl], v("DK"), vec![]),
        ("address", vec![], eq(v("$"), int(0)), vec![]),
        ("bool-eq-int", vec![konst("T", E::Bool(true))], eq(v("T"), int(1)), vec![]),
        ("lazy-and-unknown", vec![konst("F", E::Bool(false))], and(v("F"), v("Q")), vec![]),
        ("unknown-and-false", vec![konst("F", E::Bool(false))], and(v("Q"), v("F")), vec![]),
        ("control-true", vec![konst("T", E::Bool(true))], v("T"), vec![]),
        ("control-false", vec![konst("F", E::Bool(false))], v("F"), vec![]),
        ("control-int-eq", vec![konst("N", int(1))], eq(v("N"), int(1)), vec![]),
    ]
}

fn edge_cases() -> Vec<Case> {
    let mut out = vec![];
    let m = |k: u8| Item::Marker(k);
    for (name, movable, cond, fixed) in edge_conditions() {
        for pos in 0..6 {
            let chain = match pos {
                0 => Item::If(vec![(cond.clone(), vec![m(0x81), label("l1")])], Some(vec![m(0x82)])),
                1 => Item::If(vec![(E::Bool(false), vec![m(0x81)]), (cond.clone(), vec![m(0x82), label("l2")])], Some(vec![m(0x83)])),
                2 => Item::If(vec![(E::Bool(true), vec![m(0x81)]), (cond.clone(), vec![m(0x82), label("l2")])], None),
                3 => Item::If(vec![(E::Bool(true), vec![m(0x81), Item::If(vec![(cond.clone(), vec![m(0x82), label("l2")])], None), m(0x83)])], None),
                4 => Item::If(vec![(E::Bool(false), vec![m(0x81), Item::If(vec![(cond.clone(), vec![m(0x82), label("l2")])], None), usen("nowhere")])], Some(vec![m(0x83)])),
                _ => Item::If(vec![(E::Bool(false), vec![m(0x81)])], Some(vec![m(0x82), Item::If(vec![(cond.clone(), vec![m(0x83)])], Some(vec![m(0x84)]))])),
            };
            for place in 0..2 {
                // ends: 0 = markers around the chain, 1 = chain is the first item, 2 = chain is the last item, 3 = both
                for ends in 0..4 {
                    let mut prog = vec![];
                    if ends & 1 == 0 {
                        prog.extend(fixed.clone());
                        if place == 0 {
                            prog.extend(movable.clone());
                        }
                        prog.push(m(0x80));
                    }
                    prog.push(chain.clone());
                    if ends & 1 == 1 {
                        prog.extend(fixed.clone());
                        if place == 0 {
                            prog.extend(movable.clone());
                        }
                    }
                    if place == 1 {
                        prog.extend(movable.clone());
                    }
                    if ends & 2 == 0 {
                        prog.push(m(0xff));
                    } else if place == 1 || ends & 1 == 1 {
                        // make the chain the last item: move everything that follows it in front
                        let ci = prog.iter().position(|it| *it == chain).unwrap();
                        let tail: Vec<Item> = prog.drain(ci + 1..).collect();
                        let head: Vec<Item> = prog.drain(..ci).collect();
                        let mut np = head;
                        np.extend(tail);
                        np.push(chain.clone());
                        prog = np;
                    }
                    out.push(Case { family: "edge", coord: format!("{} pos{} place{} ends{}", name, pos, place, ends), prog, defines: vec![] });
                }
            }
        }
    }
    // a name declared in a dead arm (as constant / label), optionally also at top level, optionally defined, optionally used
    for dead_kind in 0..2 {
        for top_kind in 0..3 {
            for top_after in 0..2 {
                for define in 0..3 {
                    for used in 0..2 {
                        let dead = if dead_kind == 0 { konst("K", int(2)) } else { label("K") };
                        let mut prog = vec![m(0x80)];
                        let top = match top_kind {
                            0 => Some(konst("K", int(3))),
                            1 => Some(label("K")),
                            _ => None,
                        };
                        if top_after == 0 {
                            prog.extend(top.clone());
                        }
                        prog.push(Item::If(vec![(E::Bool(false), vec![m(0x81), dead])], Some(vec![m(0x82)])));
                        if used == 1 {
                            prog.push(usen("K"));
                        }
                        if top_after == 1 {
                            prog.extend(top);
                        }
                        prog.push(m(0xff));
                        let defines = match define {
                            1 => vec![("K".to_string(), DV::Int(5))],
                            2 => vec![("K".to_string(), DV::NoValue)],
                            _ => vec![],
                        };
                        out.push(Case { family: "edge", coord: format!("dead-name dead{} top{} after{} define{} used{}", dead_kind, top_kind, top_after, define, used), prog, defines });
                    }
                }
            }
        }
    }
    // hierarchical constant `p.q` declared inside a live / dead arm, defined from the command line, feeding a second chain
    for live in 0..2 {
        for define in 0..4 {
            for want in [1i64, 5] {
                for second_first in 0..2 {
                  // parent_outside: the parent label `p` stands before the chain, only `.q` is declared inside the arm
                  for parent_outside in 0..2 {
                    let holder = if parent_outside == 1 {
                        Item::If(vec![(E::Bool(live == 1), vec![m(0x81), Item::Sub("p".into(), "q".into(), int(1)), m(0x82)])], None)
                    } else {
                        Item::If(vec![(E::Bool(live == 1), vec![m(0x81), label("p"), Item::Sub("p".into(), "q".into(), int(1)), m(0x82)])], None)
                    };
                    let second = Item::If(vec![(eq(v("p.q"), int(want)), vec![m(0x83)])], Some(vec![m(0x84)]));
                    let mut prog = vec![m(0x80)];
                    if second_first == 1 {
                        prog.push(second.clone());
                    }
                    if parent_outside == 1 {
                        prog.push(label("p"));
                    }
                    prog.push(holder);
                    if second_first == 0 {
                        prog.push(second);
                    }
                    if parent_outside == 1 {
                        prog.push(Item::Use("p.q".into()));
                    }
                    prog.push(m(0xff));
                    let defines = match define {
                        1 => vec![("p.q".to_string(), DV::Int(5))],
                        2 => vec![("p.q".to_string(), DV::NoValue)],
                        3 => vec![("p".to_string(), DV::Int(1))],
                        _ => vec![],
                    };
                    out.push(Case { family: "edge", coord: format!("hier live{} define{} want{} second_first{} parent_outside{}", live, define, want, second_first, parent_outside), prog, defines });
                  }
                }
            }
        }
    }
    out
}

// ---------------------------------------------------------------------------------------------
// family `drive`: the same template through `driver::drive` with the documented `-d` spellings

#[derive(Clone)]
struct DriveCase {
    coord: String,
    prog: Vec<Item>,
    defines: Vec<(String, DV)>,
    style: usize,
}

fn drive_args(defines: &[(String, DV)], style: usize) -> Vec<String> {
    if style == 3 {
        // the defines stand in the FIRST of two output groups: a global option counts wherever it appears
        let mut a = vec!["main.asm".to_string(), "-q".to_string()];
        for (n, d) in defines {
            a.push(format!("-d{}{}", n, d.spelling()));
        }
        a.extend(["-f", "hexstr", "-o", "out.txt", "--", "-f", "binary", "-o", "out2.bin"].iter().map(|s| s.to_string()));
        return a;
    }
    let mut a = vec!["main.asm".to_string(), "-q".to_string(), "-f".to_string(), "hexstr".to_string(), "-o".to_string(), "out.txt".to_string()];
    for (n, d) in defines {
        let nv = format!("{}{}", n, d.spelling());
        match style {
            0 | 4 => a.push(format!("-d{}", nv)),
            1 => a.push(format!("--define={}", nv)),
            _ => {
                // detached form, as used by the repository's own driver tests
                a.push("--define".to_string());
                a.push(nv);
            }
        }
    }
    if style == 4 {
        // a define is final under every documented option
        a.push("--debug-no-optimize-static".to_string());
    }
    a
}

fn drive_cases(thorough: bool) -> Vec<DriveCase> {
    let mut out = vec![];
    let c1s = def_c1();
    let c2s = def_c2(false);
    let extras = [None, Some(("lab", DV::Int(7))), Some(("Q", DV::Int(1))), Some(("a.b", DV::Int(1))), Some(("DEADK", DV::NoValue)), Some(("LIVE1", DV::Hex10)), Some(("fun", DV::Int(5))), Some(("N", DV::Int(9))), Some(("N2", DV::Int(20)))];
    let bopts: Vec<Option<DV>> = if thorough { std::iter::once(None).chain(DVALS.iter().map(|d| Some(*d))).collect() } else { vec![None, Some(DV::Int(1)), Some(DV::Bool(true))] };
    for (i1, c1) in c1s.iter().enumerate() {
        for (i2, c2) in c2s.iter().enumerate().take(if thorough { 4 } else { 2 }) {
            for cplace in [0usize, 1] {
                let prog = def_template(c1, c2, cplace, 0);
                for da in 0..8usize {
                    for (bi, db) in bopts.iter().enumerate() {
                        for (xi, x) in extras.iter().enumerate() {
                            for style in 0..5 {
                                let mut defines = vec![];
                                if let Some((n, d)) = x {
                                    defines.push((n.to_string(), *d));
                                }
                                if let Some(d) = db {
                                    defines.push(("B".to_string(), *d));
                                }
                                if da > 0 {
                                    defines.push(("A".to_string(), DVALS[da - 1]));
                                }
                                if defines.is_empty() && style > 0 {
                                    continue;
                                }
                                out.push(DriveCase { coord: format!("c1={} c2={} cplace={} A{} B{} x{} style{}", i1, i2, cplace, da, bi, xi, style), prog: prog.clone(), defines, style });
                            }
                        }
                    }
                }
            }
        }
    }
    out
}

fn drive_disagreement(expected: &Value, d: &run::DriveObs) -> Option<&'static str> {
    if expected.get("unspecified").is_some() {
        return None;
    }
    if expected["success"].as_bool() == Some(true) {
        if d.panicked.is_some() {
            return Some("panic");
        }
        if !d.ok {
            return Some("rejected");
        }
        let want = run::bits_to_hex(expected["bits"].as_str().unwrap_or(""));
        match d.written.iter().find(|(n, _)| n == "out.txt") {
            Some((_, b)) if String::from_utf8_lossy(b) == want => None,
            _ => Some("wrong-bits"),
        }
    } else if d.ok && !d.has_errors && d.panicked.is_none() {
        Some("accepted")
    } else if d.panicked.is_none() && (d.ok || d.written.iter().any(|(n, _)| n == "out.txt")) {
        // "is an error": the run must fail as a whole; a diagnostic printed next to delivered output is not one
        Some("error-diagnosed-but-output-delivered")
    } else {
        None
    }
}

fn judge_drive(c: &DriveCase, l: &mut Local) {
    let text = text_of(&c.prog);
    let mdefs: Vec<(String, RVal)> = c.defines.iter().map(|(n, d)| (n.clone(), d.model(true))).collect();
    let o = ifworld(&c.prog, &mdefs);
    let args = drive_args(&c.defines, c.style);
    let argv: Vec<&str> = args.iter().map(|s| s.as_str()).collect();
    l.eval();
    let d = run::drive(&[("main.asm".to_string(), text.as_bytes().to_vec())], &argv, &["out.txt".to_string()]);
    record(&o, l);
    l.class("family:drive");
    l.nontrivial(&(&text, &args));
    let exp = expected_json(&o);
    if !matches!(o.verdict, Verdict::Unspec(_)) {
        l.traces_validated += 1;
    }
    if d.ok && d.has_errors {
        l.count("drive-returned-ok-and-wrote-output-although-an-error-was-diagnosed", 1);
    }
    if let Some(how) = drive_disagreement(&exp, &d) {
        l.violation(Violation {
            property: ID,
            key: violation_key("drive", &o, how),
            what: format!("{} [drive {}] argv {:?}: model expects {}", how, c.coord, args, exp),
            case: json!({"kind": "drive", "coord": c.coord, "program": text, "argv": args, "expected": exp,
                "observed": {"ok": d.ok, "panicked": d.panicked, "has_errors": d.has_errors,
                    "messages": d.messages.iter().map(|m| m.flat()).collect::<Vec<_>>(),
                    "out.txt": d.written.iter().find(|(n, _)| n == "out.txt").map(|(_, b)| String::from_utf8_lossy(b).to_string())}}),
        });
    }
}

// ---------------------------------------------------------------------------------------------

pub fn run(ctx: &Ctx) -> Report {
    let mut rep = Report::new(
        "model_checking",
        "reference interpreter `ifworld` (monotone fixpoint over visible items / known constants / spliced chains) against asm::assemble and driver::drive; \
         non-trivial = a chain decided by a condition that mentions a constant, or a define on the command line, or an error world; distinct by (program text, defines)",
    );
    let trees = tree_family(ctx.thorough);
    let feeds = feed_cases(ctx.thorough);
    let defs = def_family(ctx.thorough);
    let edges = edge_cases();
    let refs = ref_cases(ctx.thorough);
    let drives = drive_cases(ctx.thorough);
    rep.extra(
        "bounds",
        json!({
            "tree": format!("every chain shape of depth <= {} (if / if-else / if-elif / if-elif-else, at most one nested chain per chain; {} shapes) x every assignment of condition forms (6 boolean forms or 4 integer forms over A,B,C; 3 forms when a shape has > 4 conditions) x every valuation of A,B,C (bool^3 / {{0,1,-1}}^3) x constants before the tree / after it / after it with A behind a reverse-ordered alias chain; every arm holds a marker and a label", if ctx.thorough { 3 } else { 2 }, shapes(if ctx.thorough { 3 } else { 2 }).len()),
            "feed": "A decides which X is declared, X decides which Y is declared, Y decides a third chain: every X/Y value assignment x else-arm present/absent x 4 chain kinds x all 6 textual orders of the three chains + 4 nested layouts x A before/after x use of X / Y / nothing from live code",
            "def": format!("template with 5 first conditions x {} second conditions x C declared at top / in arm 1,2,3 / nowhere x {} base valuations of (A,B) [(true,false), (0,1), thorough: (false,1)], x every assignment of {{absent, no value, true, false, 0, 1, -1, 0x10}} to A, B, C (512) x 10 extra defines (N (an integer constant that is also emitted), none, a.b=1, a.b, a (label with children), Q (undeclared), DEADK (dead arm only), lab (label), LIVE1 (declared in arm 1), fun (a #fn function))", def_c2(ctx.thorough).len(), if ctx.thorough { 3 } else { 2 }),
            "ref": "every chain shape x every truth assignment of its conditions (constants T / F) x every arm's label and constant mentioned from live code (#d8 name, or R = name) before / after the tree",
            "edge": "19 undecidable / non-boolean / control conditions x 6 chain positions (first, elif after false, elif after true, nested in live arm, nested in dead arm, nested in else) x prelude before/after x chain first / last / both / neither item of the file; dead-arm name x top-level twin (constant/label/none) x define x use; hierarchical p.q declared in a live / dead arm x define x dependent chain before / after",
            "drive": "def template sub-grid through driver::drive, spellings -dN=V / --define=N=V / --define N=V / defines in the first of two output groups, output compared via -f hexstr -o out.txt",
        }),
    );
    rep.extra("cases", json!({"tree": trees.n, "feed": feeds.len(), "def": defs.n, "edge": edges.len(), "ref": refs.len(), "drive": drives.len()}));
    // development aid only: C16_ONLY=edge,ref restricts the run (and marks it non-exhaustive, vacuity guards off)
    let only = std::env::var("C16_ONLY").ok();
    let want = |f: &str| only.as_ref().map(|o| o.split(',').any(|x| x == f)).unwrap_or(true);
    if want("edge") {
        rep.absorb(par_cases(&edges, judge));
    }
    if want("ref") {
        rep.absorb(par_cases(&refs, judge));
    }
    if want("feed") {
        rep.absorb(par_cases(&feeds, judge));
    }
    if want("tree") {
        rep.absorb(par_run(trees.n, |i, l| judge(&(trees.make)(i), l)));
    }
    if want("def") {
        rep.absorb(par_run(defs.n, |i, l| judge(&(defs.make)(i), l)));
    }
    if want("drive") {
        rep.absorb(par_cases(&drives, judge_drive));
    }
    if want("relative") {
        let rels = relative_cases();
        rep.absorb(par_cases(&rels, |(c, text), l| judge_text(c, text.clone(), 30, l)));
    }
    if want("block-local") {
        let bl = block_local_cases();
        rep.absorb(par_cases(&bl, |(c, text), l| judge_text(c, text.clone(), 30, l)));
    }
    if want("include-in-arm") {
        let ia = include_in_arm_cases();
        rep.absorb(par_cases(&ia, judge_include_in_arm));
    }
    if want("ruledef-in-arm") {
        let ra = ruledef_in_arm_cases();
        rep.absorb(par_cases(&ra, |(c, text), l| judge_text(c, text.clone(), 30, l)));
    }
    if want("long") {
        let longs = long_cases();
        rep.absorb(par_cases(&longs, |(c, b), l| judge_b(c, *b, l)));
    }
    if only.is_some() {
        rep.exhaustive = false;
        return rep;
    }
    rep.assumptions = vec![
        "every marker and every `#d8 name` emits exactly one byte, so label addresses are byte counts".into(),
        "in-process defines carry unsized integers (0x10 is 16); the drive family passes the spelled text".into(),
        "model failure means: the real run is not a clean success (an error diagnostic or no output)".into(),
    ];
    super::c16_extra::run_extra(&mut rep);
    for c in [
        "ok",
        "error:undecidable-condition",
        "error:condition-not-boolean",
        "error:condition-evaluation-error",
        "error:live-code-mentions-invisible-name",
        "error:define-names-undeclared",
        "error:define-names-dead-arm-only",
        "error:define-names-label",
        "feature:define-replaced-a-constant",
        "feature:more-than-one-round-of-splicing",
        "family:drive",
    ] {
        rep.require_class(c);
    }
    rep
}

pub fn replay(ctx: &Ctx, case: &Value) -> i32 {
    super::replay_with(ctx, case, |case, l| {
        let prog = case["program"].as_str().unwrap_or("");
        let exp = &case["expected"];
        let how = if case["kind"].as_str() == Some("drive") {
            let args: Vec<String> = case["argv"].as_array().map(|a| a.iter().map(|s| s.as_str().unwrap_or("").to_string()).collect()).unwrap_or_default();
            let argv: Vec<&str> = args.iter().map(|s| s.as_str()).collect();
            let d = run::drive(&[("main.asm".to_string(), prog.as_bytes().to_vec())], &argv, &["out.txt".to_string()]);
            println!("program:\n{}\nargv: {:?}\nexpected: {}\nobserved: ok={} errors={:?} out.txt={:?}", prog, args, exp, d.ok, d.messages.iter().map(|m| m.flat()).collect::<Vec<_>>(), d.written.first().map(|(_, b)| String::from_utf8_lossy(b).to_string()));
            drive_disagreement(exp, &d)
        } else {
            let mut opts = run::Opts::iters(30);
            for d in case["defines"].as_array().cloned().unwrap_or_default() {
                let name = d["name"].as_str().unwrap_or("").to_string();
                let val = match d["value"].as_str().unwrap_or("") {
                    "NoValue" | "Bool(true)" => run::DefVal::Bool(true),
                    "Bool(false)" => run::DefVal::Bool(false),
                    "Hex10" => run::DefVal::Int(16),
                    s => run::DefVal::Int(s.trim_start_matches("Int(").trim_end_matches(')').parse().unwrap_or(0)),
                };
                opts.defines.push((name, val));
            }
            let obs = if case["kind"].as_str() == Some("include-in-arm") {
                let files: Vec<(String, Vec<u8>)> = case["files"].as_array().cloned().unwrap_or_default().iter().map(|f| (f[0].as_str().unwrap_or("").to_string(), f[1].as_str().unwrap_or("").as_bytes().to_vec())).collect();
                run::assemble_files(&files, &["main.asm"], &opts)
            } else {
                run::assemble_str(prog, &opts)
            };
            println!("program:\n{}\ndefines: {}\nexpected: {}\nobserved: {}", prog, case["defines"], exp, obs.summary());
            disagreement(exp, &obs)
        };
        if let Some(h) = how {
            l.violation(Violation { property: ID, key: "replay".into(), what: format!("case still violates: {}", h), case: case.clone() });
        }
    })
}
