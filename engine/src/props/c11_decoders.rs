//! C11 — independent decoders, one per output format.
//!
//! Every decoder is written from the *public rules of the format itself* (Intel HEX record syntax,
//! the Quartus MIF grammar, the classic `addr | cells | ascii |` dump layout, C initialiser syntax,
//! Logisim's "v2.0 raw" image, plain digit strings / separated number lists). None of them looks at
//! how customasm lays out lines, how many values it puts on a line, or how wide it prints numbers:
//! anything a third-party reader of the format would accept is accepted here, and what such a reader
//! would reject or read differently is reported as a `Problem`.
use std::collections::BTreeMap;

#[derive(Clone, Debug)]
pub struct Problem {
    /// short stable classification (used in violation keys)
    pub kind: &'static str,
    pub detail: String,
}

fn prob<T>(kind: &'static str, detail: impl Into<String>) -> Result<T, Problem> {
    Err(Problem { kind, detail: detail.into() })
}

fn text_of(out: &[u8]) -> Result<&str, Problem> {
    match std::str::from_utf8(out) {
        Ok(s) => Ok(s),
        Err(_) => prob("syntax", "output of a text format is not valid UTF-8"),
    }
}

pub fn push_bits(bits: &mut Vec<bool>, value: u128, width: usize) {
    for k in (0..width).rev() {
        bits.push((value >> k) & 1 == 1);
    }
}

fn hexval(c: char) -> Option<u8> {
    c.to_digit(16).map(|d| d as u8)
}

// ------------------------------------------------------------------------------------------------
// binary / binstr / hexstr

/// Raw binary: every byte is eight bits, most significant first.
pub fn dec_binary(out: &[u8]) -> Result<Vec<bool>, Problem> {
    let mut bits = Vec::with_capacity(out.len() * 8);
    for b in out {
        push_bits(&mut bits, *b as u128, 8);
    }
    Ok(bits)
}

/// A string of binary (digit_bits = 1) or hexadecimal (digit_bits = 4) digits, nothing else.
/// Trailing line ends are tolerated; anything else between or after the digits is an error.
pub fn dec_digit_string(out: &[u8], digit_bits: usize) -> Result<Vec<bool>, Problem> {
    let text = text_of(out)?;
    let body = text.trim_end_matches(|c| c == '\n' || c == '\r');
    let mut bits = vec![];
    for (i, c) in body.chars().enumerate() {
        let v = match (digit_bits, c) {
            (1, '0') => 0,
            (1, '1') => 1,
            (4, c) if hexval(c).is_some() => hexval(c).unwrap(),
            _ => return prob("syntax", format!("character {:?} at index {} is not a digit of this format", c, i)),
        };
        push_bits(&mut bits, v as u128, digit_bits);
    }
    Ok(bits)
}

// ------------------------------------------------------------------------------------------------
// bindump / hexdump:   ` addr | cell cell cell ... | ascii |`

pub struct Dump {
    /// digits actually shown, as bits, in order
    pub bits: Vec<bool>,
    /// number of byte cells (shown or placeholder) in the whole dump
    pub cells: usize,
    pub lines: usize,
}

/// `digit_bits` = 1: cells are 8 binary digits; 4: cells are 2 hex digits. A cell position that holds
/// no data is shown as `.`; once a placeholder has appeared no digit may follow (the data is one
/// prefix of the cell sequence). The address column is the hexadecimal index of the line's first
/// cell. The text column has one character per cell; a *graphic* character there (anything but
/// space and `.`, which serve as placeholders) claims that the cell's byte is that character.
pub fn dec_dump(out: &[u8], digit_bits: usize) -> Result<Dump, Problem> {
    let text = text_of(out)?;
    let cell_chars = 8 / digit_bits;
    let mut bits: Vec<bool> = vec![];
    let mut cells = 0usize;
    let mut lines = 0usize;
    let mut seen_placeholder = false;
    for (ln, line) in text.lines().enumerate() {
        if line.trim().is_empty() {
            continue;
        }
        lines += 1;
        let Some(p1) = line.find('|') else { return prob("syntax", format!("line {}: no `|` after the address", ln + 1)) };
        let addr_txt = line[..p1].trim();
        let rest = &line[p1 + 1..];
        let Some(p2) = rest.find('|') else { return prob("syntax", format!("line {}: no `|` after the data cells", ln + 1)) };
        let cells_txt = &rest[..p2];
        let tail = rest[p2 + 1..].trim_end();
        let Some(ascii_txt) = tail.strip_suffix('|') else { return prob("syntax", format!("line {}: text column is not closed by `|`", ln + 1)) };
        // one separating blank on each side of the text column
        let ascii_txt = ascii_txt.strip_prefix(' ').unwrap_or(ascii_txt);
        let ascii_txt = ascii_txt.strip_suffix(' ').unwrap_or(ascii_txt);
        let ascii: Vec<char> = ascii_txt.chars().collect();
        // the column delimiter cannot also be a character of the text column: a reader splitting the line at `|`
        // would see four columns
        // the dump is ASCII text, one text-column character per cell: a cell's byte shown as a multi-byte character
        // makes the column wider (in bytes) than the cells it stands for
        if let Some(c) = ascii.iter().find(|c| !c.is_ascii()) {
            return prob("ascii", format!("line {}: the text column holds the non-ASCII character {:?}", ln + 1, c));
        }
        if ascii.contains(&'|') {
            return prob("syntax", format!("line {}: the text column contains the column delimiter `|`", ln + 1));
        }

        // address
        if addr_txt.is_empty() || !addr_txt.chars().all(|c| c.is_ascii_hexdigit()) {
            return prob("syntax", format!("line {}: address {:?} is not a hexadecimal number", ln + 1, addr_txt));
        }
        let addr = match u64::from_str_radix(addr_txt, 16) {
            Ok(a) => a,
            Err(_) => return prob("syntax", format!("line {}: address {:?} too large", ln + 1, addr_txt)),
        };
        if addr != cells as u64 {
            return prob("address", format!("line {}: address column says {:#x} but {} byte cells precede this line", ln + 1, addr, cells));
        }

        // cells
        let toks: Vec<&str> = cells_txt.split_whitespace().collect();
        if toks.is_empty() {
            return prob("syntax", format!("line {}: no data cells", ln + 1));
        }
        if ascii.len() != toks.len() {
            return prob("ascii", format!("line {}: {} data cells but {} characters in the text column", ln + 1, toks.len(), ascii.len()));
        }
        for (k, t) in toks.iter().enumerate() {
            let cs: Vec<char> = t.chars().collect();
            if cs.len() != cell_chars {
                return prob("syntax", format!("line {}: cell {:?} does not have {} characters", ln + 1, t, cell_chars));
            }
            let mut cell_bits: Vec<bool> = vec![];
            for c in cs {
                if c == '.' {
                    seen_placeholder = true;
                    continue;
                }
                let v = match (digit_bits, c) {
                    (1, '0') => 0u8,
                    (1, '1') => 1,
                    (4, c) if hexval(c).is_some() => hexval(c).unwrap(),
                    _ => return prob("syntax", format!("line {}: character {:?} in cell {:?}", ln + 1, c, t)),
                };
                if seen_placeholder {
                    return prob("invented", format!("line {}: digit {:?} appears after a no-data placeholder", ln + 1, c));
                }
                push_bits(&mut cell_bits, v as u128, digit_bits);
            }
            // text column consistency for completely shown bytes
            let a = ascii[k];
            if a != ' ' && a != '.' && a.is_ascii_graphic() {
                if cell_bits.len() == 8 {
                    let mut b = 0u8;
                    for x in &cell_bits {
                        b = (b << 1) | (*x as u8);
                    }
                    if b != a as u8 {
                        return prob("ascii", format!("line {}: text column shows {:?} for a cell holding byte {:#04x}", ln + 1, a, b));
                    }
                } else if cell_bits.is_empty() {
                    return prob("ascii", format!("line {}: text column shows {:?} for a cell without data", ln + 1, a));
                }
            }
            bits.extend(cell_bits);
            cells += 1;
        }
    }
    Ok(Dump { bits, cells, lines })
}

// ------------------------------------------------------------------------------------------------
// MIF (Quartus memory initialisation file)

pub struct Mif {
    pub depth: usize,
    pub width: usize,
    /// one entry per address 0..depth; None = address not mentioned (reads as 0 in the tools)
    pub words: Vec<Option<u128>>,
}

fn mif_radix(name: &str) -> Option<u32> {
    match name {
        "BIN" => Some(2),
        "OCT" => Some(8),
        "DEC" | "UNS" => Some(10),
        "HEX" => Some(16),
        _ => None,
    }
}

fn strip_mif_comments(text: &str) -> String {
    // `-- to end of line` and `% ... %`
    let mut out = String::new();
    let cs: Vec<char> = text.chars().collect();
    let mut i = 0;
    while i < cs.len() {
        if cs[i] == '-' && i + 1 < cs.len() && cs[i + 1] == '-' {
            while i < cs.len() && cs[i] != '\n' {
                i += 1;
            }
        } else if cs[i] == '%' {
            i += 1;
            while i < cs.len() && cs[i] != '%' {
                i += 1;
            }
            i += 1;
            out.push(' ');
        } else {
            out.push(cs[i]);
            i += 1;
        }
    }
    out
}

pub fn dec_mif(out: &[u8]) -> Result<Mif, Problem> {
    let text = strip_mif_comments(text_of(out)?).to_ascii_uppercase();
    // header ... CONTENT BEGIN body END ;
    let Some(pc) = text.find("CONTENT") else { return prob("syntax", "no CONTENT section") };
    let header = &text[..pc];
    let after = &text[pc + "CONTENT".len()..];
    let after_trim = after.trim_start();
    let Some(body_and_end) = after_trim.strip_prefix("BEGIN") else { return prob("syntax", "CONTENT is not followed by BEGIN") };
    let Some(pe) = body_and_end.rfind("END") else { return prob("syntax", "no END") };
    let body = &body_and_end[..pe];
    let trailer = body_and_end[pe + 3..].trim();
    if trailer != ";" {
        return prob("syntax", format!("END is followed by {:?}, expected `;`", trailer));
    }

    let mut depth: Option<usize> = None;
    let mut width: Option<usize> = None;
    let mut aradix = 16u32;
    let mut dradix = 16u32;
    let hparts: Vec<&str> = header.split(';').collect();
    for (i, st) in hparts.iter().enumerate() {
        let st = st.trim();
        if st.is_empty() {
            continue;
        }
        if i + 1 == hparts.len() {
            return prob("syntax", format!("header statement {:?} is not terminated by `;`", st));
        }
        let Some((k, v)) = st.split_once('=') else { return prob("syntax", format!("header statement {:?} is not KEY = VALUE", st)) };
        let (k, v) = (k.trim(), v.trim());
        match k {
            "DEPTH" | "WIDTH" => {
                let Ok(n) = v.parse::<usize>() else { return prob("count", format!("{} = {:?} is not a decimal number", k, v)) };
                if k == "DEPTH" {
                    depth = Some(n)
                } else {
                    width = Some(n)
                }
            }
            "ADDRESS_RADIX" | "DATA_RADIX" => {
                let Some(r) = mif_radix(v) else { return prob("syntax", format!("unknown radix {:?}", v)) };
                if k == "ADDRESS_RADIX" {
                    aradix = r
                } else {
                    dradix = r
                }
            }
            _ => return prob("syntax", format!("unknown header key {:?}", k)),
        }
    }
    let Some(depth) = depth else { return prob("count", "no DEPTH statement") };
    let Some(width) = width else { return prob("count", "no WIDTH statement") };
    if width == 0 || width > 128 {
        return prob("count", format!("WIDTH = {} is outside 1..=128", width));
    }
    if depth > (1 << 24) {
        return prob("count", format!("DEPTH = {} is absurd", depth));
    }
    let mut words: Vec<Option<u128>> = vec![None; depth];
    let limit: u128 = if width == 128 { u128::MAX } else { (1u128 << width) - 1 };
    let parse_num = |t: &str, radix: u32, what: &str| -> Result<u128, Problem> {
        if t.is_empty() {
            return prob("syntax", format!("empty {}", what));
        }
        match u128::from_str_radix(t, radix) {
            Ok(v) => Ok(v),
            Err(_) => prob("syntax", format!("{} {:?} is not a base-{} number", what, t, radix)),
        }
    };
    let bparts: Vec<&str> = body.split(';').collect();
    for (i, st) in bparts.iter().enumerate() {
        let st = st.trim();
        if st.is_empty() {
            continue;
        }
        if i + 1 == bparts.len() {
            return prob("syntax", format!("content line {:?} is not terminated by `;`", st));
        }
        let Some((lhs, rhs)) = st.split_once(':') else { return prob("syntax", format!("content line {:?} has no `:`", st)) };
        let lhs = lhs.trim();
        let data: Vec<&str> = rhs.split_whitespace().collect();
        if data.is_empty() {
            return prob("syntax", format!("content line {:?} has no data", st));
        }
        let mut vals = vec![];
        for d in &data {
            let v = parse_num(d, dradix, "data word")?;
            if v > limit {
                return prob("count", format!("data word {:?} does not fit WIDTH = {}", d, width));
            }
            vals.push(v);
        }
        let mut assign = |a: u128, v: u128| -> Result<(), Problem> {
            if a >= depth as u128 {
                return prob("address", format!("address {:#x} is not below DEPTH = {}", a, depth));
            }
            if words[a as usize].is_some() {
                return prob("address", format!("address {:#x} is given twice", a));
            }
            words[a as usize] = Some(v);
            Ok(())
        };
        if let Some(r) = lhs.strip_prefix('[') {
            let Some(r) = r.strip_suffix(']') else { return prob("syntax", format!("bad address range {:?}", lhs)) };
            let Some((a, b)) = r.split_once("..") else { return prob("syntax", format!("bad address range {:?}", lhs)) };
            let a = parse_num(a.trim(), aradix, "address")?;
            let b = parse_num(b.trim(), aradix, "address")?;
            if b < a || b - a > (1 << 24) {
                return prob("address", format!("bad address range {:?}", lhs));
            }
            // the data sequence repeats over the range
            for (k, x) in (a..=b).enumerate() {
                assign(x, vals[k % vals.len()])?;
            }
        } else {
            let a = parse_num(lhs, aradix, "address")?;
            for (k, v) in vals.iter().enumerate() {
                assign(a + k as u128, *v)?;
            }
        }
    }
    Ok(Mif { depth, width, words })
}

// ------------------------------------------------------------------------------------------------
// Intel HEX

pub struct HexRecord {
    pub address: u64,
    pub len: usize,
}

pub struct HexImage {
    /// byte position -> value, where position = record address (in address units) * bytes-per-unit + index in record
    pub bytes: BTreeMap<u64, u8>,
    pub data_records: Vec<HexRecord>,
}

/// `unit_bits` is the size of one addressable unit (8, 16 or 32): the record's address field counts
/// units, and its data bytes fill consecutive units, most significant byte first within the stream.
pub fn dec_intelhex(out: &[u8], unit_bits: usize) -> Result<HexImage, Problem> {
    let text = text_of(out)?;
    let bytes_per_unit = (unit_bits / 8) as u64;
    let mut img = HexImage { bytes: BTreeMap::new(), data_records: vec![] };
    let mut eof_seen = false;
    let mut upper: u64 = 0; // from type 04
    let mut segment: Option<u64> = None; // from type 02
    for (ln, line) in text.lines().enumerate() {
        let line = line.trim_end_matches('\r');
        if line.is_empty() {
            continue;
        }
        if eof_seen {
            return prob("eof", format!("line {}: record after the end-of-file record", ln + 1));
        }
        let Some(hex) = line.strip_prefix(':') else { return prob("syntax", format!("line {}: record does not start with `:`", ln + 1)) };
        let cs: Vec<char> = hex.chars().collect();
        if cs.len() % 2 != 0 {
            return prob("syntax", format!("line {}: odd number of hex digits", ln + 1));
        }
        let mut rec: Vec<u8> = vec![];
        for p in cs.chunks(2) {
            match (hexval(p[0]), hexval(p[1])) {
                (Some(h), Some(l)) => rec.push(h * 16 + l),
                _ => return prob("syntax", format!("line {}: non-hex character in record", ln + 1)),
            }
        }
        if rec.len() < 5 {
            return prob("syntax", format!("line {}: record shorter than length+address+type+checksum", ln + 1));
        }
        let ll = rec[0] as usize;
        if rec.len() != ll + 5 {
            return prob("count", format!("line {}: byte count field says {} but the record carries {} data bytes", ln + 1, ll, rec.len() - 5));
        }
        let sum: u32 = rec.iter().map(|b| *b as u32).sum();
        if sum % 256 != 0 {
            let without: u32 = rec[..rec.len() - 1].iter().map(|b| *b as u32).sum();
            let want = (256 - (without % 256)) % 256;
            return prob("checksum", format!("line {}: checksum is {:02X}, the record's bytes require {:02X}", ln + 1, rec[rec.len() - 1], want));
        }
        let addr16 = ((rec[1] as u64) << 8) | rec[2] as u64;
        let ty = rec[3];
        let data = &rec[4..4 + ll];
        match ty {
            0x00 => {
                let base_units = match segment {
                    Some(s) => s * 16,
                    None => upper << 16,
                };
                img.data_records.push(HexRecord { address: base_units + addr16, len: ll });
                for (i, b) in data.iter().enumerate() {
                    let pos = (base_units + addr16) * bytes_per_unit + i as u64;
                    if let Some(old) = img.bytes.insert(pos, *b) {
                        if old != *b {
                            return prob("address", format!("line {}: byte position {:#x} written twice with different values ({:#04x}, {:#04x})", ln + 1, pos, old, b));
                        }
                    }
                }
            }
            0x01 => {
                if ll != 0 {
                    return prob("eof", format!("line {}: end-of-file record carries data", ln + 1));
                }
                eof_seen = true;
            }
            0x02 => {
                if ll != 2 {
                    return prob("syntax", format!("line {}: extended segment address record must carry 2 bytes", ln + 1));
                }
                segment = Some(((data[0] as u64) << 8) | data[1] as u64);
            }
            0x04 => {
                if ll != 2 {
                    return prob("syntax", format!("line {}: extended linear address record must carry 2 bytes", ln + 1));
                }
                segment = None;
                upper = ((data[0] as u64) << 8) | data[1] as u64;
            }
            0x03 | 0x05 => {
                if ll != 4 {
                    return prob("syntax", format!("line {}: start address record must carry 4 bytes", ln + 1));
                }
            }
            _ => return prob("syntax", format!("line {}: unknown record type {:02X}", ln + 1, ty)),
        }
    }
    if !eof_seen {
        return prob("eof", "no end-of-file record (`:00000001FF`)");
    }
    Ok(img)
}

// ------------------------------------------------------------------------------------------------
// deccomma / hexcomma / decspace / hexspace

fn parse_listed_number(tok: &str, radix: u32) -> Result<u128, Problem> {
    let t = if radix == 16 { tok.strip_prefix("0x").or_else(|| tok.strip_prefix("0X")).unwrap_or(tok) } else { tok };
    if t.is_empty() || !t.chars().all(|c| c.is_digit(radix)) {
        return prob("syntax", format!("{:?} is not a base-{} number", tok, radix));
    }
    match u128::from_str_radix(t, radix) {
        Ok(v) => Ok(v),
        Err(_) => prob("syntax", format!("{:?} is too large", tok)),
    }
}

/// Numbers in the given radix (hex may carry a `0x` prefix). `comma` = true: separated by commas
/// (blanks and line ends around them are free, one trailing comma is tolerated); false: separated
/// by blanks / line ends only.
pub fn dec_separated(out: &[u8], radix: u32, comma: bool) -> Result<Vec<u128>, Problem> {
    let text = text_of(out)?;
    let mut vals = vec![];
    if comma {
        let parts: Vec<&str> = text.split(',').collect();
        for (i, p) in parts.iter().enumerate() {
            let p = p.trim();
            if p.is_empty() {
                if i + 1 == parts.len() {
                    continue; // trailing comma or empty output
                }
                return prob("syntax", "empty element between two commas");
            }
            if p.split_whitespace().count() != 1 {
                return prob("syntax", format!("{:?}: two numbers without a comma between them", p));
            }
            vals.push(parse_listed_number(p, radix)?);
        }
    } else {
        for t in text.split_whitespace() {
            vals.push(parse_listed_number(t, radix)?);
        }
    }
    Ok(vals)
}

// ------------------------------------------------------------------------------------------------
// decc / hexc: a C definition of an initialised array of bytes

#[derive(Clone, Debug, PartialEq)]
enum CTok {
    Ident(String),
    Num(u128),
    Punct(char),
    /// a comment whose whole text is a `0x...` number: an address annotation
    AddrComment(u128),
}

fn c_tokens(text: &str) -> Result<Vec<CTok>, Problem> {
    let cs: Vec<char> = text.chars().collect();
    let mut i = 0;
    let mut toks = vec![];
    while i < cs.len() {
        let c = cs[i];
        if c.is_whitespace() {
            i += 1;
        } else if c == '/' && i + 1 < cs.len() && cs[i + 1] == '*' {
            let start = i + 2;
            let mut j = start;
            loop {
                if j + 1 >= cs.len() {
                    return prob("syntax", "unterminated /* comment");
                }
                if cs[j] == '*' && cs[j + 1] == '/' {
                    break;
                }
                j += 1;
            }
            let body: String = cs[start..j].iter().collect();
            let body = body.trim();
            if let Some(h) = body.strip_prefix("0x").or_else(|| body.strip_prefix("0X")) {
                if !h.is_empty() && h.chars().all(|c| c.is_ascii_hexdigit()) {
                    if let Ok(v) = u128::from_str_radix(h, 16) {
                        toks.push(CTok::AddrComment(v));
                    }
                }
            }
            i = j + 2;
        } else if c == '/' && i + 1 < cs.len() && cs[i + 1] == '/' {
            while i < cs.len() && cs[i] != '\n' {
                i += 1;
            }
        } else if c.is_ascii_alphabetic() || c == '_' {
            let s = i;
            while i < cs.len() && (cs[i].is_ascii_alphanumeric() || cs[i] == '_') {
                i += 1;
            }
            toks.push(CTok::Ident(cs[s..i].iter().collect()));
        } else if c.is_ascii_digit() {
            let s = i;
            while i < cs.len() && (cs[i].is_ascii_alphanumeric()) {
                i += 1;
            }
            let lit: String = cs[s..i].iter().collect();
            // C integer constant: 0x.. hexadecimal, leading 0 octal, otherwise decimal; u/l suffixes allowed
            let body = lit.trim_end_matches(|c| c == 'u' || c == 'U' || c == 'l' || c == 'L');
            let v = if let Some(h) = body.strip_prefix("0x").or_else(|| body.strip_prefix("0X")) {
                u128::from_str_radix(h, 16)
            } else if body.len() > 1 && body.starts_with('0') {
                u128::from_str_radix(&body[1..], 8)
            } else {
                u128::from_str_radix(body, 10)
            };
            match v {
                Ok(v) => toks.push(CTok::Num(v)),
                Err(_) => return prob("syntax", format!("{:?} is not a C integer constant", lit)),
            }
        } else if "[]{}=,;*".contains(c) {
            toks.push(CTok::Punct(c));
            i += 1;
        } else {
            return prob("syntax", format!("unexpected character {:?} in C source", c));
        }
    }
    Ok(toks)
}

pub struct CArray {
    pub values: Vec<u128>,
}

pub fn dec_c_array(out: &[u8]) -> Result<CArray, Problem> {
    let toks = c_tokens(text_of(out)?)?;
    let mut i = 0;
    let skip_comments = |i: &mut usize| {
        while *i < toks.len() && matches!(toks[*i], CTok::AddrComment(_)) {
            *i += 1;
        }
    };
    // declaration specifiers ... declarator
    let mut idents: Vec<String> = vec![];
    loop {
        skip_comments(&mut i);
        match toks.get(i) {
            Some(CTok::Ident(s)) => {
                idents.push(s.clone());
                i += 1;
            }
            _ => break,
        }
    }
    if idents.len() < 2 {
        return prob("syntax", "no `type name[]` declaration");
    }
    let specifiers = &idents[..idents.len() - 1];
    let byte_typed = specifiers.iter().any(|s| s == "char" || s == "uint8_t" || s == "int8_t" || s == "u8" || s == "byte");
    if !byte_typed {
        return prob("syntax", format!("element type {:?} is not a byte type", specifiers));
    }
    let signed = specifiers.iter().any(|s| s == "signed" || s == "int8_t");
    let expect = |i: &mut usize, c: char| -> Result<(), Problem> {
        while *i < toks.len() && matches!(toks[*i], CTok::AddrComment(_)) {
            *i += 1;
        }
        if toks.get(*i) == Some(&CTok::Punct(c)) {
            *i += 1;
            Ok(())
        } else {
            prob("syntax", format!("expected `{}` in the array definition, found {:?}", c, toks.get(*i)))
        }
    };
    expect(&mut i, '[')?;
    skip_comments(&mut i);
    let mut declared: Option<u128> = None;
    if let Some(CTok::Num(n)) = toks.get(i) {
        declared = Some(*n);
        i += 1;
    }
    expect(&mut i, ']')?;
    expect(&mut i, '=')?;
    expect(&mut i, '{')?;
    let mut values = vec![];
    loop {
        // address annotations in front of an element must name that element's index
        while let Some(CTok::AddrComment(a)) = toks.get(i) {
            // an annotation directly in front of the closing brace names no element
            let names_element = toks[i + 1..].iter().find(|t| !matches!(t, CTok::AddrComment(_))).map(|t| matches!(t, CTok::Num(_))).unwrap_or(false);
            if names_element && *a != values.len() as u128 {
                return prob("address", format!("address comment {:#x} stands in front of element {}", a, values.len()));
            }
            i += 1;
        }
        match toks.get(i) {
            Some(CTok::Punct('}')) => {
                i += 1;
                break;
            }
            Some(CTok::Num(v)) => {
                if *v > 255 || (signed && *v > 127) {
                    return prob("syntax", format!("initialiser {} does not fit the byte element type", v));
                }
                values.push(*v);
                i += 1;
                skip_comments(&mut i);
                match toks.get(i) {
                    Some(CTok::Punct(',')) => i += 1,
                    Some(CTok::Punct('}')) => {}
                    t => return prob("syntax", format!("expected `,` or `}}` after an initialiser, found {:?}", t)),
                }
            }
            t => return prob("syntax", format!("expected an integer constant or `}}`, found {:?}", t)),
        }
    }
    expect(&mut i, ';')?;
    skip_comments(&mut i);
    if i != toks.len() {
        return prob("syntax", "text after the array definition");
    }
    if let Some(d) = declared {
        if d != values.len() as u128 {
            return prob("count", format!("declared size {} but {} initialisers", d, values.len()));
        }
    }
    Ok(CArray { values })
}

// ------------------------------------------------------------------------------------------------
// Logisim memory image

/// First line `v2.0 raw`; then hexadecimal words separated by blanks / line ends; `N*W` is a run of
/// N copies of W (N decimal). Every word must fit `width` bits.
pub fn dec_logisim(out: &[u8], width: usize) -> Result<Vec<u128>, Problem> {
    let text = text_of(out)?;
    let (first, rest) = match text.split_once('\n') {
        Some((f, r)) => (f, r),
        None => (text, ""),
    };
    if first.trim_end_matches('\r') != "v2.0 raw" {
        return prob("syntax", format!("first line is {:?}, not `v2.0 raw`", first));
    }
    let limit: u128 = (1u128 << width) - 1;
    let mut vals = vec![];
    for t in rest.split_whitespace() {
        let (count, w) = match t.split_once('*') {
            Some((n, w)) => match n.parse::<usize>() {
                Ok(n) if n <= (1 << 24) => (n, w),
                _ => return prob("syntax", format!("bad run length in {:?}", t)),
            },
            None => (1, t),
        };
        if w.is_empty() || !w.chars().all(|c| c.is_ascii_hexdigit()) {
            return prob("syntax", format!("{:?} is not a hexadecimal word", t));
        }
        let Ok(v) = u128::from_str_radix(w, 16) else { return prob("syntax", format!("{:?} is too large", t)) };
        if v > limit {
            return prob("count", format!("word {:?} does not fit {} bits", t, width));
        }
        for _ in 0..count {
            vals.push(v);
        }
    }
    Ok(vals)
}
