//! Isolation machinery for C03 (DESIGN §1 "isolated runs"): the in-process enumeration runs in a worker
//! sub-process of `cav` itself (`cav C03 --replay <jobfile>` with a job of kind "worker"), so that a case that
//! aborts the process (stack overflow, allocation failure) or never returns (bit-by-bit loops over huge sizes)
//! costs exactly that case: the worker journals the index each thread is about to run; the parent attributes a
//! death / stall to the in-flight cases, re-runs the suspects alone, records the culprits and restarts the worker
//! on the remaining chunks. Completed chunks are appended to a log, so nothing is counted twice or lost.
use crate::stats::fnv;
use serde_json::{json, Value};
use std::collections::{BTreeMap, BTreeSet, HashMap};
use std::io::{Read, Write};
use std::sync::atomic::{AtomicBool, AtomicU64, Ordering};
use std::sync::Mutex;

pub const CHUNK: u64 = 512;
pub const KEEP: usize = 4;

#[derive(Default, Clone)]
pub struct Kept {
    pub size: usize,
    pub hash: u64,
    pub what: String,
    pub case: Value,
}

impl Kept {
    pub fn new(what: String, case: Value, size: usize) -> Kept {
        let hash = fnv(&case.to_string());
        Kept { size, hash, what, case }
    }
    fn rank(&self) -> (usize, u64) {
        (self.size, self.hash)
    }
    fn to_json(&self) -> Value {
        json!({"size": self.size, "hash": self.hash, "what": self.what, "case": self.case})
    }
    fn from_json(v: &Value) -> Kept {
        Kept { size: v["size"].as_u64().unwrap_or(0) as usize, hash: v["hash"].as_u64().unwrap_or(0), what: v["what"].as_str().unwrap_or("").to_string(), case: v["case"].clone() }
    }
}

/// Serialisable accumulator (one per chunk, merged by the parent). Everything that is kept as an example is
/// chosen by (size, content hash), i.e. independently of scheduling.
#[derive(Default, Clone)]
pub struct Acc {
    pub evaluations: u64,
    pub nontrivial: Vec<u64>,
    pub classes: BTreeMap<String, u64>,
    pub counters: BTreeMap<String, u64>,
    pub unspecified: u64,
    pub samples: Vec<Value>,
    /// violation key -> (count, smallest examples)
    pub viol: BTreeMap<String, (u64, Vec<Kept>)>,
    /// outcome class -> smallest representative job
    pub reps: BTreeMap<String, Kept>,
}

fn map_to_json(m: &BTreeMap<String, u64>) -> Value {
    Value::Object(m.iter().map(|(k, v)| (k.clone(), json!(v))).collect())
}
fn map_from_json(v: &Value) -> BTreeMap<String, u64> {
    v.as_object().map(|o| o.iter().map(|(k, v)| (k.clone(), v.as_u64().unwrap_or(0))).collect()).unwrap_or_default()
}

impl Acc {
    pub fn eval(&mut self) {
        self.evaluations += 1;
    }
    pub fn class(&mut self, c: &str) {
        *self.classes.entry(c.to_string()).or_insert(0) += 1;
    }
    pub fn count(&mut self, c: &str, n: u64) {
        *self.counters.entry(c.to_string()).or_insert(0) += n;
    }
    pub fn nontrivial<T: std::hash::Hash + ?Sized>(&mut self, t: &T) {
        self.nontrivial.push(fnv(t));
    }
    pub fn sample(&mut self, f: impl FnOnce() -> Value) {
        if self.samples.len() < 2 {
            self.samples.push(f());
        }
    }
    /// would a violation example of this size be kept?
    pub fn wants_violation(&self, key: &str, size: usize) -> bool {
        if !global_wants(&format!("v|{}", key), size, KEEP) {
            return false;
        }
        match self.viol.get(key) {
            Some((_, kept)) if kept.len() >= KEEP => kept.iter().any(|k| size < k.size),
            _ => true,
        }
    }
    pub fn violation(&mut self, key: &str, kept: Option<Kept>) {
        let e = self.viol.entry(key.to_string()).or_insert((0, vec![]));
        e.0 += 1;
        if let Some(k) = kept {
            global_note(&format!("v|{}", key), k.size, KEEP);
            e.1.push(k);
            e.1.sort_by_key(|k| k.rank());
            e.1.dedup_by_key(|k| k.hash);
            e.1.truncate(KEEP);
        }
    }
    pub fn wants_rep(&self, class: &str, size: usize) -> bool {
        match self.reps.get(class) {
            Some(old) if old.size < size => false,
            _ => global_wants(&format!("r|{}", class), size, 1),
        }
    }
    pub fn offer_rep(&mut self, class: &str, k: Kept) {
        match self.reps.get(class) {
            Some(old) if old.rank() <= k.rank() => {}
            _ => {
                global_note(&format!("r|{}", class), k.size, 1);
                self.reps.insert(class.to_string(), k);
            }
        }
    }
    pub fn merge(&mut self, o: Acc) {
        self.evaluations += o.evaluations;
        self.nontrivial.extend(o.nontrivial);
        for (k, v) in o.classes {
            *self.classes.entry(k).or_insert(0) += v;
        }
        for (k, v) in o.counters {
            *self.counters.entry(k).or_insert(0) += v;
        }
        self.unspecified += o.unspecified;
        // the smallest samples in text order: independent of the order in which chunks arrive
        self.samples.extend(o.samples);
        self.samples.sort_by_cached_key(|s| s.to_string());
        self.samples.dedup();
        self.samples.truncate(crate::stats::MAX_SAMPLES);
        for (k, (n, kept)) in o.viol {
            let e = self.viol.entry(k).or_insert((0, vec![]));
            e.0 += n;
            e.1.extend(kept);
            e.1.sort_by_key(|k| k.rank());
            e.1.dedup_by_key(|k| k.hash);
            e.1.truncate(KEEP);
        }
        for (k, r) in o.reps {
            match self.reps.get(&k) {
                Some(old) if old.rank() <= r.rank() => {}
                _ => {
                    self.reps.insert(k, r);
                }
            }
        }
    }
    fn to_json(&self) -> Value {
        json!({
            "ev": self.evaluations, "classes": map_to_json(&self.classes), "counters": map_to_json(&self.counters), "unspec": self.unspecified,
            "samples": self.samples,
            "viol": Value::Object(self.viol.iter().map(|(k, (n, kept))| (k.clone(), json!({"n": n, "kept": kept.iter().map(|k| k.to_json()).collect::<Vec<_>>()}))).collect()),
            "reps": Value::Object(self.reps.iter().map(|(k, r)| (k.clone(), r.to_json())).collect()),
        })
    }
    fn from_json(v: &Value, nontrivial: Vec<u64>) -> Acc {
        let mut a = Acc::default();
        a.evaluations = v["ev"].as_u64().unwrap_or(0);
        a.classes = map_from_json(&v["classes"]);
        a.counters = map_from_json(&v["counters"]);
        a.unspecified = v["unspec"].as_u64().unwrap_or(0);
        a.samples = v["samples"].as_array().cloned().unwrap_or_default();
        if let Some(o) = v["viol"].as_object() {
            for (k, e) in o {
                a.viol.insert(k.clone(), (e["n"].as_u64().unwrap_or(0), e["kept"].as_array().map(|x| x.iter().map(Kept::from_json).collect()).unwrap_or_default()));
            }
        }
        if let Some(o) = v["reps"].as_object() {
            for (k, e) in o {
                a.reps.insert(k.clone(), Kept::from_json(e));
            }
        }
        a.nontrivial = nontrivial;
        a
    }
}

// process-global pruning table: key -> the `keep` smallest sizes noted so far (only avoids building examples that
// cannot be among the smallest; never changes which examples are finally chosen)
static GLOBAL: Mutex<Option<HashMap<String, Vec<usize>>>> = Mutex::new(None);

fn global_wants(key: &str, size: usize, keep: usize) -> bool {
    let g = GLOBAL.lock().unwrap();
    match g.as_ref().and_then(|m| m.get(key)) {
        Some(v) if v.len() >= keep => size <= *v.last().unwrap(),
        _ => true,
    }
}
fn global_note(key: &str, size: usize, keep: usize) {
    let mut g = GLOBAL.lock().unwrap();
    let m = g.get_or_insert_with(HashMap::new);
    let v = m.entry(key.to_string()).or_default();
    v.push(size);
    v.sort();
    v.truncate(keep);
}

/// The enumerated space; built identically (deterministically) by parent and worker.
pub trait Space: Sync {
    fn len(&self) -> u64;
    fn run(&self, i: u64, a: &mut Acc);
    /// everything needed to re-run case i outside the enumerator (used for cases that killed / stalled a worker)
    fn describe(&self, i: u64) -> Value;
}

// ---------------------------------------------------------------------------------------------
// log records

const MAGIC: &[u8; 4] = b"C03R";
const TAIL: &[u8; 4] = b"DONE";

fn write_record(f: &mut std::fs::File, v: &Value, hashes: &[u64]) {
    let j = v.to_string().into_bytes();
    let mut buf = Vec::with_capacity(j.len() + hashes.len() * 8 + 16);
    buf.extend_from_slice(MAGIC);
    buf.extend_from_slice(&(j.len() as u32).to_le_bytes());
    buf.extend_from_slice(&j);
    buf.extend_from_slice(&(hashes.len() as u32).to_le_bytes());
    for h in hashes {
        buf.extend_from_slice(&h.to_le_bytes());
    }
    buf.extend_from_slice(TAIL);
    let _ = f.write_all(&buf);
    let _ = f.flush();
}

fn read_records(path: &str) -> Vec<(Value, Vec<u64>)> {
    let mut out = vec![];
    let mut data = vec![];
    if let Ok(mut f) = std::fs::File::open(path) {
        let _ = f.read_to_end(&mut data);
    }
    let mut p = 0usize;
    loop {
        if p + 8 > data.len() || &data[p..p + 4] != MAGIC {
            break;
        }
        let jl = u32::from_le_bytes(data[p + 4..p + 8].try_into().unwrap()) as usize;
        let q = p + 8 + jl;
        if q + 4 > data.len() {
            break;
        }
        let nh = u32::from_le_bytes(data[q..q + 4].try_into().unwrap()) as usize;
        let r = q + 4 + nh * 8;
        if r + 4 > data.len() || &data[r..r + 4] != TAIL {
            break;
        }
        let Ok(v) = serde_json::from_slice::<Value>(&data[p + 8..q]) else { break };
        let hashes = (0..nh).map(|k| u64::from_le_bytes(data[q + 4 + 8 * k..q + 12 + 8 * k].try_into().unwrap())).collect();
        out.push((v, hashes));
        p = r + 4;
    }
    out
}

// ---------------------------------------------------------------------------------------------
// worker side

struct Slot {
    idx1: AtomicU64,
    since_ms: AtomicU64,
}

/// `spec`: {"log": path, "slots": path, "done": [chunk ids], "skip": [indices], "stall_ms": n, "single": idx?}
pub fn worker_main(space: &dyn Space, spec: &Value) -> i32 {
    use std::os::unix::fs::FileExt;
    let n = space.len();
    if let Some(i) = spec["single"].as_u64() {
        // run one case alone; the exit status (or the signal) is the answer
        let mut a = Acc::default();
        if i < n {
            space.run(i, &mut a);
        }
        return 0;
    }
    let log_path = spec["log"].as_str().unwrap_or("").to_string();
    let slots_path = spec["slots"].as_str().unwrap_or("").to_string();
    let done: BTreeSet<u64> = spec["done"].as_array().map(|a| a.iter().filter_map(|x| x.as_u64()).collect()).unwrap_or_default();
    let skip: BTreeSet<u64> = spec["skip"].as_array().map(|a| a.iter().filter_map(|x| x.as_u64()).collect()).unwrap_or_default();
    let stall_ms = spec["stall_ms"].as_u64().unwrap_or(10_000);
    let nthreads = spec["threads"].as_u64().unwrap_or(16) as usize;
    let nchunks = (n + CHUNK - 1) / CHUNK;
    let log = Mutex::new(std::fs::OpenOptions::new().create(true).append(true).open(&log_path).expect("open log"));
    let slots_file = std::fs::OpenOptions::new().create(true).write(true).truncate(true).open(&slots_path).expect("open slots");
    let _ = slots_file.write_all_at(&vec![0u8; 8 * nthreads], 0);
    let slots: Vec<Slot> = (0..nthreads).map(|_| Slot { idx1: AtomicU64::new(0), since_ms: AtomicU64::new(0) }).collect();
    let next = AtomicU64::new(0);
    let finished = AtomicU64::new(0);
    let t0 = std::time::Instant::now();
    let stalled = AtomicBool::new(false);
    std::thread::scope(|sc| {
        for t in 0..nthreads {
            let (slots, next, finished, log, done, skip, slots_file, stalled) = (&slots, &next, &finished, &log, &done, &skip, &slots_file, &stalled);
            std::thread::Builder::new()
                .stack_size(8 << 20)
                .spawn_scoped(sc, move || {
                    loop {
                        let c = next.fetch_add(1, Ordering::SeqCst);
                        if c >= nchunks || stalled.load(Ordering::SeqCst) {
                            break;
                        }
                        if done.contains(&c) {
                            continue;
                        }
                        let mut a = Acc::default();
                        for i in c * CHUNK..std::cmp::min(n, (c + 1) * CHUNK) {
                            if skip.contains(&i) {
                                continue;
                            }
                            let _ = slots_file.write_all_at(&(i + 1).to_le_bytes(), 8 * t as u64);
                            slots[t].since_ms.store(t0.elapsed().as_millis() as u64, Ordering::SeqCst);
                            slots[t].idx1.store(i + 1, Ordering::SeqCst);
                            space.run(i, &mut a);
                            slots[t].idx1.store(0, Ordering::SeqCst);
                        }
                        let _ = slots_file.write_all_at(&0u64.to_le_bytes(), 8 * t as u64);
                        let hashes = std::mem::take(&mut a.nontrivial);
                        let mut f = log.lock().unwrap();
                        write_record(&mut f, &json!({"t": "chunk", "c": c, "acc": a.to_json()}), &hashes);
                    }
                    finished.fetch_add(1, Ordering::SeqCst);
                })
                .expect("spawn");
        }
        // watchdog (this thread)
        loop {
            if finished.load(Ordering::SeqCst) as usize == nthreads {
                break;
            }
            std::thread::sleep(std::time::Duration::from_millis(50));
            let now = t0.elapsed().as_millis() as u64;
            let mut overdue = vec![];
            for s in &slots {
                let i1 = s.idx1.load(Ordering::SeqCst);
                if i1 != 0 && now.saturating_sub(s.since_ms.load(Ordering::SeqCst)) > stall_ms {
                    overdue.push(i1 - 1);
                }
            }
            if !overdue.is_empty() {
                stalled.store(true, Ordering::SeqCst);
                // give the other threads a moment to finish and log their current chunk
                let deadline = std::time::Instant::now() + std::time::Duration::from_millis(1500);
                while std::time::Instant::now() < deadline {
                    let busy = slots.iter().filter(|s| s.idx1.load(Ordering::SeqCst) != 0).count();
                    if busy <= overdue.len() {
                        break;
                    }
                    std::thread::sleep(std::time::Duration::from_millis(20));
                }
                std::thread::sleep(std::time::Duration::from_millis(30));
                let mut f = log.lock().unwrap();
                write_record(&mut f, &json!({"t": "hung", "idx": overdue}), &[]);
                std::process::exit(3);
            }
        }
    });
    let mut f = log.lock().unwrap();
    write_record(&mut f, &json!({"t": "complete"}), &[]);
    0
}

// ---------------------------------------------------------------------------------------------
// parent side

#[derive(Default)]
pub struct IsoStats {
    pub launches: u64,
    pub hung: Vec<u64>,
    /// cases that kill a worker when run alone (signal / abort)
    pub killers: Vec<(u64, String)>,
    /// in-flight cases of a dead worker that could not be attributed (no verdict)
    pub unattributed: Vec<u64>,
    pub incomplete: Option<String>,
}

fn spawn_worker(exe: &str, jobfile: &str, mem_kb: u64) -> std::io::Result<std::process::Child> {
    std::process::Command::new("sh")
        .arg("-c")
        .arg(format!("ulimit -v {}; ulimit -c 0; exec \"$0\" C03 --replay \"$1\"", mem_kb))
        .arg(exe)
        .arg(jobfile)
        .stdin(std::process::Stdio::null())
        .stdout(std::process::Stdio::null())
        .stderr(std::process::Stdio::null())
        .spawn()
}

fn wait_timeout(child: &mut std::process::Child, secs: f64) -> Option<std::process::ExitStatus> {
    let t0 = std::time::Instant::now();
    loop {
        match child.try_wait() {
            Ok(Some(st)) => return Some(st),
            Ok(None) => {}
            Err(_) => return None,
        }
        if t0.elapsed().as_secs_f64() > secs {
            let _ = child.kill();
            let _ = child.wait();
            return None;
        }
        std::thread::sleep(std::time::Duration::from_millis(5));
    }
}

pub fn status_text(st: &std::process::ExitStatus) -> String {
    use std::os::unix::process::ExitStatusExt;
    match (st.code(), st.signal()) {
        (Some(c), _) => format!("exit {}", c),
        (None, Some(s)) => format!("signal {}", s),
        _ => "unknown".to_string(),
    }
}

/// Run the whole space in worker sub-processes. `space_spec` is what the worker needs to rebuild the space.
pub fn run_isolated(space: &dyn Space, space_spec: &Value, dir: &str, stall_ms: u64, overall_secs: f64, max_stalled: usize) -> (Acc, IsoStats) {
    let exe = std::env::current_exe().map(|p| p.to_string_lossy().to_string()).unwrap_or_default();
    let threads = std::thread::available_parallelism().map(|n| n.get()).unwrap_or(16).min(32);
    let n = space.len();
    let nchunks = (n + CHUNK - 1) / CHUNK;
    let mut acc = Acc::default();
    let mut st = IsoStats::default();
    let mut done: BTreeSet<u64> = BTreeSet::new();
    let mut skip: BTreeSet<u64> = BTreeSet::new();
    let t0 = std::time::Instant::now();
    let mem_kb: u64 = 12 << 20; // 12 GiB of address space for the whole worker
    loop {
        if done.len() as u64 == nchunks {
            break;
        }
        if st.hung.len() > max_stalled {
            st.incomplete = Some(format!("{} cases stalled (limit {}): enumeration abandoned with {} of {} chunks done", st.hung.len(), max_stalled, done.len(), nchunks));
            break;
        }
        if t0.elapsed().as_secs_f64() > overall_secs || st.launches > 400 {
            st.incomplete = Some(format!("{} of {} chunks done after {} launches / {:.0}s", done.len(), nchunks, st.launches, t0.elapsed().as_secs_f64()));
            break;
        }
        st.launches += 1;
        let log = format!("{}/log{}.bin", dir, st.launches);
        let slots = format!("{}/slots{}.bin", dir, st.launches);
        let jobfile = format!("{}/job{}.json", dir, st.launches);
        let job = json!({"case": {"kind": "worker", "space": space_spec, "log": log, "slots": slots, "threads": threads,
            "done": done.iter().collect::<Vec<_>>(), "skip": skip.iter().collect::<Vec<_>>(), "stall_ms": stall_ms}});
        std::fs::write(&jobfile, job.to_string()).expect("write job file");
        let status = match spawn_worker(&exe, &jobfile, mem_kb) {
            Ok(mut ch) => wait_timeout(&mut ch, overall_secs),
            Err(e) => {
                st.incomplete = Some(format!("cannot spawn worker: {}", e));
                break;
            }
        };
        let mut complete = false;
        let mut hung_now: Vec<u64> = vec![];
        for (v, hashes) in read_records(&log) {
            match v["t"].as_str() {
                Some("chunk") => {
                    let c = v["c"].as_u64().unwrap_or(u64::MAX);
                    if done.insert(c) {
                        acc.merge(Acc::from_json(&v["acc"], hashes));
                    }
                }
                Some("hung") => hung_now.extend(v["idx"].as_array().map(|a| a.iter().filter_map(|x| x.as_u64()).collect::<Vec<_>>()).unwrap_or_default()),
                Some("complete") => complete = true,
                _ => {}
            }
        }
        let _ = std::fs::remove_file(&log);
        if complete {
            continue; // loop condition re-checks that every chunk is there
        }
        if !hung_now.is_empty() {
            for i in hung_now {
                if skip.insert(i) {
                    st.hung.push(i);
                }
            }
            continue;
        }
        // the worker died: attribute to the in-flight cases
        let mut suspects: Vec<u64> = vec![];
        if let Ok(b) = std::fs::read(&slots) {
            for k in 0..b.len() / 8 {
                let v = u64::from_le_bytes(b[8 * k..8 * k + 8].try_into().unwrap());
                if v != 0 && !skip.contains(&(v - 1)) {
                    suspects.push(v - 1);
                }
            }
        }
        suspects.sort();
        suspects.dedup();
        let mut culprit = false;
        for i in &suspects {
            let jf = format!("{}/single.json", dir);
            let job = json!({"case": {"kind": "worker", "space": space_spec, "single": i}});
            std::fs::write(&jf, job.to_string()).expect("write job file");
            match spawn_worker(&exe, &jf, mem_kb) {
                Ok(mut ch) => match wait_timeout(&mut ch, (stall_ms as f64 / 1000.0) + 5.0) {
                    None => {
                        culprit = true;
                        skip.insert(*i);
                        st.hung.push(*i);
                    }
                    Some(s) if s.success() => {}
                    Some(s) => {
                        culprit = true;
                        skip.insert(*i);
                        st.killers.push((*i, status_text(&s)));
                    }
                },
                Err(_) => {}
            }
        }
        if !culprit {
            if suspects.is_empty() {
                st.incomplete = Some(format!("worker died ({}) with no case in flight", status.map(|s| status_text(&s)).unwrap_or_else(|| "timeout".into())));
                break;
            }
            for i in suspects {
                skip.insert(i);
                st.unattributed.push(i);
            }
        }
    }
    st.hung.sort();
    st.killers.sort();
    st.unattributed.sort();
    (acc, st)
}
