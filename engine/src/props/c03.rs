//! C03 — failure is always loud, success always clean, the assembler never crashes.
//!
//! Three exhaustive families (no sampling):
//!  (1) DAMAGE SWEEP   every single token-level edit of every seed (corpus files + generated programs) and the full
//!                     options grid on 18 representative programs, in-process through `driver::drive`;
//!  (2) DRIVER+FAULTS  every driver corpus job and generated multi-file jobs, fault-free and with every single
//!                     injected I/O fault (k-th get_handle / get_bytes / write_bytes for every k, each file
//!                     permanently missing / unreadable), plus every output format on empty / 1-bit / normal outputs;
//!  (3) PROCESS        one representative of every outcome class of (1)/(2) and every driver job through the real
//!                     binary, plus real file-system faults (input missing / a directory, output path uncreatable).
//! (1) and (2) run in worker sub-processes of `cav` (see c03_iso.rs) so that an abort or a stall costs one case.
//! Oracle (only what the statement says): exactly one of SUCCESS (no error diagnostic, output present, drive Ok,
//! every requested file written, exit 0) or FAILURE (>= 1 error diagnostic, drive Err, exit != 0, nothing written —
//! except earlier groups when the failure is an unwritable output); never a panic / signal / exit 101.
//! Wording and location of messages are never compared.
use super::c03_iso::{self as iso, Acc, Kept, Space};
use crate::run;
use crate::stats::*;
use customasm::*;
use rayon::prelude::*;
use serde_json::{json, Value};
use std::cell::Cell;
use std::collections::{BTreeMap, BTreeSet};
use std::panic::{catch_unwind, AssertUnwindSafe};

pub const ID: &str = "C03";
const OUT: &str = "c03out.bin";

type Files = Vec<(String, Vec<u8>)>;

// =================================================================================================
// small helpers

fn files_to_json(files: &Files) -> Value {
    Value::Array(
        files
            .iter()
            .filter(|(n, _)| !n.starts_with("<std>"))
            .map(|(n, c)| match std::str::from_utf8(c) {
                Ok(s) => json!({"name": n, "text": s}),
                _ => json!({"name": n, "hex": c.iter().map(|b| format!("{:02x}", b)).collect::<String>()}),
            })
            .collect(),
    )
}

fn files_from_json(v: &Value) -> Files {
    let mut out = vec![];
    if let Some(a) = v.as_array() {
        for f in a {
            let name = f["name"].as_str().unwrap_or("").to_string();
            let bytes = if let Some(t) = f["text"].as_str() {
                t.as_bytes().to_vec()
            } else {
                let h = f["hex"].as_str().unwrap_or("");
                (0..h.len() / 2).filter_map(|i| u8::from_str_radix(&h[2 * i..2 * i + 2], 16).ok()).collect()
            };
            out.push((name, bytes));
        }
    }
    out
}

fn lossy(b: &[u8]) -> String {
    String::from_utf8_lossy(b).to_string()
}

/// message text with the quoted parts and digits abstracted (used only to group outcome classes, never in a verdict)
fn normalise_msg(s: &str) -> String {
    let mut out = String::new();
    let mut in_tick = false;
    for ch in s.chars() {
        if ch == '`' {
            in_tick = !in_tick;
            if in_tick {
                out.push_str("`_`");
            }
            continue;
        }
        if in_tick {
            continue;
        }
        if ch.is_ascii_digit() {
            if !out.ends_with('#') {
                out.push('#');
            }
        } else {
            out.push(ch);
        }
    }
    out.chars().take(60).collect()
}

/// printf-style rendering of bytes for a shell one-liner
fn sh_printf(b: &[u8]) -> String {
    let mut s = String::from("printf '");
    for &c in b {
        match c {
            b'\n' => s.push_str("\\n"),
            b'\\' => s.push_str("\\\\"),
            b'%' => s.push_str("%%"),
            b'\'' => s.push_str("'\\''"),
            0x20..=0x7e => s.push(c as char),
            _ => s.push_str(&format!("\\{:03o}", c)),
        }
    }
    s.push('\'');
    s
}

// =================================================================================================
// lexer (my own, deliberately simple; it only decides where the edit boundaries are)

#[derive(Clone, Copy, PartialEq, Eq, Debug)]
pub enum Tk {
    Ident,
    Number,
    Str,
    Punct,
    Space,
    Break,
    Comment,
    Other,
}

pub fn lex(s: &[u8]) -> Vec<(Tk, usize, usize)> {
    let mut v = vec![];
    let n = s.len();
    let mut i = 0;
    while i < n {
        let c = s[i];
        let st = i;
        let kind;
        if c == b'\n' {
            i += 1;
            kind = Tk::Break;
        } else if c == b'\r' && i + 1 < n && s[i + 1] == b'\n' {
            i += 2;
            kind = Tk::Break;
        } else if c == b' ' || c == b'\t' {
            while i < n && (s[i] == b' ' || s[i] == b'\t') {
                i += 1;
            }
            kind = Tk::Space;
        } else if c == b';' && i + 1 < n && s[i + 1] == b'*' {
            let mut depth = 0usize;
            loop {
                if i + 1 < n && s[i] == b';' && s[i + 1] == b'*' {
                    depth += 1;
                    i += 2;
                } else if i + 1 < n && s[i] == b'*' && s[i + 1] == b';' {
                    depth -= 1;
                    i += 2;
                    if depth == 0 {
                        break;
                    }
                } else if i < n {
                    i += 1;
                } else {
                    break;
                }
            }
            kind = Tk::Comment;
        } else if c == b';' {
            while i < n && s[i] != b'\n' && !(s[i] == b'\r' && i + 1 < n && s[i + 1] == b'\n') {
                i += 1;
            }
            kind = Tk::Comment;
        } else if c == b'"' || c == b'\'' {
            i += 1;
            while i < n && s[i] != c && s[i] != b'\n' {
                if s[i] == b'\\' && i + 1 < n && s[i + 1] != b'\n' {
                    i += 1;
                }
                i += 1;
            }
            if i < n && s[i] == c {
                i += 1;
            }
            kind = Tk::Str;
        } else if c.is_ascii_alphabetic() || c == b'_' {
            while i < n && (s[i].is_ascii_alphanumeric() || s[i] == b'_') {
                i += 1;
            }
            kind = Tk::Ident;
        } else if c.is_ascii_digit() {
            while i < n && (s[i].is_ascii_alphanumeric() || s[i] == b'_') {
                i += 1;
            }
            kind = Tk::Number;
        } else if c >= 0x80 {
            // one UTF-8 sequence (or one stray byte)
            let len = if c >= 0xf0 { 4 } else if c >= 0xe0 { 3 } else if c >= 0xc0 { 2 } else { 1 };
            i += 1;
            let mut k = 1;
            while k < len && i < n && (s[i] & 0xc0) == 0x80 {
                i += 1;
                k += 1;
            }
            kind = Tk::Other;
        } else {
            const MULTI: [&[u8]; 12] = [b">>>", b"=>", b"==", b"!=", b"<=", b">=", b"<<", b">>", b"&&", b"||", b"->", b"::"];
            let mut l = 1;
            for m in MULTI {
                if s[i..].starts_with(m) {
                    l = m.len();
                    break;
                }
            }
            i += l;
            kind = if c.is_ascii_punctuation() { Tk::Punct } else { Tk::Other };
        }
        v.push((kind, st, i));
    }
    v
}

/// identifiers that are kept verbatim in an input signature (everything else is abstracted)
const KEEP_IDENTS: [&str; 44] = [
    "asm", "true", "false", "d", "d8", "d16", "d32", "res", "align", "addr", "bank", "bankdef", "bits", "labelalign", "outp", "size", "fill", "addr_end", "size_b", "ruledef",
    "subruledef", "fn", "const", "noemit", "if", "elif", "else", "include", "once", "assert", "incbin", "incbinstr", "inchexstr", "le", "sizeof", "utf8", "utf16be", "ascii", "strlen", "u8",
    "s8", "i8", "pc", "addr_unit",
];

/// input-side shape of a (minimised) program: keywords, punctuation and small numbers verbatim, the rest abstracted
fn signature(text: &[u8]) -> String {
    let mut parts: Vec<String> = vec![];
    for (k, a, b) in lex(text) {
        let t = &text[a..b];
        match k {
            Tk::Space | Tk::Comment => {}
            Tk::Break => {}
            Tk::Ident => {
                let s = lossy(t).to_ascii_lowercase();
                parts.push(if KEEP_IDENTS.contains(&s.as_str()) { s } else { "x".into() })
            }
            Tk::Number => parts.push(if t.iter().all(|c| *c == b'0') { "0".into() } else { "N".into() }),
            Tk::Str => parts.push("\"s\"".into()),
            Tk::Punct => parts.push(if [&b"#"[..], b"{", b"}", b"=>", b":", b"=", b"$"].contains(&t) { lossy(t) } else { "p".into() }),
            Tk::Other => parts.push(if t[0] >= 0x80 { "U".into() } else { format!("\\x{:02x}", t[0]) }),
        }
    }
    parts.join(" ").chars().take(70).collect()
}

// =================================================================================================
// damage alphabet

const ALPHA_QUICK: [&[u8]; 16] = [b"{", b"}", b"(", b")", b"\"", b"#", b":", b",", b"=", b"=>", b"-", b"asm", b"x", b"0x", b"\n", "\u{e9}".as_bytes()];

fn alphabet(thorough: bool) -> Vec<Vec<u8>> {
    if !thorough {
        return ALPHA_QUICK.iter().map(|a| a.to_vec()).collect();
    }
    let mut v: Vec<Vec<u8>> = vec![];
    for p in [
        "{", "}", "(", ")", "[", "]", "\"", "'", "\\", "#", ".", ":", ",", "=", "=>", "+", "-", "*", "/", "%", "<", ">", "!", "&", "|", "^", "~", "@", "?", "`", "asm", "true", "x", "0", "0x", "0b2",
        "08", "1_", "\n", ";*", "*;", "\u{e9}", "\u{2192}", "\u{1f600}", "\u{feff}", "\r", "\u{0}",
    ] {
        v.push(p.as_bytes().to_vec());
    }
    v.push(vec![0xff]);
    v
}

// =================================================================================================
// edits

#[derive(Clone, Copy, Debug)]
enum Edit {
    None,
    Delete(usize),
    Dup(usize),
    Swap(usize),
    Replace(usize, usize),
    Insert(usize, usize),
}

fn edit_count(n: usize, a: usize) -> u64 {
    // identity + delete n + dup n + swap (n-1) + replace n*a + insert (n+1)*a
    (1 + n + n + n.saturating_sub(1) + n * a + (n + 1) * a) as u64
}

fn edit_decode(mut i: u64, n: usize, a: usize) -> Edit {
    let (n64, a64) = (n as u64, a as u64);
    if i == 0 {
        return Edit::None;
    }
    i -= 1;
    if i < n64 {
        return Edit::Delete(i as usize);
    }
    i -= n64;
    if i < n64 {
        return Edit::Dup(i as usize);
    }
    i -= n64;
    let sw = n64.saturating_sub(1);
    if i < sw {
        return Edit::Swap(i as usize);
    }
    i -= sw;
    if i < n64 * a64 {
        return Edit::Replace((i / a64) as usize, (i % a64) as usize);
    }
    i -= n64 * a64;
    Edit::Insert((i / a64) as usize, (i % a64) as usize)
}

/// returns the edited text and the byte position of the edit
fn apply_edit(src: &[u8], toks: &[(Tk, usize, usize)], e: Edit, alpha: &[Vec<u8>]) -> (Vec<u8>, usize) {
    let t = |k: usize| &src[toks[k].1..toks[k].2];
    let mut out = Vec::with_capacity(src.len() + 8);
    let pos;
    match e {
        Edit::None => {
            out.extend_from_slice(src);
            pos = 0;
        }
        Edit::Delete(k) => {
            pos = toks[k].1;
            out.extend_from_slice(&src[..toks[k].1]);
            out.extend_from_slice(&src[toks[k].2..]);
        }
        Edit::Dup(k) => {
            pos = toks[k].1;
            out.extend_from_slice(&src[..toks[k].2]);
            out.extend_from_slice(t(k));
            out.extend_from_slice(&src[toks[k].2..]);
        }
        Edit::Swap(k) => {
            pos = toks[k].1;
            out.extend_from_slice(&src[..toks[k].1]);
            out.extend_from_slice(t(k + 1));
            out.extend_from_slice(t(k));
            out.extend_from_slice(&src[toks[k + 1].2..]);
        }
        Edit::Replace(k, a) => {
            pos = toks[k].1;
            out.extend_from_slice(&src[..toks[k].1]);
            out.extend_from_slice(&alpha[a]);
            out.extend_from_slice(&src[toks[k].2..]);
        }
        Edit::Insert(k, a) => {
            pos = if k < toks.len() { toks[k].1 } else { src.len() };
            out.extend_from_slice(&src[..pos]);
            out.extend_from_slice(&alpha[a]);
            out.extend_from_slice(&src[pos..]);
        }
    }
    (out, pos)
}

fn edit_json(e: Edit, alpha: &[Vec<u8>]) -> Value {
    match e {
        Edit::None => json!("none"),
        Edit::Delete(k) => json!({"delete_token": k}),
        Edit::Dup(k) => json!({"duplicate_token": k}),
        Edit::Swap(k) => json!({"swap_token_with_next": k}),
        Edit::Replace(k, a) => json!({"replace_token": k, "by": lossy(&alpha[a])}),
        Edit::Insert(k, a) => json!({"insert_before_token": k, "token": lossy(&alpha[a])}),
    }
}

// =================================================================================================
// jobs, the fault-injecting file server, one judged in-process run

/// One command line over a set of files. `root` is the primary input (the file edits / minimisation work on).
#[derive(Clone, Debug)]
pub struct Job {
    pub files: Files,
    pub args: Vec<String>,
    pub root: String,
    /// generator-side facts about the input (e.g. "label-offset<16")
    pub tags: Vec<String>,
}

impl Job {
    fn asm(files: Files, root: &str, extra: &[&str]) -> Job {
        let mut args = vec![root.to_string(), "-q".to_string(), "-o".to_string(), OUT.to_string()];
        args.extend(extra.iter().map(|s| s.to_string()));
        Job { files, args, root: root.to_string(), tags: vec![] }
    }
    fn to_json(&self) -> Value {
        json!({"files": files_to_json(&self.files), "args": self.args, "root": self.root, "tags": self.tags,
            "uses_std": self.files.iter().any(|f| f.0.starts_with("<std>"))})
    }
    fn from_json(v: &Value, stdf: &Files) -> Job {
        let mut files = files_from_json(&v["files"]);
        if v["uses_std"].as_bool().unwrap_or(false) {
            files.extend(stdf.iter().cloned());
        }
        let strs = |x: &Value| x.as_array().map(|a| a.iter().filter_map(|s| s.as_str().map(|s| s.to_string())).collect::<Vec<_>>()).unwrap_or_default();
        Job { files, args: strs(&v["args"]), root: v["root"].as_str().unwrap_or("").to_string(), tags: strs(&v["tags"]) }
    }
    fn size(&self) -> usize {
        self.files.iter().filter(|f| f.0.ends_with(".asm") && !f.0.starts_with("<std>")).map(|f| f.1.len()).sum::<usize>() + self.args.iter().map(|a| a.len() + 1).sum::<usize>()
    }
    fn root_text(&self) -> &[u8] {
        self.files.iter().find(|f| f.0 == self.root).map(|f| f.1.as_slice()).unwrap_or(&[])
    }
    fn with_root_text(&self, t: Vec<u8>) -> Job {
        let mut j = self.clone();
        if let Some(f) = j.files.iter_mut().find(|f| f.0 == self.root) {
            f.1 = t;
        }
        j
    }
    /// shell commands that reproduce the job with the real binary in an empty directory
    fn shell(&self) -> String {
        let mut s = String::new();
        for (n, c) in &self.files {
            if n.starts_with("<std>") {
                continue;
            }
            if let Some(p) = n.rfind('/') {
                s += &format!("mkdir -p '{}'; ", &n[..p]);
            }
            s += &format!("{} > '{}'; ", sh_printf(c), n);
        }
        s += "customasm";
        for a in &self.args {
            s += &format!(" '{}'", a.replace('\'', "'\\''"));
        }
        s
    }
}

/// The output files a command line asks for (per the usage text: one per group unless `-p`; `-o NAME` or the first
/// input's name with the format's extension). Used only for "success => every requested file written".
fn requested_of(args: &[String]) -> Vec<String> {
    let mut inputs: Vec<String> = vec![];
    let mut groups: Vec<(Option<String>, Option<String>, bool)> = vec![];
    for g in args.split(|a| a == "--") {
        let (mut fmt, mut out, mut print) = (None, None, false);
        let mut i = 0;
        while i < g.len() {
            let a = g[i].as_str();
            let next_is_value = i + 1 < g.len() && !g[i + 1].starts_with('-');
            if a == "-f" || a == "--format" {
                if i + 1 < g.len() {
                    fmt = Some(g[i + 1].clone());
                    i += 1;
                }
            } else if let Some(v) = a.strip_prefix("--format=") {
                fmt = Some(v.to_string());
            } else if a == "-o" || a == "--output" {
                if next_is_value {
                    out = Some(g[i + 1].clone());
                    i += 1;
                }
            } else if let Some(v) = a.strip_prefix("--output=") {
                out = Some(v.to_string());
            } else if a == "-p" || a == "--print" {
                print = true;
            } else if a == "-d" || a == "--define" {
                i += 1;
            } else if a == "-t" || a == "--iters" || a == "--color" {
                if next_is_value {
                    i += 1;
                }
            } else if a.starts_with("--") {
            } else if let Some(v) = a.strip_prefix("-f") {
                fmt = Some(v.to_string());
            } else if let Some(v) = a.strip_prefix("-o") {
                out = Some(v.to_string());
            } else if a.starts_with('-') && a.len() > 1 {
            } else {
                inputs.push(a.to_string());
            }
            i += 1;
        }
        groups.push((fmt, out, print));
    }
    let mut req = vec![];
    for (fmt, out, print) in groups {
        if print {
            continue;
        }
        if let Some(o) = out {
            req.push(o);
        } else if let Some(first) = inputs.first() {
            let id = fmt.as_deref().unwrap_or("binary").split(',').next().unwrap_or("").to_string();
            let ext = match id.as_str() {
                "binary" => "bin",
                "mesen-mlb" => "mlb",
                _ => "txt",
            };
            let mut p = std::path::PathBuf::from(first);
            p.set_extension(ext);
            req.push(p.to_string_lossy().replace('\\', "/"));
        }
    }
    req
}

#[derive(Clone, Debug, PartialEq, Eq, Hash)]
pub enum Fault {
    None,
    /// the k-th call (1-based) of the operation fails with a reported error
    Handle(usize),
    Bytes(usize),
    Write(usize),
    /// the named file does not exist / exists but cannot be read (a directory in its place)
    Missing(String),
    Unreadable(String),
}

impl Fault {
    fn kind(&self) -> &'static str {
        match self {
            Fault::None => "none",
            Fault::Handle(_) => "get_handle",
            Fault::Bytes(_) => "get_bytes",
            Fault::Write(_) => "write_bytes",
            Fault::Missing(_) => "file-missing",
            Fault::Unreadable(_) => "file-unreadable",
        }
    }
    fn to_json(&self) -> Value {
        match self {
            Fault::None => Value::Null,
            Fault::Handle(k) | Fault::Bytes(k) | Fault::Write(k) => json!({"op": self.kind(), "k": k}),
            Fault::Missing(n) | Fault::Unreadable(n) => json!({"op": self.kind(), "file": n}),
        }
    }
    fn from_json(v: &Value) -> Fault {
        let k = v["k"].as_u64().unwrap_or(0) as usize;
        let f = v["file"].as_str().unwrap_or("").to_string();
        match v["op"].as_str() {
            Some("get_handle") => Fault::Handle(k),
            Some("get_bytes") => Fault::Bytes(k),
            Some("write_bytes") => Fault::Write(k),
            Some("file-missing") => Fault::Missing(f),
            Some("file-unreadable") => Fault::Unreadable(f),
            _ => Fault::None,
        }
    }
}

pub struct FaultyFs {
    inner: util::FileServerMock,
    fault: Fault,
    nh: Cell<usize>,
    nb: Cell<usize>,
    nw: usize,
    fired: Cell<bool>,
    fired_write: bool,
    writes: Vec<(String, Vec<u8>)>,
    /// names resolved / handles read successfully so far (a k-th-call fault on one of them is not a permanent fault)
    seen_names: BTreeSet<String>,
    seen_reads: std::cell::RefCell<BTreeSet<usize>>,
    transient: Cell<bool>,
}

fn inject(report: &mut diagn::Report, span: Option<diagn::Span>, descr: String) {
    match span {
        Some(s) => report.error_span(descr, s),
        None => report.error(descr),
    }
}

impl util::FileServer for FaultyFs {
    fn get_handle(&mut self, report: &mut diagn::Report, span: Option<diagn::Span>, filename: &str) -> Result<util::FileServerHandle, ()> {
        self.nh.set(self.nh.get() + 1);
        let fail = match &self.fault {
            Fault::Handle(k) => *k == self.nh.get(),
            Fault::Missing(n) => n == filename,
            _ => false,
        };
        if fail {
            self.fired.set(true);
            if self.seen_names.contains(filename) {
                self.transient.set(true);
            }
            inject(report, span, format!("file not found: `{}` (injected)", filename));
            return Err(());
        }
        let r = self.inner.get_handle(report, span, filename);
        if r.is_ok() {
            self.seen_names.insert(filename.to_string());
        }
        r
    }
    fn get_filename(&self, h: util::FileServerHandle) -> &str {
        self.inner.get_filename(h)
    }
    fn get_bytes(&self, report: &mut diagn::Report, span: Option<diagn::Span>, h: util::FileServerHandle) -> Result<Vec<u8>, ()> {
        self.nb.set(self.nb.get() + 1);
        let fail = match &self.fault {
            Fault::Bytes(k) => *k == self.nb.get(),
            Fault::Unreadable(n) => n == self.inner.get_filename(h),
            _ => false,
        };
        if fail {
            self.fired.set(true);
            if self.seen_reads.borrow().contains(&h) {
                self.transient.set(true);
            }
            inject(report, span, format!("could not read file `{}` (injected)", self.inner.get_filename(h)));
            return Err(());
        }
        self.seen_reads.borrow_mut().insert(h);
        self.inner.get_bytes(report, span, h)
    }
    fn write_bytes(&mut self, report: &mut diagn::Report, span: Option<diagn::Span>, filename: &str, data: &Vec<u8>) -> Result<(), ()> {
        self.nw += 1;
        if self.fault == Fault::Write(self.nw) {
            self.fired.set(true);
            self.fired_write = true;
            inject(report, span, format!("could not create file `{}` (injected)", filename));
            return Err(());
        }
        self.writes.push((filename.to_string(), data.clone()));
        self.inner.write_bytes(report, span, filename, data)
    }
}

#[derive(Clone, Debug, Default)]
pub struct JobObs {
    /// (where: "drive" | "print_all", panic text)
    panicked: Option<(&'static str, String)>,
    ok: bool,
    /// bit length of AssemblyResult.output when drive returned Ok
    output_len: Option<usize>,
    has_errors: bool,
    /// (name, length, content hash) of every successful write
    writes: Vec<(String, usize, u64)>,
    fired: bool,
    fired_write: bool,
    /// the injected k-th-call fault hit a file that had been resolved / read successfully before (not a permanent fault)
    transient: bool,
    /// calls of get_handle / get_bytes / write_bytes made by drive()
    calls: (usize, usize, usize),
    first_msg: String,
    msgs: Vec<String>,
}

pub fn run_job(job: &Job, fault: &Fault) -> JobObs {
    let mut fs = FaultyFs { inner: run::mock(&job.files), fault: fault.clone(), nh: Cell::new(0), nb: Cell::new(0), nw: 0, fired: Cell::new(false), fired_write: false, writes: vec![], seen_names: BTreeSet::new(), seen_reads: std::cell::RefCell::new(BTreeSet::new()), transient: Cell::new(false) };
    let mut report = diagn::Report::new();
    let mut argv: Vec<String> = vec!["customasm".to_string()];
    argv.extend(job.args.iter().cloned());
    let r = catch_unwind(AssertUnwindSafe(|| crate::driver::drive(&mut report, &argv, &mut fs)));
    let mut o = JobObs::default();
    o.calls = (fs.nh.get(), fs.nb.get(), fs.nw);
    match r {
        Ok(Ok(res)) => {
            o.ok = true;
            o.output_len = res.output.as_ref().map(|b| b.len());
        }
        Ok(Err(())) => {}
        Err(e) => o.panicked = Some(("drive", run::panic_text(e))),
    }
    o.has_errors = report.has_errors();
    o.fired = fs.fired.get();
    o.fired_write = fs.fired_write;
    o.transient = fs.transient.get();
    o.writes = fs.writes.iter().map(|(n, b)| (n.clone(), b.len(), fnv(b))).collect();
    if o.panicked.is_none() && report.has_messages() {
        // what drive_from_commandline does next
        for colors in [true, false] {
            let r = catch_unwind(AssertUnwindSafe(|| {
                let mut sink = Vec::<u8>::new();
                report.print_all(&mut sink, &fs, colors);
            }));
            if let Err(e) = r {
                o.panicked = Some(("print_all", run::panic_text(e)));
                break;
            }
        }
    }
    o.transient = fs.transient.get();
    if let Ok(m) = catch_unwind(AssertUnwindSafe(|| run::messages_of(&fs, &report))) {
        o.first_msg = m.iter().find(|m| m.kind == "error").map(|m| normalise_msg(&m.descr)).unwrap_or_default();
        o.msgs = m.iter().take(6).map(|m| m.flat().chars().take(200).collect()).collect();
    }
    o
}

#[derive(Clone, Debug, PartialEq, Eq)]
pub enum Verdict {
    Success,
    Failure,
    /// failure whose cause is an unwritable output: earlier groups may have been written
    FailureUnwritable,
    Panic(&'static str),
    /// drive Ok although an error diagnostic was reported (output delivered with an error)
    OkWithErrors,
    /// drive Ok, no error, but a requested file was not written / no output present
    OkMissingOutput,
    /// drive Err without any error diagnostic
    ErrSilent,
    /// drive Err (not an unwritable output) although something was written
    ErrButWritten,
}

impl Verdict {
    fn name(&self) -> String {
        match self {
            Verdict::Success => "success".into(),
            Verdict::Failure => "failure".into(),
            Verdict::FailureUnwritable => "failure-unwritable-output".into(),
            Verdict::Panic(w) => format!("panic-in-{}", w),
            Verdict::OkWithErrors => "error-with-output".into(),
            Verdict::OkMissingOutput => "ok-missing-output".into(),
            Verdict::ErrSilent => "silent-failure".into(),
            Verdict::ErrButWritten => "failure-but-written".into(),
        }
    }
    fn good(&self) -> bool {
        matches!(self, Verdict::Success | Verdict::Failure | Verdict::FailureUnwritable)
    }
    fn describe(&self) -> &'static str {
        match self {
            Verdict::Panic(_) => "panic",
            Verdict::OkWithErrors => "an error diagnostic is reported while the run succeeds and delivers its output",
            Verdict::OkMissingOutput => "the run succeeds but a requested output is absent",
            Verdict::ErrSilent => "the run fails without any error diagnostic",
            Verdict::ErrButWritten => "the run fails but output was written",
            _ => "",
        }
    }
}

pub fn judge(job: &Job, o: &JobObs) -> Verdict {
    if let Some((w, _)) = &o.panicked {
        return Verdict::Panic(w);
    }
    if o.ok {
        if o.has_errors {
            return Verdict::OkWithErrors;
        }
        let req = requested_of(&job.args);
        if o.output_len.is_none() || req.iter().any(|r| !o.writes.iter().any(|w| &w.0 == r)) {
            return Verdict::OkMissingOutput;
        }
        Verdict::Success
    } else {
        if !o.has_errors {
            return Verdict::ErrSilent;
        }
        if o.fired_write {
            return Verdict::FailureUnwritable;
        }
        if !o.writes.is_empty() {
            return Verdict::ErrButWritten;
        }
        Verdict::Failure
    }
}

fn obs_json(o: &JobObs, v: &Verdict) -> Value {
    json!({"verdict": v.name(), "drive_ok": o.ok, "output_bits": o.output_len, "has_errors": o.has_errors, "panic": o.panicked.as_ref().map(|p| format!("{}: {}", p.0, p.1.chars().take(160).collect::<String>())),
        "written": o.writes.iter().map(|w| format!("{} ({} bytes)", w.0, w.1)).collect::<Vec<_>>(), "messages": o.msgs, "fault_fired": o.fired})
}

// =================================================================================================
// attribution: an input-side key for a violating case (never a message text or a panic location).
// The key names the smallest feature of the input whose removal makes the violation disappear.

fn same_verdict(job: &Job, fault: &Fault, v0: &Verdict) -> bool {
    &judge(job, &run_job(job, fault)) == v0
}

fn map_asm_files(job: &Job, f: impl Fn(&[u8]) -> Vec<u8>) -> Job {
    let mut j = job.clone();
    for (n, c) in j.files.iter_mut() {
        if n.ends_with(".asm") && !n.starts_with("<std>") {
            *c = f(c);
        }
    }
    j
}

fn has_non_ascii(job: &Job) -> bool {
    job.files.iter().any(|(n, c)| n.ends_with(".asm") && !n.starts_with("<std>") && c.iter().any(|b| *b >= 0x80))
}

fn strip_non_ascii(job: &Job) -> Job {
    map_asm_files(job, |c| {
        let mut out = vec![];
        for (k, a, b) in lex(c) {
            if k == Tk::Other && c[a] >= 0x80 {
                out.push(b'?');
            } else {
                out.extend(c[a..b].iter().map(|x| if *x >= 0x80 { b'?' } else { *x }));
            }
        }
        out
    })
}

fn iters_arg_positions(args: &[String]) -> Vec<usize> {
    let mut v = vec![];
    let mut i = 0;
    while i < args.len() {
        let a = &args[i];
        if a == "-t" || a == "--iters" {
            v.push(i);
            if i + 1 < args.len() && !args[i + 1].starts_with('-') {
                v.push(i + 1);
                i += 1;
            }
        } else if a.starts_with("--iters=") || (a.starts_with("-t") && a.len() > 2 && !a.starts_with("--")) {
            v.push(i);
        }
        i += 1;
    }
    v
}

fn define_arg_positions(args: &[String]) -> (Vec<usize>, Vec<String>) {
    let mut pos = vec![];
    let mut names = vec![];
    let mut i = 0;
    while i < args.len() {
        let a = &args[i];
        let mut val: Option<String> = None;
        if a == "-d" || a == "--define" {
            pos.push(i);
            if i + 1 < args.len() {
                pos.push(i + 1);
                val = Some(args[i + 1].clone());
                i += 1;
            }
        } else if let Some(v) = a.strip_prefix("--define=") {
            pos.push(i);
            val = Some(v.to_string());
        } else if let Some(v) = a.strip_prefix("-d") {
            if !a.starts_with("--") {
                pos.push(i);
                val = Some(v.to_string());
            }
        }
        if let Some(v) = val {
            names.push(v.split('=').next().unwrap_or("").to_string());
        }
        i += 1;
    }
    (pos, names)
}

fn without_args(job: &Job, pos: &[usize]) -> Job {
    let mut j = job.clone();
    j.args = job.args.iter().enumerate().filter(|(i, _)| !pos.contains(i)).map(|(_, a)| a.clone()).collect();
    j
}

fn format_of(args: &[String]) -> Vec<(usize, String)> {
    // (arg index holding the format value, format id) for every group that names a format
    let mut v = vec![];
    let mut i = 0;
    while i < args.len() {
        let a = &args[i];
        if (a == "-f" || a == "--format") && i + 1 < args.len() {
            v.push((i + 1, args[i + 1].clone()));
            i += 1;
        } else if let Some(x) = a.strip_prefix("--format=") {
            v.push((i, x.to_string()));
        } else if a.starts_with("-f") && !a.starts_with("--") && a.len() > 2 {
            v.push((i, a[2..].to_string()));
        }
        i += 1;
    }
    v
}

fn drop_assert_lines(c: &[u8]) -> Vec<u8> {
    // remove every `# assert ...` statement up to the end of its line (the `#` may be separated from the name by blanks)
    let toks = lex(c);
    let blank = |k: usize| matches!(toks[k].0, Tk::Space | Tk::Break) || (toks[k].0 == Tk::Other && c[toks[k].1] < 0x21);
    let mut out = vec![];
    let mut i = 0;
    while i < toks.len() {
        let (k, a, b) = toks[i];
        if k == Tk::Punct && &c[a..b] == b"#" {
            let mut j = i + 1;
            while j < toks.len() && blank(j) {
                j += 1;
            }
            if j < toks.len() && toks[j].0 == Tk::Ident && &c[toks[j].1..toks[j].2] == b"assert" {
                while j < toks.len() && toks[j].0 != Tk::Break {
                    j += 1;
                }
                i = j;
                continue;
            }
        }
        out.extend_from_slice(&c[a..b]);
        i += 1;
    }
    out
}

/// a zero-valued number literal whose replacement by 8 removes the violation: the name of the field it belongs to
fn zero_field(job: &Job, v0: &Verdict) -> Option<String> {
    let text = job.root_text().to_vec();
    let toks = lex(&text);
    for (i, (k, a, b)) in toks.iter().enumerate() {
        if *k != Tk::Number {
            continue;
        }
        let t = lossy(&text[*a..*b]).to_ascii_lowercase().replace('_', "");
        let digits = t.strip_prefix("0x").or(t.strip_prefix("0b")).or(t.strip_prefix("0o")).unwrap_or(&t);
        if digits.is_empty() || !digits.chars().all(|c| c == '0') {
            continue;
        }
        let mut t2 = text[..*a].to_vec();
        t2.extend_from_slice(b"8");
        t2.extend_from_slice(&text[*b..]);
        if !same_verdict(&job.with_root_text(t2), &Fault::None, v0) {
            let field = toks[..i].iter().rev().find(|t| t.0 == Tk::Ident).map(|t| lossy(&text[t.1..t.2]).to_ascii_lowercase()).filter(|f| KEEP_IDENTS.contains(&f.as_str())).unwrap_or_else(|| "value".into());
            return Some(field);
        }
    }
    None
}

/// Deterministic reduction of the job preserving the verdict: surplus arguments, then runs of lines, then runs of
/// tokens of the root file (chunk sizes halving down to 1, repeated to a fixed point); bounded effort.
fn minimise(job: &Job, fault: &Fault, v0: &Verdict) -> Job {
    let mut budget = 1500usize;
    let mut cur = job.clone();
    // arguments (never the primary input)
    let mut k = cur.args.len();
    while k > 0 && budget > 0 {
        k -= 1;
        if cur.args[k] == cur.root {
            continue;
        }
        let mut cand = cur.clone();
        cand.args.remove(k);
        budget -= 1;
        if same_verdict(&cand, fault, v0) {
            cur = cand;
        }
    }
    // files other than the primary input
    let mut k = cur.files.len();
    while k > 0 && budget > 0 {
        k -= 1;
        if cur.files[k].0 == cur.root || cur.files[k].0.starts_with("<std>") {
            continue;
        }
        let mut cand = cur.clone();
        cand.files.remove(k);
        budget -= 1;
        if same_verdict(&cand, fault, v0) {
            cur = cand;
        }
    }
    fn pieces_lines(t: &[u8]) -> Vec<(usize, usize)> {
        let mut v = vec![];
        let mut st = 0;
        for (i, b) in t.iter().enumerate() {
            if *b == b'\n' {
                v.push((st, i + 1));
                st = i + 1;
            }
        }
        if st < t.len() {
            v.push((st, t.len()));
        }
        v
    }
    fn pieces_tokens(t: &[u8]) -> Vec<(usize, usize)> {
        lex(t).into_iter().map(|(_, a, b)| (a, b)).collect()
    }
    for splitter in [pieces_lines as fn(&[u8]) -> Vec<(usize, usize)>, pieces_tokens] {
        loop {
            let mut progress = false;
            let n0 = splitter(cur.root_text()).len();
            let mut size = std::cmp::max(1, n0 / 2);
            loop {
                let mut start = 0usize;
                loop {
                    let text = cur.root_text().to_vec();
                    let ps = splitter(&text);
                    if start >= ps.len() || budget == 0 {
                        break;
                    }
                    let end = std::cmp::min(ps.len(), start + size);
                    let mut t2 = text[..ps[start].0].to_vec();
                    t2.extend_from_slice(&text[ps[end - 1].1..]);
                    budget -= 1;
                    let cand = cur.with_root_text(t2);
                    if same_verdict(&cand, fault, v0) {
                        cur = cand;
                        progress = true;
                    } else {
                        start += size;
                    }
                }
                if size == 1 || budget == 0 {
                    break;
                }
                size /= 2;
            }
            if !progress || budget == 0 {
                break;
            }
        }
    }
    cur
}

/// (key, minimised job when the key had to be derived from one)
pub fn attribute(job: &Job, fault: &Fault, v0: &Verdict) -> (String, Option<Job>) {
    if *fault != Fault::None {
        // does the fault matter at all?
        if !same_verdict(job, &Fault::None, v0) {
            return (format!("C03:fault:{}:{}", fault.kind(), v0.name()), None);
        }
    }
    let nf = Fault::None;
    if let Verdict::Panic(wher) = v0 {
        if has_non_ascii(job) {
            let j2 = strip_non_ascii(job);
            if !same_verdict(&j2, &nf, v0) {
                let key = if *wher == "print_all" { "C03:multibyte-char-diagnostic" } else { "C03:non-ascii-char-panic" };
                return (key.to_string(), None);
            }
        }
        let ip = iters_arg_positions(&job.args);
        if !ip.is_empty() {
            let j2 = without_args(job, &ip);
            if !same_verdict(&j2, &nf, v0) {
                let has_asm = job.files.iter().any(|(n, c)| n.ends_with(".asm") && lex(c).iter().any(|(k, a, b)| *k == Tk::Ident && &c[*a..*b] == b"asm"));
                let key = if has_asm { "C03:asm-iters1-empty-msgs" } else { "C03:iters-budget-panic" };
                return (key.to_string(), None);
            }
        }
        let fmts = format_of(&job.args);
        if fmts.iter().any(|f| f.1 != "binary") {
            let mut j2 = job.clone();
            for (i, _) in &fmts {
                let a = &job.args[*i];
                j2.args[*i] = if a.starts_with("--format=") { "--format=binary".to_string() } else if a.starts_with("-f") { "-fbinary".to_string() } else { "binary".to_string() };
            }
            let o2 = run_job(&j2, &nf);
            if &judge(&j2, &o2) != v0 {
                let ids: BTreeSet<String> = fmts.iter().map(|f| f.1.split(',').next().unwrap_or("").to_string()).collect();
                let key = if o2.ok && o2.output_len == Some(0) {
                    "C03:format-empty-output".to_string()
                } else if ids.contains("mesen-mlb") && job.tags.iter().any(|t| t == "label-offset<16") {
                    "C03:mesen-mlb-small-address".to_string()
                } else {
                    format!("C03:format-panic:{}", ids.into_iter().collect::<Vec<_>>().join("+"))
                };
                return (key, None);
            }
        }
        if job.files.iter().any(|(n, c)| n != &job.root && c.is_empty()) {
            let mut j2 = job.clone();
            for (n, c) in j2.files.iter_mut() {
                if n != &job.root && c.is_empty() {
                    *c = b"0".to_vec();
                }
            }
            if !same_verdict(&j2, &nf, v0) {
                let t = job.files.iter().filter(|f| f.0.ends_with(".asm")).any(|f| lossy(&f.1).contains("incbinstr") || lossy(&f.1).contains("inchexstr"));
                let key = if t { "C03:incbinstr-empty-file" } else { "C03:empty-file-panic" };
                return (key.to_string(), None);
            }
        }
        let m = minimise(job, &nf, v0);
        if let Some(field) = zero_field(&m, v0) {
            return (format!("C03:zero-{}-panic", field), Some(m));
        }
        return (format!("C03:panic:{}:{}", wher, signature(m.root_text())), Some(m));
    }
    if matches!(v0, Verdict::OkWithErrors | Verdict::ErrButWritten) {
        // causes are removed cumulatively; the key names the one whose removal finally cleans the run
        let mut cur = job.clone();
        let (dp, names) = define_arg_positions(&cur.args);
        if !dp.is_empty() {
            let j2 = without_args(&cur, &dp);
            if !same_verdict(&j2, &nf, v0) {
                let is_ident = |n: &str| !n.is_empty() && job.files.iter().any(|(f, c)| f.ends_with(".asm") && lex(c).iter().any(|(k, a, b)| *k == Tk::Ident && &c[*a..*b] == n.as_bytes()));
                let key = if names.iter().any(|n| n.split('.').any(|part| !is_ident(part))) { "C03:unused-define-output-delivered" } else { "C03:define-error-output-delivered" };
                return (key.to_string(), None);
            }
            cur = j2;
        }
        if cur.files.iter().any(|(n, c)| n.ends_with(".asm") && lossy(c).contains("assert")) {
            let j2 = map_asm_files(&cur, drop_assert_lines);
            if !same_verdict(&j2, &nf, v0) {
                return ("C03:assert-failed-output-delivered".to_string(), None);
            }
        }
    }
    let m = minimise(job, &nf, v0);
    (format!("C03:{}:{}", v0.name(), signature(m.root_text())), Some(m))
}

// =================================================================================================
// recording one judged run

fn record(a: &mut Acc, job: &Job, fault: &Fault, o: &JobObs, v: &Verdict, family: &str, origin: Value) {
    a.eval();
    let vname = v.name();
    a.class(&format!("{}:{}", family, vname));
    a.class(&vname);
    // outcome class representative (verdict + first message text) for the process binding
    if *fault == Fault::None {
        let ck = format!("{}|{}", vname, o.first_msg);
        let size = job.size();
        if a.wants_rep(&ck, size) {
            a.offer_rep(&ck, Kept::new(vname.clone(), json!({"job": job.to_json(), "in_process": vname}), size));
        }
    }
    if v.good() {
        return;
    }
    let (key, min) = attribute(job, fault, v);
    // examples are ranked by the ORIGINAL case (size, hash): which ones are kept does not depend on scheduling
    let size = job.size();
    if a.wants_violation(&key, size) {
        let m = match min {
            Some(m) => m,
            None if *fault == Fault::None => minimise(job, fault, v),
            None => job.clone(),
        };
        // what the reduced job shows (same verdict by construction of the reduction)
        let om = run_job(&m, fault);
        let (o, v) = if &judge(&m, &om) == v { (&om, v) } else { (o, v) };
        let what = format!("{}{} [{}]", v.describe(), o.panicked.as_ref().map(|p| format!(" in {} ({})", p.0, p.1.chars().take(80).collect::<String>())).unwrap_or_default(), family);
        let case = json!({"kind": "job", "job": m.to_json(), "fault": fault.to_json(), "origin": origin,
            "expected": "exactly one of: success (drive Ok, no error diagnostic, every requested file written) / failure (drive Err, >= 1 error diagnostic, nothing written); never a panic",
            "observed": obs_json(o, v), "reproduce": m.shell()});
        let mut k = Kept::new(what, case, size);
        k.hash = fnv(&(job.to_json().to_string(), fault.to_json().to_string()));
        a.violation(&key, Some(k));
    } else {
        a.violation(&key, None);
    }
}

// =================================================================================================
// seeds

#[derive(Clone)]
struct Seed {
    name: String,
    root: String,
    /// every file of the seed's directory, under the names the repository's own harness uses (root included)
    files: Files,
    root_idx: usize,
    toks: Vec<(Tk, usize, usize)>,
    base_ok: bool,
    base_out: u64,
}

fn read_dir_rec(dir: &std::path::Path, prefix: &str, out: &mut Files) {
    let mut entries: Vec<_> = match std::fs::read_dir(dir) {
        Ok(r) => r.filter_map(|e| e.ok()).collect(),
        Err(_) => return,
    };
    entries.sort_by_key(|e| e.file_name());
    for e in entries {
        let p = e.path();
        let name = format!("{}{}", prefix, e.file_name().to_string_lossy());
        if p.is_dir() {
            read_dir_rec(&p, &format!("{}/", name), out);
        } else if let Ok(b) = std::fs::read(&p) {
            out.push((name, b));
        }
    }
}

fn std_files(repo: &str) -> Files {
    let mut v = vec![];
    read_dir_rec(std::path::Path::new(&format!("{}/std", repo)), "<std>/", &mut v);
    v
}

/// every directory below tests/ that directly contains at least one .asm file, with all its files (recursively)
fn corpus_dirs(repo: &str) -> Vec<(String, Files)> {
    fn walk(dir: &std::path::Path, rel: &str, out: &mut Vec<(String, Files)>) {
        let mut entries: Vec<_> = match std::fs::read_dir(dir) {
            Ok(r) => r.filter_map(|e| e.ok()).collect(),
            Err(_) => return,
        };
        entries.sort_by_key(|e| e.file_name());
        let has_asm = entries.iter().any(|e| e.path().is_file() && e.file_name().to_string_lossy().ends_with(".asm"));
        if has_asm {
            let mut files = vec![];
            read_dir_rec(dir, "", &mut files);
            out.push((rel.to_string(), files));
        }
        for e in entries {
            if e.path().is_dir() {
                walk(&e.path(), &format!("{}/{}", rel, e.file_name().to_string_lossy()), out);
            }
        }
    }
    let mut out = vec![];
    walk(std::path::Path::new(&format!("{}/tests", repo)), "tests", &mut out);
    out
}

fn with_std(mut files: Files, stdf: &Files) -> Files {
    if files.iter().any(|(n, c)| n.ends_with(".asm") && c.windows(5).any(|w| w == b"<std>")) {
        files.extend(stdf.iter().cloned());
    }
    files
}

fn make_seed(name: String, root: &str, files: Files, stdf: &Files) -> Seed {
    let files = with_std(files, stdf);
    let root_idx = files.iter().position(|(n, _)| n == root).expect("root in files");
    let toks = lex(&files[root_idx].1);
    Seed { name, root: root.to_string(), files, root_idx, toks, base_ok: false, base_out: 0 }
}

const RULES: &str = "#ruledef {\n ld {x: u8} => 0x10 @ x\n jmp {a} => 0x20 @ a`8\n nop => 0x00\n}\n";

fn data_files() -> Files {
    vec![
        ("empty.bin".into(), vec![]),
        ("data.bin".into(), vec![0x12, 0x34, 0x56]),
        ("str.txt".into(), b"0101".to_vec()),
        ("hex.txt".into(), b"a5f".to_vec()),
        ("inc.asm".into(), b"inner:\nnop\n".to_vec()),
    ]
}

/// small generated programs: one per language construct (name, root file text, extra files)
fn generated_programs() -> Vec<(&'static str, String, Files)> {
    let data = data_files();
    let g = |n: &'static str, s: String, f: &Files| (n, s, f.clone());
    let none: Files = vec![];
    vec![
        g("gen/instr", format!("{}ld 5\nnop\n", RULES), &none),
        g("gen/labels", format!("{}start:\njmp end\n.loop:\njmp .loop\nend:\n", RULES), &none),
        g("gen/data", "#d8 1, 2\n#d16 0x1234\n#d \"ab\\n\", utf16be(\"c\")\n#d3 5\n#d5 0\n".to_string(), &none),
        g("gen/const", "a = 2\n#const b = a + 1\n#const(noemit) c = b * 2\n#d8 a, b, c\n".to_string(), &none),
        g("gen/banks", "#bankdef a { bits = 8, addr = 0x10, size = 4, outp = 0 }\n#bankdef b { addr = 0, size = 2, outp = 8 * 4, fill = true }\n#bank a\n#d8 1\n#bank b\nl:\n#d8 l\n".to_string(), &none),
        g("gen/layout", "#d8 1\n#align 16\n#res 1\n#addr 8\nx:\n#d8 x\n#labelalign 32\ny:\n#d8 y\n".to_string(), &none),
        g("gen/fn", "#fn f(x, y) => x + y * 2\n#d8 f(1, 2)\n#d8 le(0x1234)[7:0]\n#d8 sizeof(0x12)\n".to_string(), &none),
        g("gen/asm", "#ruledef {\n ld {x: u8} => 0x10 @ x\n n {x} => asm {\n  ld {x}\n  ld l\n  l:\n }\n}\nn 5\n".to_string(), &none),
        g("gen/if", "c = 1\n#if c == 1 {\n #d8 1\n} #elif c == 2 {\n #d8 2\n} #else {\n #d8 3\n}\n".to_string(), &none),
        g("gen/subrule", "#subruledef r {\n a => 0x1\n b => 0x2\n}\n#ruledef {\n mv {d: r}, {s: r} => 0x5 @ d`4 @ s`4 @ 0x0\n}\nmv a, b\n".to_string(), &none),
        g("gen/assert", format!("{}x = 3\n#assert x == 3\nld x ? 1 : 2\n#d8 x[1:0] @ 0b000000\n", RULES), &none),
        g("gen/include", format!("{}#include \"inc.asm\"\n#once\njmp inner\n", RULES), &data),
        g("gen/incbin", "#d incbin(\"data.bin\")\n#d incbin(\"data.bin\", 1, 1)\n".to_string(), &data),
        g("gen/incbinstr", "#d incbinstr(\"str.txt\")\n#d inchexstr(\"hex.txt\")\n".to_string(), &data),
        g("gen/incbin-empty", "#d8 1\n#d incbin(\"empty.bin\")\n".to_string(), &data),
        g("gen/incbinstr-empty", "#d8 1\n#d incbinstr(\"empty.bin\")\n".to_string(), &data),
        g("gen/inchexstr-empty", "#d8 1\n#d inchexstr(\"empty.bin\")\n".to_string(), &data),
        g("gen/empty", String::new(), &none),
    ]
}

fn load_seeds(repo: &str, stdf: &Files) -> Vec<Seed> {
    let mut jobs: Vec<(String, String, Files)> = vec![];
    for (rel, files) in corpus_dirs(repo) {
        for (n, _) in &files {
            if n.ends_with(".asm") && !n.contains('/') {
                jobs.push((format!("{}/{}", rel, n), n.clone(), files.clone()));
            }
        }
    }
    for (name, text, extra) in generated_programs() {
        let mut files: Files = vec![("main.asm".to_string(), text.into_bytes())];
        files.extend(extra);
        jobs.push((name.to_string(), "main.asm".to_string(), files));
    }
    jobs.into_iter().map(|(name, root, files)| make_seed(name, &root, files, stdf)).collect()
}

// =================================================================================================
// family 1a: damage sweep

struct SweepSpace {
    seeds: Vec<Seed>,
    prefix: Vec<u64>,
    alpha: Vec<Vec<u8>>,
}

impl SweepSpace {
    fn new(seeds: Vec<Seed>, alpha: Vec<Vec<u8>>) -> SweepSpace {
        let mut prefix = vec![0u64];
        for s in &seeds {
            prefix.push(prefix.last().unwrap() + edit_count(s.toks.len(), alpha.len()));
        }
        SweepSpace { seeds, prefix, alpha }
    }
    fn case(&self, i: u64) -> (&Seed, Edit, Job, usize) {
        let si = self.prefix.partition_point(|p| *p <= i) - 1;
        let s = &self.seeds[si];
        let e = edit_decode(i - self.prefix[si], s.toks.len(), self.alpha.len());
        let (text, pos) = apply_edit(&s.files[s.root_idx].1, &s.toks, e, &self.alpha);
        let mut files = s.files.clone();
        files[s.root_idx].1 = text;
        (s, e, Job::asm(files, &s.root, &[]), pos)
    }
}

impl Space for SweepSpace {
    fn len(&self) -> u64 {
        *self.prefix.last().unwrap()
    }
    fn run(&self, i: u64, a: &mut Acc) {
        let (s, e, job, _) = self.case(i);
        let o = run_job(&job, &Fault::None);
        let v = judge(&job, &o);
        if let Edit::None = e {
            a.class(if v == Verdict::Success { "seed-assembles" } else { "seed-rejected" });
        } else {
            // non-trivial: the damage changed the observable result of the seed
            let out = o.writes.first().map(|w| w.2).unwrap_or(0);
            if v != Verdict::Success || !s.base_ok || out != s.base_out {
                a.nontrivial(&(job.root_text(), &s.name));
            }
        }
        a.sample(|| json!({"family": "sweep", "seed": s.name, "edit": edit_json(e, &self.alpha), "text": lossy(job.root_text()), "verdict": v.name()}));
        record(a, &job, &Fault::None, &o, &v, "sweep", json!({"seed": s.name, "edit": edit_json(e, &self.alpha)}));
    }
    fn describe(&self, i: u64) -> Value {
        let (s, e, job, pos) = self.case(i);
        let t = job.root_text();
        let ls = t[..pos.min(t.len())].iter().rposition(|b| *b == b'\n').map(|p| p + 1).unwrap_or(0);
        let le = t[pos.min(t.len())..].iter().position(|b| *b == b'\n').map(|p| p + pos).unwrap_or(t.len());
        json!({"family": "sweep", "seed": s.name, "edit": edit_json(e, &self.alpha), "job": job.to_json(), "edited_line": lossy(&t[ls..le.max(ls)])})
    }
}

// =================================================================================================
// family 1b: options grid on 18 representative programs (through the driver)

fn grid_programs() -> Vec<(&'static str, String, Files)> {
    let none: Files = vec![];
    let data = data_files();
    let v = |n: &'static str, s: String, f: &Files| (n, s, f.clone());
    vec![
        v("ok-simple", format!("{}val = 1\nld val\nnop\n", RULES), &none),
        v("ok-forward-refs", format!("{}val = 1\njmp a\na:\njmp b\nb:\njmp c\nc:\nld val\n", RULES), &none),
        v("ok-if-on-define", format!("{}val = 1\n#if val == 1 {{\n ld 1\n}} #else {{\n ld 2\n}}\n", RULES), &none),
        v("ok-asm-block", "#ruledef {\n ld {x: u8} => 0x10 @ x\n n {x} => asm {\n  ld {x}\n  ld l\n  l:\n }\n}\nval = 1\nn 5\nld val\n".to_string(), &none),
        v("ok-empty-output", "val = 1\n".to_string(), &none),
        v("ok-static-data-with-label", "#d8 0x10, 0x02\ntable:\n#d8 0x01\nval = 1\n".to_string(), &none),
        v("ok-reservation-no-labels", "val = 1\n#d8 1\n#res 2\n#d8 2\n".to_string(), &none),
        v("ok-include-fn", format!("{}#include \"inc.asm\"\n#fn f(x) => x + 1\nval = 1\nld f(val)\njmp inner\n", RULES), &data),
        v("fail-parse", format!("{}val = 1\nld (\n", RULES), &none),
        v("fail-no-match", format!("{}val = 1\nmov val\n", RULES), &none),
        v("fail-out-of-range", format!("{}val = 1\nld 0x100 + val\n", RULES), &none),
        v("fail-assert", format!("{}val = 1\nld val\n#assert val == 77\n", RULES), &none),
        v("fail-bank-overflow", "#bankdef a { addr = 0, size = 1, outp = 0 }\nval = 1\n#d8 val, 2\n".to_string(), &none),
        v("fail-include-missing", format!("{}val = 1\n#include \"nope.asm\"\nld val\n", RULES), &none),
        // an `asm` block with a substituted block local, used as an expression outside data and rules, whose instruction fails
        v("fail-asm-in-constant", format!("{}val = 1\nk2 = {{ t = 0x123, asm {{ ld {{t}} }} }}\nld val\n", RULES), &none),
        v("fail-asm-in-assert", format!("{}val = 1\nld val\n#assert {{ t = 0x123, asm {{ ld {{t}} }} }} == 0\n", RULES), &none),
        v("fail-asm-in-res", format!("{}val = 1\nld val\n#res {{ t = 5, asm {{ mov {{t}} }} }}\n", RULES), &none),
        // the files of the cycle lie below the root file's directory: names are relative to the including file
        v("fail-include-cycle-in-subdirectory", format!("{}val = 1\n#include \"lib/a.asm\"\nld val\n", RULES), &vec![("lib/a.asm".to_string(), b"#include \"b.asm\"\nnop\n".to_vec()), ("lib/b.asm".to_string(), b"#include \"a.asm\"\nnop\n".to_vec())]),
    ]
}

const GRID_BUDGETS: [usize; 3] = [1, 2, 10];
const GRID_DEFINES: [&[&str]; 21] = [
    &[],
    &["-dval="],
    &["-dval=-"],
    &["-d="],
    &["-dval=0x"],
    &["-dval=--1"],
    &["-dval=1_"],
    &["-dunused=1", "-dval=2"],
    &["-dval=2", "-dunused=1"],
    &["-dval=1", "-dval=2"],
    &["-dval=2", "-dval"],
    &["-dval=5"],
    &["-dval"],
    &["--define=val=0x10"],
    &["-dval=-3"],
    &["-dunused=1"],
    &["-dval=abc"],
    &["-dval=1=2"],
    &["-d=1"],
    &["-d1x=1"],
    &["-dval.sub=1"],
];

struct GridSpace {
    progs: Vec<(&'static str, String, Files)>,
}

impl GridSpace {
    fn radices(&self) -> [u64; 5] {
        [self.progs.len() as u64, 3, 4, GRID_DEFINES.len() as u64, 2]
    }
    fn case(&self, i: u64) -> (Job, Value) {
        let d = decode(i, &self.radices());
        let (name, text, extra) = &self.progs[d[0] as usize];
        let mut files: Files = vec![("main.asm".to_string(), text.clone().into_bytes())];
        files.extend(extra.iter().cloned());
        let budget = GRID_BUDGETS[d[1] as usize];
        let mut extra_args: Vec<String> = vec![format!("--iters={}", budget)];
        if d[2] & 1 != 0 {
            extra_args.push("--debug-no-optimize-static".into());
        }
        if d[2] & 2 != 0 {
            extra_args.push("--debug-no-optimize-matcher".into());
        }
        extra_args.extend(GRID_DEFINES[d[3] as usize].iter().map(|s| s.to_string()));
        if d[4] == 1 {
            extra_args.push("--debug-iters".into());
        }
        let refs: Vec<&str> = extra_args.iter().map(|s| s.as_str()).collect();
        let job = Job::asm(files, "main.asm", &refs);
        (job, json!({"program": name, "budget": budget, "switches": d[2], "defines": GRID_DEFINES[d[3] as usize], "debug_iters": d[4] == 1}))
    }
}

impl Space for GridSpace {
    fn len(&self) -> u64 {
        product(&self.radices())
    }
    fn run(&self, i: u64, a: &mut Acc) {
        let (job, origin) = self.case(i);
        let o = run_job(&job, &Fault::None);
        let v = judge(&job, &o);
        a.nontrivial(&(job.root_text(), &job.args));
        a.sample(|| json!({"family": "grid", "case": origin, "verdict": v.name()}));
        record(a, &job, &Fault::None, &o, &v, "grid", origin);
    }
    fn describe(&self, i: u64) -> Value {
        let (job, origin) = self.case(i);
        json!({"family": "grid", "origin": origin, "job": job.to_json(), "edited_line": ""})
    }
}

// =================================================================================================
// family 2: driver jobs, formats, injected faults

const FORMATS: [&str; 34] = [
    "binary", "annotated", "annotated,base:2,group:3", "annotatedbin", "binstr", "hexstr", "bindump", "hexdump", "mif", "intelhex", "intelhex,addr_unit:16", "deccomma", "hexcomma", "decspace",
    "hexspace", "decc", "hexc", "logisim8", "logisim16", "addrspan", "tcgame", "tcgame,base:2,group:4", "tcgamebin", "symbols", "mesen-mlb", "annotated,base:8,group:1", "intelhex,addr_unit:32",
    // values outside the documented sets: must be rejected cleanly, never reach a formatter
    "annotated,base:1", "annotated,base:3", "annotated,group:0", "tcgame,base:8", "tcgame,base:1", "intelhex,addr_unit:1", "binary,foo:1",
];

/// programs for the format totality family: (name, text, tags)
fn format_programs() -> Vec<(&'static str, String, Vec<&'static str>)> {
    let pad16 = "#d8 0, 0, 0, 0, 0, 0, 0, 0, 0, 0, 0, 0, 0, 0, 0, 0\n";
    vec![
        ("empty", String::new(), vec!["empty-output"]),
        ("only-constants", "a = 1\n#const(noemit) b = 2\n".to_string(), vec!["empty-output"]),
        ("1-bit", "#d1 1\n".to_string(), vec![]),
        ("3-bits", "#d3 5\n".to_string(), vec![]),
        ("1-byte", "#d8 0xa5\n".to_string(), vec![]),
        ("labels-at-0", format!("{}start:\nld 1\n.sub:\njmp start\nend:\n", RULES), vec!["label-offset<16"]),
        ("labels-from-16", format!("{}{}start:\nld 1\n.sub:\njmp start\nend:\n", RULES, pad16), vec![]),
        ("17-bytes", format!("{}#d8 0xff\n", pad16), vec![]),
        ("300-bytes", "#d8 1\n#res 298\n#d8 2\n".to_string(), vec![]),
        ("two-banks-gap", "#bankdef a { addr = 0x8000, size = 0x10, outp = 0x20 * 8 }\n#bankdef b { addr = 0, size = 4, outp = 0 }\n#bank a\nx:\n#d8 1, 2\n#bank b\n#d8 3\n".to_string(), vec![]),
        ("bits-16", "#bankdef w { bits = 16, addr = 0x100, size = 8, outp = 0x10 * 8 }\nw0:\n#d16 0x1234\nw1:\n#d16 0xabcd\n".to_string(), vec![]),
        ("partial-byte-tail", "#d8 0x12\n#d4 0x3\n#d1 1\n".to_string(), vec![]),
    ]
}

#[derive(Clone)]
struct DJob {
    name: String,
    job: Job,
    /// enumerate every injected fault for this job
    faults: bool,
    /// `; output:` lines of a corpus job (a cross-check of my reading of the command line, not of the subject)
    corpus_outputs: Option<Vec<String>>,
}

fn corpus_driver_jobs(repo: &str, stdf: &Files) -> Vec<DJob> {
    let mut out = vec![];
    for (rel, files) in corpus_dirs(repo) {
        if !rel.starts_with("tests/driver/") {
            continue;
        }
        for (n, c) in &files {
            if !n.ends_with(".asm") || n.contains('/') {
                continue;
            }
            let text = lossy(c);
            let mut cmd: Option<Vec<String>> = None;
            let mut outputs = vec![];
            for line in text.lines() {
                if let Some(p) = line.find("; command: ") {
                    cmd = Some(line[p + "; command: ".len()..].split(' ').map(|s| s.trim().to_string()).map(|s| if s == "[file]" { n.clone() } else { s }).collect());
                } else if let Some(p) = line.find("; output: ") {
                    outputs.push(line[p + "; output: ".len()..].trim().to_string());
                }
            }
            if let Some(args) = cmd {
                // the expected-output files of the corpus case must not pre-exist in the working directory
                let files: Files = files.iter().filter(|f| !outputs.contains(&f.0)).cloned().collect();
                let root = args.iter().find(|a| files.iter().any(|f| &f.0 == *a)).cloned().unwrap_or_else(|| n.clone());
                out.push(DJob { name: format!("{}/{}", rel, n), job: Job { files: with_std(files.clone(), stdf), args, root, tags: vec![] }, faults: true, corpus_outputs: Some(outputs) });
            }
        }
    }
    out
}

fn generated_driver_jobs() -> Vec<DJob> {
    // file sets x output-group shapes; every format name appears as a first and as a second group
    let data = data_files();
    let sets: Vec<(&str, Files, Vec<&str>)> = vec![
        ("plain", vec![("main.asm".into(), format!("{}start:\nld 1\njmp start\n", RULES).into_bytes())], vec!["main.asm"]),
        ("include+incbin", {
            let mut f: Files = vec![("main.asm".into(), format!("{}#include \"inc.asm\"\njmp inner\n#d incbin(\"data.bin\")\n#d incbinstr(\"str.txt\"), inchexstr(\"hex.txt\")\n", RULES).into_bytes())];
            f.extend(data.clone());
            f
        }, vec!["main.asm"]),
        ("two-inputs", vec![("main.asm".into(), RULES.as_bytes().to_vec()), ("second.asm".into(), b"here:\nld 2\njmp here\n".to_vec())], vec!["main.asm", "second.asm"]),
        ("subdir", vec![("src/main.asm".into(), format!("{}#include \"lib/inc.asm\"\njmp inner\n#d incbin(\"../data.bin\")\n", RULES).into_bytes()), ("src/lib/inc.asm".into(), b"inner:\nnop\n".to_vec()), ("data.bin".into(), vec![1, 2, 3])], vec!["src/main.asm"]),
        ("failing-assert", vec![("main.asm".into(), format!("{}ld 1\n#assert 1 == 2\n", RULES).into_bytes())], vec!["main.asm"]),
        ("failing-include", vec![("main.asm".into(), format!("{}#include \"gone.asm\"\nld 1\n", RULES).into_bytes())], vec!["main.asm"]),
        ("empty-include", {
            let mut f: Files = vec![("main.asm".into(), b"#d8 1\n#d incbin(\"empty.bin\")\n#d incbinstr(\"empty.bin\")\n".to_vec())];
            f.extend(data.clone());
            f
        }, vec!["main.asm"]),
    ];
    let mut out = vec![];
    let mut fi = 0usize;
    for (si, (sname, files, inputs)) in sets.iter().enumerate() {
        for shape in 0..3 {
            let f1 = FORMATS[fi % FORMATS.len()];
            let f2 = FORMATS[(fi + 9) % FORMATS.len()];
            fi += 1;
            let mut args: Vec<String> = inputs.iter().map(|s| s.to_string()).collect();
            match shape {
                0 => args.extend(["-f", f1, "-o", "out1.txt"].iter().map(|s| s.to_string())),
                1 => args.extend(["-f", f1, "-o", "out1.txt", "--", "-f", f2, "-o", "out2.txt"].iter().map(|s| s.to_string())),
                _ => args.extend(["-f", f1, "--", "-f", f2, "-p", "--", "-o", "last.bin"].iter().map(|s| s.to_string())),
            }
            if si % 2 == 0 {
                args.push("-q".into());
            }
            out.push(DJob { name: format!("gen-job/{}/shape{}", sname, shape), job: Job { files: files.clone(), args, root: inputs[0].to_string(), tags: vec![] }, faults: true, corpus_outputs: None });
        }
    }
    out
}

fn format_jobs() -> Vec<DJob> {
    let mut out = vec![];
    for (pname, text, tags) in format_programs() {
        for f in FORMATS {
            for print in [false, true] {
                let mut args: Vec<String> = vec!["main.asm".into(), "-q".into(), "-f".into(), f.to_string()];
                if print {
                    args.push("-p".into());
                } else {
                    args.extend(["-o".to_string(), "out.txt".to_string()]);
                }
                out.push(DJob {
                    name: format!("format/{}/{}{}", pname, f, if print { "/print" } else { "" }),
                    job: Job { files: vec![("main.asm".into(), text.clone().into_bytes())], args, root: "main.asm".into(), tags: tags.iter().map(|s| s.to_string()).collect() },
                    faults: false,
                    corpus_outputs: None,
                });
            }
        }
    }
    out
}

struct DriveSpace {
    jobs: Vec<DJob>,
}

fn fault_list(job: &Job, calls: (usize, usize, usize)) -> Vec<Fault> {
    let mut v = vec![];
    for k in 1..=calls.0 {
        v.push(Fault::Handle(k));
    }
    for k in 1..=calls.1 {
        v.push(Fault::Bytes(k));
    }
    for k in 1..=calls.2 {
        v.push(Fault::Write(k));
    }
    for (n, _) in &job.files {
        if !n.starts_with("<std>") {
            v.push(Fault::Missing(n.clone()));
            v.push(Fault::Unreadable(n.clone()));
        }
    }
    v
}

impl Space for DriveSpace {
    fn len(&self) -> u64 {
        self.jobs.len() as u64
    }
    fn run(&self, i: u64, a: &mut Acc) {
        let dj = &self.jobs[i as usize];
        let family = if dj.faults { "driver" } else { "format" };
        let o = run_job(&dj.job, &Fault::None);
        let v = judge(&dj.job, &o);
        a.nontrivial(&(&dj.name, "fault-free"));
        a.sample(|| json!({"family": family, "job": dj.name, "args": dj.job.args, "verdict": v.name()}));
        record(a, &dj.job, &Fault::None, &o, &v, family, json!({"job": dj.name}));
        if let Some(outs) = &dj.corpus_outputs {
            // my reading of the command line must agree with the corpus' own `; output:` lines
            if v == Verdict::Success || v == Verdict::OkMissingOutput {
                let mine: BTreeSet<String> = requested_of(&dj.job.args).into_iter().collect();
                let theirs: BTreeSet<String> = outs.iter().cloned().collect();
                if !outs.is_empty() && mine != theirs {
                    a.count("requested_model_disagrees_with_corpus", 1);
                }
            }
        }
        if !dj.faults {
            return;
        }
        for f in fault_list(&dj.job, o.calls) {
            let of = run_job(&dj.job, &f);
            let vf = judge(&dj.job, &of);
            a.count("fault_points", 1);
            if of.fired {
                a.count("fault_points_fired", 1);
                a.nontrivial(&(&dj.name, &f));
            }
            if of.transient && !vf.good() {
                // the file was readable earlier in the same run: not a single permanent fault, the statement is silent
                a.unspecified += 1;
                a.eval();
                a.class(&format!("fault-transient:{}:{}", f.kind(), vf.name()));
                continue;
            }
            a.class(&format!("fault:{}:{}", f.kind(), vf.name()));
            record(a, &dj.job, &f, &of, &vf, "fault", json!({"job": dj.name}));
        }
    }
    fn describe(&self, i: u64) -> Value {
        let dj = &self.jobs[i as usize];
        json!({"family": "driver", "origin": dj.name, "job": dj.job.to_json(), "edited_line": ""})
    }
}

// =================================================================================================
// family 1c (thorough only): all double edits of the small seeds over a 12-token alphabet

const ALPHA_DOUBLE: [&[u8]; 12] = [b"{", b"}", b"(", b"\"", b"#", b":", b",", b"=", b"asm", b"x", b"0", b"\n"];
const DOUBLE_TOKEN_LIMIT: usize = 14;

struct DoubleSpace {
    seeds: Vec<Seed>,
    prefix: Vec<u64>,
    alpha: Vec<Vec<u8>>,
}

impl DoubleSpace {
    fn new(seeds: Vec<Seed>) -> DoubleSpace {
        let alpha: Vec<Vec<u8>> = ALPHA_DOUBLE.iter().map(|a| a.to_vec()).collect();
        let mut prefix = vec![0u64];
        for s in &seeds {
            // first edits, identity excluded (single edits are family 1a)
            prefix.push(prefix.last().unwrap() + edit_count(s.toks.len(), alpha.len()) - 1);
        }
        DoubleSpace { seeds, prefix, alpha }
    }
    fn first(&self, i: u64) -> (&Seed, Edit, Vec<u8>) {
        let si = self.prefix.partition_point(|p| *p <= i) - 1;
        let s = &self.seeds[si];
        let e = edit_decode(i - self.prefix[si] + 1, s.toks.len(), self.alpha.len());
        let (text, _) = apply_edit(&s.files[s.root_idx].1, &s.toks, e, &self.alpha);
        (s, e, text)
    }
}

impl Space for DoubleSpace {
    fn len(&self) -> u64 {
        *self.prefix.last().unwrap()
    }
    fn run(&self, i: u64, a: &mut Acc) {
        let (s, e1, t1) = self.first(i);
        let toks = lex(&t1);
        let n2 = edit_count(toks.len(), self.alpha.len());
        for j in 1..n2 {
            let e2 = edit_decode(j, toks.len(), self.alpha.len());
            let (t2, _) = apply_edit(&t1, &toks, e2, &self.alpha);
            let mut files = s.files.clone();
            files[s.root_idx].1 = t2;
            let job = Job::asm(files, &s.root, &[]);
            let o = run_job(&job, &Fault::None);
            let v = judge(&job, &o);
            a.nontrivial(&(job.root_text(), &s.name));
            record(a, &job, &Fault::None, &o, &v, "double", json!({"seed": s.name, "edit1": edit_json(e1, &self.alpha), "edit2": edit_json(e2, &self.alpha)}));
        }
    }
    fn describe(&self, i: u64) -> Value {
        let (s, e1, t1) = self.first(i);
        let mut files = s.files.clone();
        files[s.root_idx].1 = t1.clone();
        json!({"family": "double", "seed": s.name, "edit": edit_json(e1, &self.alpha), "job": Job::asm(files, &s.root, &[]).to_json(), "edited_line": lossy(&t1).lines().next().unwrap_or("")})
    }
}

// =================================================================================================
// the whole in-process space: sweep | grid | driver | double

struct AllSpace {
    sweep: SweepSpace,
    grid: GridSpace,
    drive: DriveSpace,
    double: DoubleSpace,
}

impl AllSpace {
    fn locate(&self, i: u64) -> (&dyn Space, u64) {
        let (a, b, c) = (self.sweep.len(), self.grid.len(), self.drive.len());
        if i < a {
            (&self.sweep, i)
        } else if i < a + b {
            (&self.grid, i - a)
        } else if i < a + b + c {
            (&self.drive, i - a - b)
        } else {
            (&self.double, i - a - b - c)
        }
    }
}

impl Space for AllSpace {
    fn len(&self) -> u64 {
        self.sweep.len() + self.grid.len() + self.drive.len() + self.double.len()
    }
    fn run(&self, i: u64, a: &mut Acc) {
        let (s, j) = self.locate(i);
        s.run(j, a)
    }
    fn describe(&self, i: u64) -> Value {
        let (s, j) = self.locate(i);
        s.describe(j)
    }
}

fn token_limit(thorough: bool) -> usize {
    if thorough {
        usize::MAX
    } else {
        std::env::var("C03_LIMIT").ok().and_then(|s| s.parse().ok()).unwrap_or(40)
    }
}

fn build_space(repo: &str, thorough: bool, limit: usize, with_bases: bool) -> (AllSpace, usize) {
    let stdf = std_files(repo);
    let mut seeds = load_seeds(repo, &stdf);
    let all = seeds.len();
    seeds.retain(|s| s.toks.len() <= limit);
    // the seed's own result (for the non-triviality rule)
    let bases: Vec<(bool, u64)> = seeds
        .par_iter()
        .filter(|_| with_bases)
        .map(|s| {
            let job = Job::asm(s.files.clone(), &s.root, &[]);
            let o = run_job(&job, &Fault::None);
            (judge(&job, &o) == Verdict::Success, o.writes.first().map(|w| w.2).unwrap_or(0))
        })
        .collect();
    for (s, b) in seeds.iter_mut().zip(bases) {
        s.base_ok = b.0;
        s.base_out = b.1;
    }
    let mut jobs = corpus_driver_jobs(repo, &stdf);
    jobs.extend(generated_driver_jobs());
    jobs.extend(format_jobs());
    let small: Vec<Seed> = if thorough { seeds.iter().filter(|s| s.toks.len() <= DOUBLE_TOKEN_LIMIT).cloned().collect() } else { vec![] };
    (AllSpace { sweep: SweepSpace::new(seeds, alphabet(thorough)), grid: GridSpace { progs: grid_programs() }, drive: DriveSpace { jobs }, double: DoubleSpace::new(small) }, all)
}

// =================================================================================================
// family 3: the real binary

#[derive(Clone, Debug, PartialEq, Eq)]
enum FsFault {
    None,
    InputMissing(String),
    InputIsDir(String),
    /// the `-o` value at this argument index is redirected below a directory that does not exist
    OutParentMissing(usize),
    /// a directory stands where this requested output file should be created
    OutIsDir(String),
    /// the requested output file can be opened but every write to it fails (a symbolic link to /dev/full)
    OutDevFull(String),
}

impl FsFault {
    fn kind(&self) -> &'static str {
        match self {
            FsFault::None => "none",
            FsFault::InputMissing(_) => "input-missing",
            FsFault::InputIsDir(_) => "input-is-directory",
            FsFault::OutParentMissing(_) => "output-parent-missing",
            FsFault::OutIsDir(_) => "output-is-directory",
            FsFault::OutDevFull(_) => "output-device-full",
        }
    }
    fn to_json(&self) -> Value {
        match self {
            FsFault::None => Value::Null,
            FsFault::InputMissing(n) | FsFault::InputIsDir(n) | FsFault::OutIsDir(n) | FsFault::OutDevFull(n) => json!({"fs_fault": self.kind(), "path": n}),
            FsFault::OutParentMissing(i) => json!({"fs_fault": self.kind(), "arg_index": i}),
        }
    }
    fn from_json(v: &Value) -> FsFault {
        let p = v["path"].as_str().unwrap_or("").to_string();
        match v["fs_fault"].as_str() {
            Some("input-missing") => FsFault::InputMissing(p),
            Some("input-is-directory") => FsFault::InputIsDir(p),
            Some("output-is-directory") => FsFault::OutIsDir(p),
            Some("output-device-full") => FsFault::OutDevFull(p),
            Some("output-parent-missing") => FsFault::OutParentMissing(v["arg_index"].as_u64().unwrap_or(0) as usize),
            _ => FsFault::None,
        }
    }
}

#[derive(Clone, Debug)]
struct PObs {
    status: String,
    code: Option<i32>,
    signal: bool,
    timeout: bool,
    error_line: bool,
    stderr_head: String,
    new_paths: Vec<String>,
    missing_requested: Vec<String>,
}

#[derive(Clone, Debug, PartialEq, Eq)]
enum PVerdict {
    Success,
    Failure,
    Timeout,
    Crash,
    Exit0WithError,
    Exit0MissingOutput,
    FailSilent,
    FailButCreated,
}

impl PVerdict {
    fn name(&self) -> &'static str {
        match self {
            PVerdict::Success => "success",
            PVerdict::Failure => "failure",
            PVerdict::Timeout => "timeout",
            PVerdict::Crash => "crash",
            PVerdict::Exit0WithError => "exit0-with-error",
            PVerdict::Exit0MissingOutput => "exit0-missing-output",
            PVerdict::FailSilent => "nonzero-exit-without-error",
            PVerdict::FailButCreated => "nonzero-exit-but-file-created",
        }
    }
    fn good(&self) -> bool {
        matches!(self, PVerdict::Success | PVerdict::Failure | PVerdict::Timeout)
    }
}

fn list_rec(dir: &std::path::Path, prefix: &str, out: &mut BTreeSet<String>) {
    if let Ok(rd) = std::fs::read_dir(dir) {
        for e in rd.filter_map(|e| e.ok()) {
            let name = format!("{}{}", prefix, e.file_name().to_string_lossy());
            if e.path().is_dir() {
                out.insert(format!("{}/", name));
                list_rec(&e.path(), &format!("{}/", name), out);
            } else {
                out.insert(name);
            }
        }
    }
}

fn strip_ansi(s: &str) -> String {
    let mut out = String::new();
    let mut it = s.chars().peekable();
    while let Some(c) = it.next() {
        if c == '\u{1b}' {
            if it.peek() == Some(&'[') {
                it.next();
                while let Some(d) = it.next() {
                    if d.is_ascii_alphabetic() {
                        break;
                    }
                }
            }
        } else {
            out.push(c);
        }
    }
    out
}

/// (effective args, requested outputs, paths that may legitimately appear although the run fails)
fn effective(job: &Job, ff: &FsFault) -> (Vec<String>, Vec<String>, Vec<String>) {
    let mut args = job.args.clone();
    if let FsFault::OutParentMissing(i) = ff {
        let a = &args[*i];
        args[*i] = if let Some(v) = a.strip_prefix("--output=") { format!("--output=no_such_dir/{}", v) } else if a.starts_with("-o") && a.len() > 2 { format!("-ono_such_dir/{}", &a[2..]) } else { format!("no_such_dir/{}", a) };
    }
    let req = requested_of(&args);
    let allowed = match ff {
        FsFault::OutParentMissing(_) | FsFault::OutIsDir(_) | FsFault::OutDevFull(_) => {
            // outputs of the groups before the unwritable one
            let bad = match ff {
                FsFault::OutIsDir(p) | FsFault::OutDevFull(p) => p.clone(),
                _ => req.iter().find(|r| r.starts_with("no_such_dir/")).cloned().unwrap_or_default(),
            };
            let pos = req.iter().position(|r| *r == bad).unwrap_or(0);
            req[..pos].to_vec()
        }
        _ => vec![],
    };
    (args, req, allowed)
}

fn run_process(bin: &str, dir: &str, job: &Job, ff: &FsFault, timeout_s: f64) -> PObs {
    let _ = std::fs::remove_dir_all(dir);
    let work = format!("{}/w", dir);
    std::fs::create_dir_all(&work).expect("scratch");
    for (n, c) in &job.files {
        if n.starts_with("<std>") || n.contains('\0') {
            continue;
        }
        let p = format!("{}/{}", work, n);
        match ff {
            FsFault::InputMissing(m) if m == n => continue,
            FsFault::InputIsDir(m) if m == n => {
                let _ = std::fs::create_dir_all(&p);
                continue;
            }
            _ => {}
        }
        if let Some(parent) = std::path::Path::new(&p).parent() {
            let _ = std::fs::create_dir_all(parent);
        }
        let _ = std::fs::write(&p, c);
    }
    if let FsFault::OutIsDir(p) = ff {
        let _ = std::fs::create_dir_all(format!("{}/{}", work, p));
    }
    if let FsFault::OutDevFull(p) = ff {
        let target = format!("{}/{}", work, p);
        if let Some(parent) = std::path::Path::new(&target).parent() {
            let _ = std::fs::create_dir_all(parent);
        }
        let _ = std::os::unix::fs::symlink("/dev/full", &target);
    }
    let (args, req, _) = effective(job, ff);
    let mut before = BTreeSet::new();
    list_rec(std::path::Path::new(&work), "", &mut before);
    let (so, se) = (format!("{}/stdout", dir), format!("{}/stderr", dir));
    let mk = |p: &str| std::fs::File::create(p).map(std::process::Stdio::from).unwrap_or_else(|_| std::process::Stdio::null());
    let child = std::process::Command::new("sh")
        .arg("-c")
        .arg("ulimit -v 4194304; ulimit -c 0; exec \"$0\" \"$@\"")
        .arg(bin)
        .args(args.iter().filter(|a| !a.contains('\0')))
        .current_dir(&work)
        .env("RUST_BACKTRACE", "0")
        .stdin(std::process::Stdio::null())
        .stdout(mk(&so))
        .stderr(mk(&se))
        .spawn();
    let mut o = PObs { status: String::new(), code: None, signal: false, timeout: false, error_line: false, stderr_head: String::new(), new_paths: vec![], missing_requested: vec![] };
    match child {
        Ok(mut ch) => {
            let t0 = std::time::Instant::now();
            loop {
                match ch.try_wait() {
                    Ok(Some(st)) => {
                        o.code = st.code();
                        o.signal = st.code().is_none();
                        o.status = iso::status_text(&st);
                        break;
                    }
                    Ok(None) => {}
                    Err(e) => {
                        o.status = format!("wait error {}", e);
                        o.timeout = true;
                        break;
                    }
                }
                if t0.elapsed().as_secs_f64() > timeout_s {
                    let _ = ch.kill();
                    let _ = ch.wait();
                    o.timeout = true;
                    o.status = format!("timeout ({} s)", timeout_s);
                    break;
                }
                std::thread::sleep(std::time::Duration::from_millis(2));
            }
        }
        Err(e) => {
            o.status = format!("spawn error {}", e);
            o.timeout = true;
        }
    }
    let stderr = strip_ansi(&lossy(&std::fs::read(&se).unwrap_or_default()));
    // an error diagnostic anywhere in the printed message tree: nested messages are indented and led by `+ `
    // (an `asm` block evaluated outside data and rules reports `note: match attempted` with the error nested in it)
    o.error_line = stderr.lines().any(|l| l.trim_start().trim_start_matches("+ ").starts_with("error:"));
    // drop the thread id that the panic message carries (it differs from run to run)
    let mut head = String::new();
    let mut rest = stderr.as_str();
    while let Some(p) = rest.find("' (") {
        let tail = &rest[p + 3..];
        let digits = tail.chars().take_while(|c| c.is_ascii_digit()).count();
        head.push_str(&rest[..p + 1]);
        if digits > 0 && tail[digits..].starts_with(')') {
            rest = &tail[digits + 1..];
        } else {
            head.push_str(" (");
            rest = tail;
        }
    }
    head.push_str(rest);
    o.stderr_head = head.chars().take(300).collect();
    let mut after = BTreeSet::new();
    list_rec(std::path::Path::new(&work), "", &mut after);
    o.new_paths = after.difference(&before).cloned().collect();
    o.missing_requested = req.iter().filter(|r| !std::path::Path::new(&format!("{}/{}", work, r)).is_file()).cloned().collect();
    let _ = std::fs::remove_dir_all(dir);
    o
}

fn pjudge(job: &Job, ff: &FsFault, o: &PObs) -> PVerdict {
    if o.timeout {
        return PVerdict::Timeout;
    }
    if o.signal || o.code == Some(101) {
        return PVerdict::Crash;
    }
    if o.code == Some(0) {
        if o.error_line {
            return PVerdict::Exit0WithError;
        }
        if !o.missing_requested.is_empty() {
            return PVerdict::Exit0MissingOutput;
        }
        PVerdict::Success
    } else {
        if !o.error_line {
            return PVerdict::FailSilent;
        }
        let (_, _, allowed) = effective(job, ff);
        if o.new_paths.iter().any(|p| !allowed.contains(p)) {
            return PVerdict::FailButCreated;
        }
        PVerdict::Failure
    }
}

fn pobs_json(o: &PObs, v: &PVerdict) -> Value {
    json!({"verdict": v.name(), "status": o.status, "stderr_has_error_line": o.error_line, "stderr": o.stderr_head, "paths_created": o.new_paths, "requested_but_absent": o.missing_requested})
}

/// the in-process verdict that corresponds to a process verdict (for sharing keys between the two levels)
fn corresponding(v: &PVerdict) -> Vec<Verdict> {
    match v {
        PVerdict::Crash => vec![Verdict::Panic("drive"), Verdict::Panic("print_all")],
        PVerdict::Exit0WithError => vec![Verdict::OkWithErrors],
        PVerdict::Exit0MissingOutput => vec![Verdict::OkMissingOutput],
        PVerdict::FailSilent => vec![Verdict::ErrSilent],
        PVerdict::FailButCreated => vec![Verdict::ErrButWritten],
        _ => vec![],
    }
}

fn mock_fault_of(ff: &FsFault, job: &Job) -> Option<Fault> {
    match ff {
        FsFault::None => Some(Fault::None),
        FsFault::InputMissing(n) => Some(Fault::Missing(n.clone())),
        FsFault::InputIsDir(n) => Some(Fault::Unreadable(n.clone())),
        FsFault::OutIsDir(p) | FsFault::OutDevFull(p) => requested_of(&job.args).iter().position(|r| r == p).map(|k| Fault::Write(k + 1)),
        FsFault::OutParentMissing(_) => None,
    }
}

extern "C" {
    fn dup(fd: i32) -> i32;
    fn dup2(a: i32, b: i32) -> i32;
    fn close(fd: i32) -> i32;
}

/// run `f` with the process' stdout pointing at /dev/null (driver::drive prints progress lines)
fn silently<T>(f: impl FnOnce() -> T) -> T {
    use std::io::Write;
    use std::os::unix::io::AsRawFd;
    let _ = std::io::stdout().flush();
    let null = std::fs::OpenOptions::new().write(true).open("/dev/null");
    let saved = unsafe { dup(1) };
    if let (Ok(n), true) = (&null, saved >= 0) {
        unsafe { dup2(n.as_raw_fd(), 1) };
    }
    let r = f();
    let _ = std::io::stdout().flush();
    if saved >= 0 {
        unsafe {
            dup2(saved, 1);
            close(saved);
        }
    }
    r
}

struct PCase {
    job: Job,
    ff: FsFault,
    origin: Value,
    /// verdict name observed in-process for the same job (class representatives), if any
    in_process: Option<String>,
    /// true when the case killed / stalled an in-process worker: never run it in-process again
    dangerous: bool,
}

fn fs_fault_cases(dj: &DJob) -> Vec<FsFault> {
    let mut v = vec![];
    for (n, _) in &dj.job.files {
        if !n.starts_with("<std>") {
            v.push(FsFault::InputMissing(n.clone()));
            v.push(FsFault::InputIsDir(n.clone()));
        }
    }
    let args = &dj.job.args;
    for i in 0..args.len() {
        let a = &args[i];
        let is_out_value = (i > 0 && (args[i - 1] == "-o" || args[i - 1] == "--output") && !a.starts_with('-')) || a.starts_with("--output=") || (a.starts_with("-o") && a.len() > 2 && !a.starts_with("--"));
        if is_out_value {
            v.push(FsFault::OutParentMissing(i));
        }
    }
    for r in requested_of(args) {
        v.push(FsFault::OutIsDir(r.clone()));
        if std::path::Path::new("/dev/full").exists() {
            v.push(FsFault::OutDevFull(r));
        }
    }
    v
}

// =================================================================================================
// the check

fn scratch_dir(ctx: &Ctx) -> String {
    let base = std::env::var("VERIF_SCRATCH").unwrap_or_else(|_| format!("{}/.build/scratch", ctx.verif));
    let d = format!("{}/c03-{}", base, std::process::id());
    let _ = std::fs::remove_dir_all(&d);
    std::fs::create_dir_all(&d).expect("create scratch dir");
    d
}

fn real_bin() -> Option<String> {
    std::env::var("VERIF_REAL_BIN").ok().filter(|p| std::path::Path::new(p).is_file())
}

/// every numeric literal of every source file has at most 5 digits after its prefix: no legitimate computation on
/// such an input (a few hundred bytes) can take seconds, let alone the 20 s limit
fn small_magnitudes(job: &Job) -> bool {
    job.files.iter().filter(|f| f.0.ends_with(".asm") && !f.0.starts_with("<std>")).all(|(_, c)| {
        c.len() < 65536
            && lex(c).iter().filter(|t| t.0 == Tk::Number).all(|(_, a, b)| {
                let t = lossy(&c[*a..*b]).to_ascii_lowercase().replace('_', "");
                let d = t.strip_prefix("0x").or(t.strip_prefix("0b")).or(t.strip_prefix("0o")).unwrap_or(&t);
                d.len() <= 5
            })
    })
}

fn stmt_head(line: &[u8]) -> String {
    let toks: Vec<(Tk, usize, usize)> = lex(line).into_iter().filter(|t| !matches!(t.0, Tk::Space | Tk::Break | Tk::Comment)).collect();
    match toks.as_slice() {
        [(Tk::Punct, a, b), (Tk::Ident, c, d), ..] if &line[*a..*b] == b"#" => format!("#{}", lossy(&line[*c..*d]).to_ascii_lowercase()),
        [] => "empty-line".to_string(),
        _ => "instruction-or-symbol".to_string(),
    }
}

fn process_key(pc: &PCase, pv: &PVerdict) -> String {
    if pc.dangerous {
        // the statement the edit landed in: its directive name, or "instruction-or-symbol"
        let head = stmt_head(pc.origin["edited_line"].as_str().unwrap_or("").as_bytes());
        return format!("C03:{}:{}", if *pv == PVerdict::Timeout { "no-termination" } else { "abort" }, head);
    }
    // same cause as an in-process violation of the same job (with the corresponding mock fault, or without any)?
    let mut candidates = vec![];
    if let Some(f) = mock_fault_of(&pc.ff, &pc.job) {
        candidates.push(f);
    }
    if !candidates.contains(&Fault::None) {
        candidates.push(Fault::None);
    }
    for f in candidates {
        let v = silently(|| judge(&pc.job, &run_job(&pc.job, &f)));
        if corresponding(pv).contains(&v) {
            return silently(|| attribute(&pc.job, &f, &v)).0;
        }
    }
    format!("C03:process-only:{}:{}", pv.name(), pc.ff.kind())
}

pub fn run(ctx: &Ctx) -> Report {
    let limit = token_limit(ctx.thorough);
    let mut rep = Report::new(
        "fault_enumeration",
        &format!(
            "in-process (driver::drive + Report::print_all on a fault-injecting mock file server, run in worker sub-processes): identity and EVERY single token edit (delete / duplicate / swap-with-next / replace by and insert each of {} alphabet tokens, at every token boundary of my own lexer) of every seed = every .asm file under tests/ {} + 18 generated programs{}; options grid 18 programs x budgets {{1,2,10}} x 4 optimisation-switch combinations x 11 define variants (valid / unused / malformed) x --debug-iters; every tests/driver job + 21 generated multi-file jobs (1-3 output groups) fault-free and with EVERY single fault (k-th get_handle / get_bytes / write_bytes for every k, each file missing, each file unreadable); 34 format strings (27 valid, 7 with illegal parameter values) x 12 output shapes (empty, 1 bit, partial byte, banks, labels) x file/print. Real binary: one representative per (verdict, first message) class, the smallest example of every violation family, every driver/format job, every real-file-system fault (each input missing / a directory, each output path uncreatable: parent missing / a directory). Verdict per run: exactly one of success (Ok, no error diagnostic, every requested file written, exit 0) / failure (Err, >= 1 error, nothing written unless the failure is an unwritable output, exit != 0) and never a panic / signal / exit 101. No verdict: a k-th-call fault on a file that was already read in the same run (not a permanent fault); a run that gives no result within the time limit unless every numeric literal of its input has <= 5 digits. Non-trivial = damaged input whose observable result differs from its seed's (distinct by text), every grid case, every job, every fault that fired.",
            if ctx.thorough { 48 } else { 16 },
            if ctx.thorough { "(all of them)".to_string() } else { format!("with at most {} tokens (whitespace, line breaks and comments count as tokens)", limit) },
            if ctx.thorough { format!("; ALL double edits (12-token alphabet) of the seeds with at most {} tokens", DOUBLE_TOKEN_LIMIT) } else { String::new() }
        ),
    );
    rep.level = "fault_enumeration";
    let t_start = std::time::Instant::now();
    let dir = scratch_dir(ctx);
    let (space, all_seeds) = build_space(&ctx.repo, ctx.thorough, limit, false);
    let spec = json!({"thorough": ctx.thorough, "limit": if limit == usize::MAX { json!(null) } else { json!(limit) }});
    let stall_ms = if ctx.thorough { 10_000 } else { 4_000 };
    let (mut acc, st) = iso::run_isolated(&space, &spec, &dir, stall_ms, if ctx.thorough { 3000.0 } else { 200.0 }, if ctx.thorough { 400 } else { 48 });
    let t_iso = t_start.elapsed().as_secs_f64();
    if st.incomplete.is_some() {
        rep.exhaustive = false;
    }

    // ---------------- family 3: the real binary
    let stdf = std_files(&ctx.repo);
    let mut l = Local::new();
    let mut pviol: BTreeMap<String, (u64, Vec<Kept>)> = BTreeMap::new();
    let mut extra_process = json!(null);
    let mut confirmed: BTreeMap<String, Value> = BTreeMap::new();
    let mut discarded: Vec<Value> = vec![];
    if let Some(bin) = real_bin() {
        let mut cases: Vec<PCase> = vec![];
        for (ck, r) in &acc.reps {
            cases.push(PCase { job: Job::from_json(&r.case["job"], &stdf), ff: FsFault::None, origin: json!({"class": ck}), in_process: r.case["in_process"].as_str().map(|s| s.to_string()), dangerous: false });
        }
        for dj in &space.drive.jobs {
            cases.push(PCase { job: dj.job.clone(), ff: FsFault::None, origin: json!({"job": dj.name}), in_process: None, dangerous: false });
            if dj.faults {
                for ff in fs_fault_cases(dj) {
                    cases.push(PCase { job: dj.job.clone(), ff, origin: json!({"job": dj.name}), in_process: None, dangerous: false });
                }
            }
        }
        // cases that killed / stalled a worker (at most 16 of the stalled ones: each may cost the full time limit)
        for i in st.killers.iter().map(|k| &k.0).chain(st.hung.iter().take(16)).chain(st.unattributed.iter().take(16)) {
            let d = space.describe(*i);
            cases.push(PCase { job: Job::from_json(&d["job"], &stdf), ff: FsFault::None, origin: d, in_process: None, dangerous: true });
        }
        let results: Vec<(PObs, PVerdict)> = cases
            .par_iter()
            .enumerate()
            .map(|(n, pc)| {
                let o = run_process(&bin, &format!("{}/p{}", dir, n), &pc.job, &pc.ff, 20.0);
                let v = pjudge(&pc.job, &pc.ff, &o);
                (o, v)
            })
            .collect();
        let (mut agree, mut disagree) = (0u64, vec![]);
        for (pc, (o, v)) in cases.iter().zip(results.iter()) {
            l.eval();
            l.class(&format!("process:{}", v.name()));
            if pc.ff != FsFault::None {
                l.class(&format!("fsfault:{}:{}", pc.ff.kind(), v.name()));
                l.count("fault_points", 1);
                l.nontrivial(&(&pc.job.args, pc.ff.to_json().to_string(), pc.origin.to_string()));
            }
            if *v == PVerdict::Timeout {
                l.unspecified += 1;
            }
            if let Some(ip) = &pc.in_process {
                // binding of the in-process observation to the process-level one (bookkeeping, not a verdict)
                let same = match v {
                    PVerdict::Success => ip == "success",
                    PVerdict::Failure => ip.starts_with("failure"),
                    PVerdict::Crash => ip.starts_with("panic"),
                    PVerdict::Exit0WithError => ip == "error-with-output",
                    PVerdict::Timeout => true,
                    _ => false,
                };
                if same {
                    agree += 1;
                } else {
                    disagree.push(json!({"class": pc.origin["class"], "in_process": ip, "process": v.name()}));
                }
            }
            // a case that stalled its in-process worker and gives no result on the real binary either: a verdict only
            // when the input is small in every respect (otherwise resource limits, C19's)
            let no_termination = pc.dangerous && *v == PVerdict::Timeout && small_magnitudes(&pc.job);
            if no_termination {
                l.unspecified -= 1;
                l.class("process:no-termination-small-input");
            }
            if !v.good() || no_termination {
                let key = process_key(pc, v);
                let what = format!("real binary: {} ({}){}", if no_termination { "no result on a small input" } else { v.name() }, o.status, if pc.ff != FsFault::None { format!(" under file-system fault {}", pc.ff.kind()) } else { String::new() });
                let case = json!({"kind": "process", "job": pc.job.to_json(), "fs_fault": pc.ff.to_json(), "origin": pc.origin,
                    "expected": "exit 0, no `error:` on stderr, every requested file created  OR  exit != 0 (not a signal / 101), `error:` on stderr, no file created (except earlier groups when an output is uncreatable)",
                    "observed": pobs_json(o, v), "effective_args": effective(&pc.job, &pc.ff).0, "reproduce": pc.job.shell()});
                let e = pviol.entry(key.clone()).or_insert((0, vec![]));
                e.0 += 1;
                e.1.push(Kept::new(what, case, pc.job.size()));
                if *v == PVerdict::Crash {
                    confirmed.entry(key).or_insert_with(|| pobs_json(o, v));
                }
            }
        }
        // every in-process violation family is re-checked on the real binary with its smallest example; a crash
        // (panic / abort) that the real binary does not show is dropped as a harness artefact (DESIGN §9), never reported
        let keys: Vec<String> = acc.viol.iter().filter(|(_, (_, kept))| !kept.is_empty()).map(|(k, _)| k.clone()).collect();
        for key in keys {
            if confirmed.contains_key(&key) {
                continue;
            }
            let kept = acc.viol[&key].1[0].clone();
            let is_panic = kept.case["observed"]["verdict"].as_str().unwrap_or("").starts_with("panic");
            let job = Job::from_json(&kept.case["job"], &stdf);
            let ff = match Fault::from_json(&kept.case["fault"]) {
                Fault::None => Some(FsFault::None),
                Fault::Missing(n) => Some(FsFault::InputMissing(n)),
                Fault::Unreadable(n) => Some(FsFault::InputIsDir(n)),
                Fault::Write(k) => requested_of(&job.args).get(k - 1).map(|p| FsFault::OutIsDir(p.clone())),
                _ => None,
            };
            let Some(ff) = ff else {
                confirmed.insert(key, json!("k-th-call fault: not reproducible on a real file system; observed in-process only"));
                continue;
            };
            let o = run_process(&bin, &format!("{}/confirm", dir), &job, &ff, 20.0);
            let v = pjudge(&job, &ff, &o);
            l.eval();
            l.class(&format!("process:{}", v.name()));
            if is_panic && v != PVerdict::Crash {
                let (n, _) = acc.viol.remove(&key).unwrap();
                discarded.push(json!({"key": key, "cases": n, "real_binary": pobs_json(&o, &v)}));
            } else {
                confirmed.insert(key, pobs_json(&o, &v));
            }
        }
        extra_process = json!({"runs": l.evaluations, "class_representatives": acc.reps.len(), "binding_agree": agree, "binding_disagree": disagree});
    } else {
        rep.machinery_error.get_or_insert("VERIF_REAL_BIN is not set or not a file: the process-level family cannot run".to_string());
    }
    let _ = std::fs::remove_dir_all(&dir);
    eprintln!("[C03] in-process families {:.1}s ({} worker launch(es)), process family {:.1}s", t_iso, st.launches, t_start.elapsed().as_secs_f64() - t_iso);

    // ---------------- assemble the report
    l.evaluations += acc.evaluations;
    for h in acc.nontrivial.drain(..) {
        l.nontrivial.insert(h);
    }
    for (k, v) in &acc.classes {
        *l.classes.entry(k.clone()).or_insert(0) += v;
    }
    for (k, v) in &acc.counters {
        *l.counters.entry(k.clone()).or_insert(0) += v;
    }
    l.unspecified += acc.unspecified + (st.hung.len() + st.unattributed.len()) as u64;
    l.samples = acc.samples.iter().take(MAX_SAMPLES).cloned().collect();
    let mut all_viol = acc.viol.clone();
    for (k, (n, kept)) in pviol {
        let e = all_viol.entry(k).or_insert((0, vec![]));
        e.0 += n;
        e.1.extend(kept);
        e.1.sort_by_key(|k| (k.size, k.hash));
        e.1.truncate(iso::KEEP);
    }
    for (key, (n, kept)) in &all_viol {
        for k in kept {
            let mut case = k.case.clone();
            if let Some(c) = confirmed.get(key) {
                case["real_binary_confirmation"] = c.clone();
            }
            l.violation(Violation { property: ID, key: key.clone(), what: k.what.clone(), case });
        }
        l.viol_counts.insert(key.clone(), *n);
    }
    if let Ok(p) = std::env::var("C03_DEBUG") {
        let dump: Vec<Value> = all_viol.iter().map(|(k, (n, kept))| json!({"key": k, "cases": n, "examples": kept.iter().map(|k| json!({"what": k.what, "case": k.case})).collect::<Vec<_>>()})).collect();
        let _ = std::fs::write(p, serde_json::to_string_pretty(&dump).unwrap_or_default());
    }
    rep.absorb(l);
    let fp = rep.local.counters.get("fault_points").copied().unwrap_or(0);
    rep.extra("fault_points", json!(fp));
    rep.extra("seeds", json!({"available": all_seeds, "used": space.sweep.seeds.len(), "token_limit": if limit == usize::MAX { json!("none") } else { json!(limit) }, "alphabet_tokens": space.sweep.alpha.len()}));
    rep.extra("enumerated", json!({"sweep_cases": space.sweep.len(), "grid_cases": space.grid.len(), "driver_jobs": space.drive.len(),
        "double_edit_first_edits": space.double.len(), "double_edit_seeds": space.double.seeds.len(), "double_edit_runs": rep.local.classes.iter().filter(|(k, _)| k.starts_with("double:")).map(|(_, v)| *v).sum::<u64>()}));
    rep.extra("process", extra_process);
    rep.extra("isolation", json!({"worker_launches": st.launches, "stalled_cases_no_verdict": st.hung.len(), "worker_killing_cases": st.killers.iter().map(|k| json!({"index": k.0, "status": k.1})).collect::<Vec<_>>(),
        "unattributed_in_flight_cases_no_verdict": st.unattributed.len(), "stall_limit_ms": stall_ms, "incomplete": st.incomplete,
        "stalled_cases": st.hung.iter().take(20).map(|i| { let d = space.describe(*i); json!({"seed": d["seed"], "edit": d["edit"], "edited_line": d["edited_line"], "origin": d["origin"]}) }).collect::<Vec<_>>()}));
    rep.extra("artefacts_discarded", json!(discarded));
    rep.extra("violation_keys", json!(all_viol.iter().map(|(k, (n, _))| json!({"key": k, "cases": n})).collect::<Vec<_>>()));
    rep.assumptions = vec![
        "the mock file server stands for the file system in the in-process families; the process family binds it (one representative per outcome class and every fault kind on the real file system)".into(),
        "a case that does not return within the stall limit gets no verdict here (resource limits are C19's)".into(),
        "panic verdicts refer to the overflow-checking build profile".into(),
    ];
    if rep.local.counters.get("requested_model_disagrees_with_corpus").copied().unwrap_or(0) > 0 && rep.machinery_error.is_none() {
        rep.machinery_error = Some("my reading of a corpus command line disagrees with its `; output:` lines".into());
    }
    // vacuity guards. Input-side ones always apply; the ones about outcome classes of the subject apply only when
    // every violation seen is a recorded known finding (otherwise the run is a verdict, exit 1, not a machinery failure)
    if (space.sweep.len() == 0 || space.grid.len() == 0 || space.drive.len() == 0) && rep.machinery_error.is_none() {
        rep.machinery_error = Some("vacuity guard: an enumerated family is empty".into());
    }
    let known = load_known(&ctx.verif);
    let all_known = all_viol.keys().all(|k| known.iter().any(|f| f.property == ID && f.status == "known" && &f.key == k));
    if all_known {
        if let Some(e) = &st.incomplete {
            rep.machinery_error.get_or_insert(format!("isolated enumeration incomplete: {}", e));
        }
        for c in [
            "success", "failure", "seed-assembles", "seed-rejected", "sweep:success", "sweep:failure", "grid:success", "grid:failure", "driver:success", "driver:failure", "format:success",
            "fault:get_handle:failure", "fault:get_bytes:failure", "fault:write_bytes:failure-unwritable-output", "fault:file-missing:failure", "fault:file-unreadable:failure", "process:success", "process:failure",
            "fsfault:input-missing:failure", "fsfault:input-is-directory:failure", "fsfault:output-parent-missing:failure", "fsfault:output-is-directory:failure",
        ] {
            rep.require_class(c);
        }
    }
    rep
}

pub fn replay(ctx: &Ctx, case: &Value) -> i32 {
    if case["kind"] == "worker" {
        let limit = case["space"]["limit"].as_u64().map(|l| l as usize).unwrap_or(usize::MAX);
        let thorough = case["space"]["thorough"].as_bool().unwrap_or(false);
        let (space, _) = build_space(&ctx.repo, thorough, limit, case["single"].is_null());
        return iso::worker_main(&space, case);
    }
    let stdf = std_files(&ctx.repo);
    super::replay_with(ctx, case, |case, l| {
        let job = Job::from_json(&case["job"], &stdf);
        println!("reproduce: {}", job.shell());
        if case["kind"] == "process" {
            let ff = FsFault::from_json(&case["fs_fault"]);
            let Some(bin) = real_bin() else {
                println!("VERIF_REAL_BIN not set");
                return;
            };
            let dir = scratch_dir(ctx);
            let o = run_process(&bin, &format!("{}/replay", dir), &job, &ff, 20.0);
            let _ = std::fs::remove_dir_all(&dir);
            let v = pjudge(&job, &ff, &o);
            println!("observed: {}", pobs_json(&o, &v));
            if !v.good() {
                l.violation(Violation { property: ID, key: "replay".into(), what: format!("case still violates: {}", v.name()), case: case.clone() });
            }
        } else {
            let fault = Fault::from_json(&case["fault"]);
            let (o, v) = silently(|| {
                let o = run_job(&job, &fault);
                let v = judge(&job, &o);
                (o, v)
            });
            println!("observed: {}", obs_json(&o, &v));
            if !v.good() {
                l.violation(Violation { property: ID, key: "replay".into(), what: format!("case still violates: {}", v.name()), case: case.clone() });
            }
        }
    })
}
