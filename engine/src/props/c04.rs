//! C04 — typed arguments and sized data accept exactly their range, never truncating.
//! Alphabet: type {u,s,i} x width N x value v x spelling; `#dN` with unsized and sized values.
//! Oracle: the three inequalities of the property (closed form) + low-N-bits emission.
use crate::refx::{bits_of, pow2, Z};
use crate::run;
use crate::stats::*;
use serde_json::json;

pub const ID: &str = "C04";

#[derive(Clone, Copy, Debug, PartialEq, Eq, Hash)]
pub enum Ty {
    U,
    S,
    I,
}
impl Ty {
    fn ch(self) -> char {
        match self {
            Ty::U => 'u',
            Ty::S => 's',
            Ty::I => 'i',
        }
    }
}

const SPELLINGS: [&str; 7] = ["dec", "hex", "bin", "expr", "const", "hexpad", "not"];

/// 2*lo <= 2*v < 2*hi avoids the half-integer bound of N = 0
fn accepts(ty: Ty, n: usize, v: &Z) -> bool {
    let two_v = v * 2;
    let half = pow2(n); // = 2 * 2^(n-1)
    match ty {
        Ty::U => *v >= Z::from(0) && *v < pow2(n),
        Ty::S => two_v >= -half.clone() && two_v < half,
        Ty::I => two_v >= -half && *v < pow2(n),
    }
}

fn spell(v: &Z, how: &str) -> (String, String) {
    // returns (prelude, operand text)
    let neg = *v < Z::from(0);
    let mag = if neg { -v.clone() } else { v.clone() };
    let sign = if neg { "-" } else { "" };
    match how {
        "dec" => (String::new(), format!("{}{}", sign, mag)),
        "hex" => (String::new(), format!("{}0x{:x}", sign, mag)),
        "hexpad" => (String::new(), format!("{}0x00{:x}", sign, mag)),
        "bin" => (String::new(), format!("{}0b{:b}", sign, mag)),
        "expr" => (String::new(), format!("({} - 1) + 1", v)),
        // bitwise complement of a sized literal (v < 0) or of a negative number (v >= 0): the result is unsized
        "not" => (String::new(), if neg { format!("!0x{:x}", -v.clone() - 1) } else { format!("!-{}", v.clone() + 1) }),
        "const" => (format!("c = {}{}\n", sign, mag), "c".to_string()),
        _ => unreachable!(),
    }
}

fn values_for(n: usize, full: bool) -> Vec<Z> {
    let mut v = vec![];
    if full {
        let lo = -pow2(n) - 4;
        let hi = pow2(n) + 4;
        let mut x: Z = lo;
        while x <= hi {
            v.push(x.clone());
            x += 1;
        }
    } else {
        let mut centers = vec![Z::from(0), pow2(n), -pow2(n)];
        if n >= 1 {
            centers.push(pow2(n - 1));
            centers.push(-pow2(n - 1));
        }
        for c in centers {
            for d in -4i32..=4 {
                let x = &c + d;
                if !v.contains(&x) {
                    v.push(x);
                }
            }
        }
    }
    v
}

#[derive(Clone)]
struct Case {
    ty: Ty,
    n: usize,
    v: Z,
    spelling: &'static str,
}

fn judge_typed(c: &Case, l: &mut Local) {
    let (prelude, operand) = spell(&c.v, c.spelling);
    let prog = format!("#ruledef {{\n t {{x: {}{}}} => 0xa5 @ x @ 0b1\n}}\n{}t {}\n", c.ty.ch(), c.n, prelude, operand);
    let acc = accepts(c.ty, c.n, &c.v);
    l.eval();
    // non-trivial: within 4 of a boundary of the type
    let near = {
        let b = [Z::from(0), pow2(c.n), if c.n > 0 { pow2(c.n - 1) } else { Z::from(0) }, if c.n > 0 { -pow2(c.n - 1) } else { Z::from(0) }];
        b.iter().any(|b| {
            let d = &c.v - b;
            d >= Z::from(-4) && d <= Z::from(4)
        })
    };
    if near {
        l.nontrivial(&(c.ty, c.n, c.v.to_string(), c.spelling));
    }
    l.class(if acc { "typed-accept" } else { "typed-reject" });
    let obs = run::assemble_str(&prog, &run::Opts::default());
    let expect_bits = format!("10100101{}1", bits_of(&c.v, c.n));
    let bad = if obs.panicked.is_some() {
        Some("panic")
    } else if acc {
        if !obs.success() {
            Some("in-range argument rejected")
        } else if obs.bits != expect_bits {
            Some("accepted argument emitted with wrong bits")
        } else {
            None
        }
    } else if obs.ok {
        Some("out-of-range argument accepted")
    } else if !obs.has_errors {
        Some("rejected without an error")
    } else {
        None
    };
    if let Some(b) = bad {
        let key = if c.n == 0 && c.v == Z::from(0) && acc { "C04:width0-zero-rejected".to_string() } else { format!("typed:{}", b) };
        l.violation(Violation {
            property: ID,
            key,
            what: format!("{}: type {}{} value {} ({})", b, c.ty.ch(), c.n, c.v, c.spelling),
            case: json!({"kind": "typed", "program": prog, "ty": c.ty.ch().to_string(), "n": c.n, "v": c.v.to_string(), "spelling": c.spelling,
                "expected": if acc { json!({"accept": true, "bits": expect_bits}) } else { json!({"accept": false}) }, "observed": obs.summary()}),
        });
    }
    l.traces_validated += 1;
    l.sample(|| json!({"program": prog, "expected_accept": acc}));
}

/// The argument check does not depend on what the rule body does with the parameter: bodies that never read it, read it
/// only in a branch not taken, or use it only as `asm` text.
const BODY_SHAPES: &[(&str, &str, &str)] = &[
    ("never-read", "0xa5", ""),
    ("block-not-reading", "{ y = 1\n 0xa5 }", ""),
    ("untaken-branch", "0xa5 @ (1 == 1 ? 0x0 : x)", "0000"),
    ("asm-text-only", "asm { e {x} }", "+"),
];

fn judge_typed_shape(c: &Case, shape: usize, l: &mut Local) {
    let (sname, body, tail) = BODY_SHAPES[shape];
    if tail == "+" && c.n == 0 {
        return;
    }
    let (prelude, operand) = spell(&c.v, c.spelling);
    let prog = format!("#ruledef {{\n t {{x: {}{}}} => {}\n e {{v}} => 0xa5 @ v`{}\n}}\n{}t {}\n", c.ty.ch(), c.n, body, std::cmp::max(c.n, 1), prelude, operand);
    let acc = accepts(c.ty, c.n, &c.v);
    l.eval();
    l.nontrivial(&("shape", shape, c.ty, c.n, c.v.to_string(), c.spelling));
    l.class(if acc { "typed-shape-accept" } else { "typed-shape-reject" });
    let obs = run::assemble_str(&prog, &run::Opts::default());
    let expect_bits = format!("10100101{}", if tail == "+" { bits_of(&c.v, c.n) } else { tail.to_string() });
    let bad = if obs.panicked.is_some() {
        Some("panic")
    } else if acc {
        if !obs.success() {
            Some("in-range argument rejected")
        } else if obs.bits != expect_bits {
            Some("accepted argument emitted with wrong bits")
        } else {
            None
        }
    } else if obs.ok {
        Some("out-of-range argument accepted")
    } else if !obs.has_errors {
        Some("rejected without an error")
    } else {
        None
    };
    if let Some(b) = bad {
        l.violation(Violation {
            property: ID,
            key: if c.n == 0 && c.v == Z::from(0) && acc { "C04:width0-zero-rejected".to_string() } else { format!("typed-body-{}:{}", sname, b) },
            what: format!("{}: type {}{} value {} ({}), rule body `{}`", b, c.ty.ch(), c.n, c.v, c.spelling, body.replace('\n', " / ")),
            case: json!({"kind": "typed-shape", "shape": shape, "program": prog, "ty": c.ty.ch().to_string(), "n": c.n, "v": c.v.to_string(), "spelling": c.spelling,
                "expected": if acc { json!({"accept": true, "bits": expect_bits}) } else { json!({"accept": false}) }, "observed": obs.summary()}),
        });
    }
    l.traces_validated += 1;
}

/// An accepted argument handed on by value: bound to a block local, passed to a user function, and substituted into
/// an `asm` block whose instruction has a typed parameter of its own. The value that arrives is the value that was
/// accepted (a negative number stays negative), so the inner decision is the inner type's on the same value.
fn judge_typed_handed_on(c: &Case, inner: Ty, route: usize, l: &mut Local) {
    let (prelude, operand) = spell(&c.v, c.spelling);
    let body = match route {
        0 => "{\n y = x\n asm { e {y} }\n }",
        1 => "{\n y = idf(x)\n asm { e {y} }\n }",
        _ => "asm { e {x} }",
    };
    let prog = format!("#fn idf(v) => v\n#ruledef {{\n t {{x: {}{}}} => {}\n e {{v: {}{}}} => 0xa5 @ v\n}}\n{}t {}\n", c.ty.ch(), c.n, body, inner.ch(), c.n, prelude, operand);
    let acc = accepts(c.ty, c.n, &c.v) && accepts(inner, c.n, &c.v);
    l.eval();
    l.nontrivial(&("handed-on", route, c.ty, inner, c.n, c.v.to_string()));
    l.class(if acc { "typed-handed-on-accept" } else { "typed-handed-on-reject" });
    let obs = run::assemble_str(&prog, &run::Opts::default());
    let expect_bits = format!("10100101{}", bits_of(&c.v, c.n));
    let bad = if obs.panicked.is_some() {
        Some("panic")
    } else if acc {
        if !obs.success() {
            Some("in-range argument rejected")
        } else if obs.bits != expect_bits {
            Some("accepted argument emitted with wrong bits")
        } else {
            None
        }
    } else if obs.ok {
        Some("out-of-range argument accepted")
    } else if !obs.has_errors {
        Some("rejected without an error")
    } else {
        None
    };
    if let Some(b) = bad {
        l.violation(Violation {
            property: ID,
            key: format!("typed-handed-on:{}", b),
            what: format!("{}: outer {}{} inner {}{} value {} via {}", b, c.ty.ch(), c.n, inner.ch(), c.n, c.v, ["a block local", "a user function and a block local", "asm text"][route]),
            case: json!({"kind": "typed-handed-on", "program": prog, "expected": if acc { json!({"accept": true, "bits": expect_bits}) } else { json!({"accept": false}) }, "observed": obs.summary()}),
        });
    }
    l.traces_validated += 1;
}

fn judge_data(n: usize, v: &Z, spelling: &'static str, l: &mut Local) {
    // unsized spellings only (dec / expr / const): hex and binary literals carry their own size
    let (prelude, operand) = spell(v, spelling);
    let prog = format!("{}#d{} {}\n#d8 0xa5\n", prelude, n, operand);
    let two_v = v * 2;
    let acc = two_v >= -pow2(n) && *v < pow2(n);
    l.eval();
    l.nontrivial(&("data", n, v.to_string(), spelling));
    l.class(if acc { "data-accept" } else { "data-reject" });
    let obs = run::assemble_str(&prog, &run::Opts::default());
    let expect_bits = format!("{}10100101", bits_of(v, n));
    let bad = if obs.panicked.is_some() {
        Some("panic")
    } else if acc {
        if !obs.success() {
            Some("representable data value rejected")
        } else if obs.bits != expect_bits {
            Some("data value emitted with wrong bits")
        } else {
            None
        }
    } else if obs.ok {
        Some("unrepresentable data value accepted (cut to fit)")
    } else if !obs.has_errors {
        Some("rejected without an error")
    } else {
        None
    };
    if let Some(b) = bad {
        let key = if n == 0 && *v == Z::from(0) && acc { "C04:width0-zero-rejected".to_string() } else { format!("data:{}", b) };
        l.violation(Violation {
            property: ID,
            key,
            what: format!("{}: #d{} {} ({})", b, n, v, spelling),
            case: json!({"kind": "data", "program": prog, "n": n, "v": v.to_string(), "expected": if acc { json!({"accept": true, "bits": expect_bits}) } else { json!({"accept": false}) }, "observed": obs.summary()}),
        });
    }
    l.traces_validated += 1;
}

fn judge_data_sized(n: usize, s: usize, pattern: usize, l: &mut Local) {
    // a sized literal of width s: binary digits
    let v: Z = match pattern {
        0 => Z::from(0),
        1 => Z::from(1),
        2 => pow2(s) - 1,
        _ => pow2(s - 1),
    };
    let lit = format!("0b{}", bits_of(&v, s));
    let prog = format!("#d{} {}\n#d8 0xa5\n", n, lit);
    let acc = s <= n;
    l.eval();
    l.nontrivial(&("data-sized", n, s, pattern));
    l.class(if acc { "data-sized-accept" } else { "data-sized-reject" });
    let obs = run::assemble_str(&prog, &run::Opts::default());
    let expect_bits = format!("{}10100101", bits_of(&v, n));
    let bad = if obs.panicked.is_some() {
        Some("panic")
    } else if acc {
        (!(obs.success() && obs.bits == expect_bits)).then_some("sized value no wider than the directive rejected or mis-emitted")
    } else {
        (!obs.failure()).then_some("sized value wider than the directive accepted")
    };
    if let Some(b) = bad {
        l.violation(Violation {
            property: ID,
            key: format!("data-sized:{}", b),
            what: format!("{}: #d{} {}", b, n, lit),
            case: json!({"kind": "data-sized", "program": prog, "expected_accept": acc, "observed": obs.summary()}),
        });
    }
    l.traces_validated += 1;
}

pub fn run(ctx: &Ctx) -> Report {
    let mut rep = Report::new(
        "model_checking",
        "closed-form reference (the property's inequalities): every type u/s/i x width N x value x spelling, #dN with unsized and sized values; non-trivial = value within 4 of a range boundary (0, +-2^(N-1), 2^N) for typed arguments, every data case; distinct by (type, width, value, spelling)",
    );
    let full_upto = if ctx.thorough { 18 } else { 9 };
    let small_upto = std::cmp::max(16, full_upto);
    let mut cases: Vec<Case> = vec![];
    for n in 0..=small_upto {
        let vals = values_for(n, n <= full_upto);
        for ty in [Ty::U, Ty::S, Ty::I] {
            for v in &vals {
                for sp in SPELLINGS {
                    cases.push(Case { ty, n, v: v.clone(), spelling: sp });
                }
            }
        }
    }
    // widths 17..256: complete boundary set
    let wide: Vec<usize> = (small_upto + 1..=256).collect();
    for n in &wide {
        let vals = values_for(*n, false);
        for ty in [Ty::U, Ty::S, Ty::I] {
            for v in &vals {
                for sp in ["dec", "hex", "const"] {
                    cases.push(Case { ty, n: *n, v: v.clone(), spelling: sp });
                }
            }
        }
    }
    rep.absorb(par_cases(&cases, judge_typed));
    // the same decision whatever the rule body does with the parameter
    {
        let shape_upto = if ctx.thorough { 12 } else { 8 };
        let mut sc: Vec<(Case, usize)> = vec![];
        for n in 0..=shape_upto {
            for ty in [Ty::U, Ty::S, Ty::I] {
                for v in values_for(n, true) {
                    for sp in ["dec", "const"] {
                        for shape in 0..BODY_SHAPES.len() {
                            sc.push((Case { ty, n, v: v.clone(), spelling: sp }, shape));
                        }
                    }
                }
            }
        }
        rep.absorb(par_cases(&sc, |c, l| judge_typed_shape(&c.0, c.1, l)));
    }

    // accepted values handed on by value to a second typed parameter
    {
        let upto = if ctx.thorough { 9 } else { 6 };
        let mut hc: Vec<(Case, Ty, usize)> = vec![];
        for n in 1..=upto {
            for ty in [Ty::U, Ty::S, Ty::I] {
                for inner in [Ty::U, Ty::S, Ty::I] {
                    for v in values_for(n, true) {
                        for route in 0..3 {
                            hc.push((Case { ty, n, v: v.clone(), spelling: "dec" }, inner, route));
                        }
                    }
                }
            }
        }
        rep.absorb(par_cases(&hc, |c, l| judge_typed_handed_on(&c.0, c.1, c.2, l)));
    }
    // the argument is the instruction's own final address, read directly or through a user function; the instruction
    // stands behind one whose size is only known once a forward label is (so the address moves after the first pass):
    // the range decision is about the final address
    {
        let mut ac: Vec<(usize, usize, usize)> = vec![];
        for m in 0..=18usize {
            for form in 0..3 {
                for ty in 0..3 {
                    ac.push((m, form, ty));
                }
            }
        }
        rep.absorb(par_cases(&ac, |(m, form, ty), l| {
            let operand = ["here()", "$", "at(1) - 1"][*form];
            let (tname, lo, hi) = [("u4", 0i64, 16i64), ("s4", -8, 8), ("i4", -8, 16)][*ty];
            let mut src = format!("#fn here() => $\n#fn at(d) => $ + d\n#ruledef\n{{\n    jmp {{a: {}}} => 0xc @ a\n    pad {{n}} => n > 0 ? 0x0000 : 0x00\n}}\n", tname);
            for _ in 0..*m {
                src += "#d8 0\n";
            }
            src += &format!("pad far\njmp {}\nfar:\n", operand);
            let addr = (*m + 2) as i64;
            let acc = addr >= lo && addr < hi;
            l.eval();
            l.nontrivial(&(*m, *form, *ty));
            l.class(if acc { "final-address-accept" } else { "final-address-reject" });
            let expect_bits = format!("{}{}1100{}", "00000000".repeat(*m), "0000000000000000", bits_of(&Z::from(addr), 4));
            for opts in [run::Opts::default(), run::Opts::iters(30)] {
                let obs = run::assemble_str(&src, &opts);
                let bad = if obs.panicked.is_some() {
                    Some("panic")
                } else if acc {
                    if !obs.success() {
                        Some("in-range argument rejected")
                    } else if obs.bits != expect_bits {
                        Some("accepted argument emitted with wrong bits")
                    } else {
                        None
                    }
                } else if obs.ok {
                    Some("out-of-range argument accepted")
                } else if !obs.has_errors {
                    Some("rejected without an error")
                } else {
                    None
                };
                if let Some(b) = bad {
                    l.violation(Violation {
                        property: ID,
                        key: format!("final-address:{}", b),
                        what: format!("{}: `jmp {}` with {{a: {}}} at final address {}: {}", b, operand, tname, addr, src.replace('\n', " / ")),
                        case: json!({"kind": "final-address", "program": src, "expected": if acc { json!({"accept": true, "bits": expect_bits}) } else { json!({"accept": false}) }, "observed": obs.summary()}),
                    });
                    break;
                }
            }
            l.traces_validated += 1;
        }));
    }
    // data directives
    let mut dcases: Vec<(usize, Z, &'static str)> = vec![];
    for n in 0..=16usize {
        for v in values_for(n, n <= full_upto) {
            for sp in ["dec", "expr", "const", "not"] {
                dcases.push((n, v.clone(), sp));
            }
        }
    }
    for n in &wide {
        for v in values_for(*n, false) {
            dcases.push((*n, v, "dec"));
        }
    }
    rep.absorb(par_cases(&dcases, |c, l| judge_data(c.0, &c.1, c.2, l)));
    let mut scases = vec![];
    for n in 0..=16usize {
        for s in 1..=(n + 2) {
            for p in 0..4 {
                scases.push((n, s, p));
            }
        }
    }
    for n in [24usize, 31, 32, 33, 63, 64, 65, 128, 256] {
        for s in [1, n - 1, n, n + 1, n + 2] {
            for p in 0..4 {
                scases.push((n, s, p));
            }
        }
    }
    rep.absorb(par_cases(&scases, |c, l| judge_data_sized(c.0, c.1, c.2, l)));

    // values that are only in range once an over-estimated instruction has shrunk: the range check is about the final
    // value, not about a guess on the way (directed; the unique fixed point is reached in three passes). Width 8 / 4,
    // data directive and typed argument, just inside and just outside.
    {
        let head = "#ruledef\n{\n    jb {a} => { assert(a < 6), 0xa @ a`4 }\n    jb {a} => 0xb0 @ a`8\n    t8 {x: u8} => 0x55 @ x\n    s8 {x: s8} => 0x66 @ x\n    ti {i: imm} => 0x77 @ i\n    n8 {x: u8} => 0x99\n    ni {i: imm} => 0x88\n    nb {x: s8} => { y = 1, 0x44 }\n}\n#subruledef imm\n{\n    #{v: u8} => v\n}\n";
        // B - A is 2 in the first passes and 1 in the end
        let cases: Vec<(&str, Option<Vec<u8>>)> = vec![
            ("#d8 254 + (B - A)", Some(vec![0xff])),
            ("#d8 (A - B) - 127", Some(vec![0x80])),
            ("#d8 255 + (B - A)", None),
            ("#d8 (A - B) - 128", None),
            ("t8 254 + (B - A)", Some(vec![0x55, 0xff])),
            ("s8 (A - B) - 127", Some(vec![0x66, 0x80])),
            ("t8 255 + (B - A)", None),
            ("s8 (A - B) - 128", None),
            // the other direction: in range for the first guess (B - A = 2), out of range in the end
            ("#d8 257 - (B - A)", None),
            ("t8 257 - (B - A)", None),
            ("#d8 256 - (B - A)", Some(vec![0xff])),
            ("t8 256 - (B - A)", Some(vec![0x55, 0xff])),
            // ... and with the typed parameter inside a sub-rule operand
            ("ti #(257 - (B - A))", None),
            ("ti #(256 - (B - A))", Some(vec![0x77, 0xff])),
            ("ti #(254 + (B - A))", Some(vec![0x77, 0xff])),
            ("ti #(255 + (B - A))", None),
            // ... and with a rule body that never reads the typed parameter (directly, through a sub-rule, in a block)
            ("n8 257 - (B - A)", None),
            ("n8 256 - (B - A)", Some(vec![0x99])),
            ("n8 254 + (B - A)", Some(vec![0x99])),
            ("n8 255 + (B - A)", None),
            ("ni #(257 - (B - A))", None),
            ("ni #(256 - (B - A))", Some(vec![0x88])),
            ("ni #(255 + (B - A))", None),
            ("nb (A - B) - 127", Some(vec![0x44])),
            ("nb (A - B) - 128", None),
            ("nb 129 - (B - A)", None),
            ("nb 128 - (B - A)", Some(vec![0x44])),
        ];
        let mut loc = Local::new();
        for (line, want) in &cases {
            for before in [false, true] {
                let src = if before { format!("{}{}\nA:\njb B\nB:\n", head, line) } else { format!("{}A:\njb B\nB:\n{}\n", head, line) };
                for iters in [10usize, 30] {
                    loc.eval();
                    loc.nontrivial(&(&src, iters));
                    loc.class(if want.is_some() { "late-value-accept" } else { "late-value-reject" });
                    let obs = run::assemble_str(&src, &run::Opts::iters(iters));
                    // the jb in front emits a1 when the data follows it, and stands behind the data otherwise
                    let expect_bits: Option<String> = want.as_ref().map(|w| {
                        let mut bytes: Vec<u8> = vec![];
                        if before {
                            bytes.extend(w.iter());
                            // A = len(w): jb B with B = A + 1
                            bytes.push(0xa0 | ((w.len() as u8 + 1) & 0xf));
                        } else {
                            bytes.push(0xa1);
                            bytes.extend(w.iter());
                        }
                        bytes.iter().map(|b| format!("{:08b}", b)).collect()
                    });
                    let bad = if obs.panicked.is_some() {
                        Some("panic")
                    } else {
                        match &expect_bits {
                            Some(b) if !obs.success() => { let _ = b; Some("a value that is representable in the end was rejected") }
                            Some(b) if obs.bits != *b => Some("wrong bits"),
                            None if obs.ok => Some("a value that is not representable in the end was accepted"),
                            _ => None,
                        }
                    };
                    loc.traces_validated += 1;
                    if let Some(b) = bad {
                        loc.violation(Violation { property: ID, key: format!("late-value:{}", b), what: format!("{} [iters={}]: {}", b, iters, src.replace('\n', " / ")), case: json!({"family": "late-value", "program": src, "iters": iters, "expected": {"accept": expect_bits.is_some(), "bits": expect_bits}, "observed": obs.summary()}) });
                    }
                }
            }
        }
        rep.absorb(loc);
    }
    // values that arrive through a command-line define: the same ranges apply, whatever spelling the value had
    {
        let head = "#ruledef\n{\n    s8 {x: s8} => 0x66 @ x\n    u8 {x: u8} => 0x55 @ x\n}\nval = 0\n";
        // (define value, as #d8: Some(byte) / None, as s8 argument, as u8 argument)
        let cases: Vec<(&str, Option<u8>, Option<u8>, Option<u8>)> = vec![
            ("-0x81", None, None, None),
            ("-0x80", Some(0x80), Some(0x80), None),
            ("-0xff", None, None, None),
            ("-129", None, None, None),
            ("-128", Some(0x80), Some(0x80), None),
            ("-1", Some(0xff), Some(0xff), None),
            ("255", Some(0xff), None, Some(0xff)),
            ("256", None, None, None),
            ("0xff", Some(0xff), None, Some(0xff)),
            ("-0b10000001", None, None, None),
            ("-0b1111111", Some(0x81), Some(0x81), None),
            ("127", Some(0x7f), Some(0x7f), Some(0x7f)),
        ];
        let mut loc = Local::new();
        for (lit, d8, s8, u8v) in &cases {
            for (usage, want, prefix) in [("#d8 val", d8, None), ("s8 val", s8, Some(0x66u8)), ("u8 val", u8v, Some(0x55u8))] {
                let src = format!("{}{}\n", head, usage);
                let def = format!("-dval={}", lit);
                loc.eval();
                loc.nontrivial(&(&src, &def));
                loc.class(if want.is_some() { "define-value-accept" } else { "define-value-reject" });
                let d = run::drive(&[("main.asm".to_string(), src.as_bytes().to_vec())], &["main.asm", "-q", "-f", "hexstr", "-o", "out.txt", &def], &["out.txt".to_string()]);
                let got = d.written.iter().find(|(n, _)| n == "out.txt").map(|(_, b)| String::from_utf8_lossy(b).to_string());
                let expect = want.map(|b| match prefix {
                    Some(p) => format!("{:02x}{:02x}", p, b),
                    None => format!("{:02x}", b),
                });
                let bad = if d.panicked.is_some() {
                    Some("panic")
                } else {
                    match &expect {
                        Some(e) if !d.ok || got.as_deref() != Some(e.as_str()) => Some("a representable define value is rejected or emitted wrongly"),
                        None if d.ok || got.is_some() => Some("an unrepresentable define value is accepted (cut to fit)"),
                        _ => None,
                    }
                };
                loc.traces_validated += 1;
                if let Some(b) = bad {
                    loc.violation(Violation { property: ID, key: format!("define-value:{}", b), what: format!("{}: `{}` with {}: expected {:?}, written {:?}", b, usage, def, expect, got), case: json!({"family": "define-value", "program": src, "define": def, "expected": {"accept": expect.is_some(), "hex": expect}, "observed": {"ok": d.ok, "out.txt": got}}) });
                }
            }
        }
        rep.absorb(loc);
    }
    // a define written with a sized literal carries that size, like the same literal in the source would
    {
        let cases: Vec<(&str, &str, Option<&str>)> = vec![
            ("0x12", "#d val", Some("12")),
            ("0x0012", "#d val", Some("0012")),
            ("0x12", "#d16 val", Some("0012")),
            ("0x0012", "#d8 val", None),
            ("0x12", "#d 0xab @ val", Some("ab12")),
            ("0x0012", "#d 0xab @ val", Some("ab0012")),
            ("0b00010010", "#d val", Some("12")),
            ("18", "#d val", None),
            ("18", "#d 0xab @ val", None),
            ("-0x12", "#d val", None),
            ("0xff", "#d8 val", Some("ff")),
            ("0x00ff", "#d16 val", Some("00ff")),
        ];
        let mut loc = Local::new();
        for (lit, usage, want) in &cases {
            let src = format!("val = 0\n{}\n", usage);
            let def = format!("-dval={}", lit);
            loc.eval();
            loc.nontrivial(&(&src, &def));
            loc.class(if want.is_some() { "define-sized-accept" } else { "define-sized-reject" });
            let d = run::drive(&[("main.asm".to_string(), src.as_bytes().to_vec())], &["main.asm", "-q", "-f", "hexstr", "-o", "out.txt", &def], &["out.txt".to_string()]);
            let got = d.written.iter().find(|(n, _)| n == "out.txt").map(|(_, b)| String::from_utf8_lossy(b).to_string());
            let bad = if d.panicked.is_some() {
                Some("panic")
            } else {
                match want {
                    Some(e) if !d.ok || got.as_deref() != Some(*e) => Some("a define written as a sized literal does not behave like that literal"),
                    None if d.ok || got.is_some() => Some("a define that has no size, or a wider one than the directive, is accepted"),
                    _ => None,
                }
            };
            loc.traces_validated += 1;
            if let Some(b) = bad {
                loc.violation(Violation { property: ID, key: format!("define-sized:{}", b), what: format!("{}: `{}` with {}: expected {:?}, written {:?}", b, usage, def, want, got), case: json!({"family": "define-value", "program": src, "define": def, "expected": {"accept": want.is_some(), "hex": want}, "observed": {"ok": d.ok, "out.txt": got}}) });
            }
        }
        rep.absorb(loc);
    }
    rep.extra("widths_fully_enumerated", json!(format!("0..={} (every v in [-2^N-4, 2^N+4]); {}..=256 at every boundary +-4", full_upto, full_upto + 1)));
    rep.extra("typed_cases", json!(cases.len()));
    rep.extra("data_cases", json!(dcases.len() + scases.len()));
    rep.assumptions = vec!["the emitted field is observed between two fixed markers (0xa5 before, one 1-bit after)".into()];
    for c in ["typed-accept", "typed-reject", "data-accept", "data-reject", "data-sized-accept", "data-sized-reject"] {
        rep.require_class(c);
    }
    rep
}

pub fn replay(ctx: &Ctx, case: &serde_json::Value) -> i32 {
    super::replay_with(ctx, case, |case, l| {
        let prog = case["program"].as_str().unwrap_or("");
        let obs = run::assemble_str(prog, &run::Opts::default());
        println!("program:\n{}\nexpected: {}\nobserved: {}", prog, case["expected"], obs.summary());
        let acc = case["expected"]["accept"].as_bool().or(case["expected_accept"].as_bool()).unwrap_or(false);
        let ok = if acc { obs.success() && case["expected"]["bits"].as_str().map(|b| b == obs.bits).unwrap_or(true) } else { obs.failure() };
        if !ok {
            l.violation(Violation { property: ID, key: "replay".into(), what: "case still violates".into(), case: case.clone() });
        }
    })
}
