//! C12 — listings and symbol tables tell the truth about the output.
//!
//! Alphabet: a fixed 4-rule instruction set and ~20 program items (instructions, global / nested labels,
//! constants, a suppressed constant, byte / word / 3-bit data, `#res`, `#align`, `#addr`, `#bank` switches) on
//! four bank configurations (no bankdef; an 8-bit bank + a 3-bit bank placed at output bit 3; an output bank
//! + a non-output bank; a bank at 2^64+0x20 + a non-output bank). Bound: ALL item sequences of length <= 3 (quick) / <= 4 (thorough), each additionally
//! with every contiguous window of items moved into an included file and in two alternative renderings
//! (indented / joined / commented lines; a non-ASCII comment line before the items).
//! Oracle: an independent layout computed from the item sizes (cross-checked against the assembled bits and the
//! recorded spans), the generator's record of where every item was written, and one row parser per format.
use super::c12_parse as p;
use crate::driver;
use crate::run;
use crate::stats::*;
use serde_json::{json, Value};
use std::collections::BTreeMap;
use std::panic::{catch_unwind, AssertUnwindSafe};

pub const ID: &str = "C12";

const RULES: &str = "#ruledef {\n  nop => 0xea\n  ld {x: u8} => 0x1d @ x\n  jmp {a: u16} => 0x4c @ a\n  b3 => 0b101\n}\n";

// ------------------------------------------------------------------------------------------------
// generator

#[derive(Clone, Debug)]
enum Enc {
    Fixed(&'static str),
    /// 0x4c @ value of a global symbol, 16 bits
    JmpSym(&'static str),
    /// 0x1d @ value of a global symbol, 8 bits
    LdSym(&'static str),
}

#[derive(Clone, Debug)]
enum Tok {
    Instr { text: String, size: u128, enc: Enc },
    /// elems: (column offset inside the line text, element text, size, bits)
    Data { text: String, elems: Vec<(usize, &'static str, u128, &'static str)> },
    Label { text: String, level: usize, name: &'static str },
    Const { text: String, name: &'static str, value: u128, noemit: bool },
    /// a constant whose value is not an integer (boolean / string): it cannot be listed as a number, but it still
    /// opens a scope and its nested children must be listed
    OtherConst { text: String, name: &'static str },
    /// a constant with a negative value: listed by the symbol-table formats with its sign
    NegConst { text: String, name: &'static str, value: i64 },
    Res { text: String, n: u128 },
    Align { text: String, n: u128 },
    Addr { text: String, x: u128 },
    Bank { text: String, idx: usize },
}

impl Tok {
    fn text(&self) -> &str {
        match self {
            Tok::Instr { text, .. } | Tok::Data { text, .. } | Tok::Label { text, .. } | Tok::Const { text, .. } | Tok::OtherConst { text, .. } | Tok::NegConst { text, .. } | Tok::Res { text, .. } | Tok::Align { text, .. } | Tok::Addr { text, .. } | Tok::Bank { text, .. } => text,
        }
    }
}

#[derive(Clone, Debug)]
struct BankDef {
    name: &'static str,
    bits: u128,
    addr: u128,
    outp: Option<u128>,
}

struct Config {
    name: &'static str,
    prologue: String,
    banks: Vec<BankDef>,
    initial: usize,
    toks: Vec<Tok>,
}

fn common_toks() -> Vec<Tok> {
    let s = |x: &str| x.to_string();
    vec![
        Tok::Instr { text: s("nop"), size: 8, enc: Enc::Fixed("11101010") },
        Tok::Instr { text: s("ld 0xb6"), size: 16, enc: Enc::Fixed("0001110110110110") },
        Tok::Instr { text: s("jmp 0x9cf3"), size: 24, enc: Enc::Fixed("010011001001110011110011") },
        Tok::Instr { text: s("b3"), size: 3, enc: Enc::Fixed("101") },
        Tok::Instr { text: s("jmp A"), size: 24, enc: Enc::JmpSym("A") },
        Tok::Instr { text: s("ld k"), size: 16, enc: Enc::LdSym("k") },
        Tok::Label { text: s("A:"), level: 0, name: "A" },
        Tok::Label { text: s("B:"), level: 0, name: "B" },
        Tok::Label { text: s(".l:"), level: 1, name: "l" },
        Tok::Label { text: s("..m:"), level: 2, name: "m" },
        Tok::Const { text: s("k = 5"), name: "k", value: 5, noemit: false },
        Tok::Const { text: s("#const(noemit) h = 7"), name: "h", value: 7, noemit: true },
        Tok::OtherConst { text: s("t = 1 == 1"), name: "t" },
        Tok::OtherConst { text: s("s = \"ab\""), name: "s" },
        Tok::NegConst { text: s("n = -5"), name: "n", value: -5 },
        Tok::Data { text: s("#d8 1, 0xc7"), elems: vec![(4, "1", 8, "00000001"), (7, "0xc7", 8, "11000111")] },
        // (the second element is a call: its row quotes the call with its closing parenthesis)
        Tok::Data { text: s("#d16 0x8d2f, le(0x2f8d)"), elems: vec![(5, "0x8d2f", 16, "1000110100101111"), (13, "le(0x2f8d)", 16, "1000110100101111")] },
        Tok::Data { text: s("#d3 0b101"), elems: vec![(4, "0b101", 3, "101")] },
        // an element that is a whole conditional expression: its row quotes all of it
        // ... and one that ends in a short slice: its row quotes the sliced expression too, not the `size part alone
        Tok::Data { text: s("#d8 1 == 1 ? 0x55 : 0x44, 0x5`8"), elems: vec![(4, "1 == 1 ? 0x55 : 0x44", 8, "01010101"), (26, "0x5`8", 8, "00000101")] },
        Tok::Res { text: s("#res 1"), n: 1 },
        Tok::Align { text: s("#align 16"), n: 16 },
    ]
}

fn configs() -> Vec<Config> {
    let mut v = vec![];
    {
        let mut toks = common_toks();
        toks.push(Tok::Addr { text: "#addr 0x10".into(), x: 0x10 });
        v.push(Config { name: "flat", prologue: RULES.to_string(), banks: vec![BankDef { name: "", bits: 8, addr: 0, outp: Some(0) }], initial: 0, toks });
    }
    {
        let mut toks = common_toks();
        toks.push(Tok::Addr { text: "#addr 0x24".into(), x: 0x24 });
        toks.push(Tok::Bank { text: "#bank a".into(), idx: 0 });
        toks.push(Tok::Bank { text: "#bank t".into(), idx: 1 });
        let prologue = format!(
            "{}#bankdef a {{ #bits 8, #addr 0x20, #size 0x40, #outp 8 * 0x20 }}\n#bankdef t\n{{\n    bits = 3\n    addr = 0x100\n    size = 0x40\n    outp = 3\n}}\n#bank a\n",
            RULES
        );
        v.push(Config {
            name: "bitbanks",
            prologue,
            banks: vec![BankDef { name: "a", bits: 8, addr: 0x20, outp: Some(8 * 0x20) }, BankDef { name: "t", bits: 3, addr: 0x100, outp: Some(3) }],
            initial: 0,
            toks,
        });
    }
    {
        let mut toks = common_toks();
        toks.push(Tok::Addr { text: "#addr 0x8004".into(), x: 0x8004 });
        toks.push(Tok::Bank { text: "#bank p".into(), idx: 0 });
        toks.push(Tok::Bank { text: "#bank r".into(), idx: 1 });
        let prologue = format!("{}#bankdef p {{ #addr 0x8000, #size 0x40, #outp 8 * 0x10 }}\n#bankdef r {{ #addr 0x200, #size 0x40 }}\n#bank p\n", RULES);
        v.push(Config {
            name: "romram",
            prologue,
            banks: vec![BankDef { name: "p", bits: 8, addr: 0x8000, outp: Some(8 * 0x10) }, BankDef { name: "r", bits: 8, addr: 0x200, outp: None }],
            initial: 0,
            toks,
        });
    }
    {
        // a bank whose logical addresses lie beyond the machine word (addresses are unbounded integers): every
        // address column, label value and `#addr` target carries 17 hexadecimal digits
        const H: u128 = 0x1_0000_0000_0000_0000;
        let mut toks = common_toks();
        toks.push(Tok::Addr { text: "#addr 0x1_0000_0000_0000_0024".into(), x: H + 0x24 });
        toks.push(Tok::Bank { text: "#bank h".into(), idx: 0 });
        toks.push(Tok::Bank { text: "#bank r".into(), idx: 1 });
        let prologue = format!("{}#bankdef h {{ #addr 0x1_0000_0000_0000_0020, #size 0x40, #outp 8 * 0x10 }}\n#bankdef r {{ #addr 0x200, #size 0x40 }}\n#bank h\n", RULES);
        v.push(Config {
            name: "wide",
            prologue,
            banks: vec![BankDef { name: "h", bits: 8, addr: H + 0x20, outp: Some(8 * 0x10) }, BankDef { name: "r", bits: 8, addr: 0x200, outp: None }],
            initial: 0,
            toks,
        });
    }
    v
}

const FILES: [&str; 2] = ["main.asm", "inc.asm"];

/// Where the generator wrote an item: file, 0-based line, 0-based column (characters), byte offset.
#[derive(Clone, Debug)]
struct Loc {
    file: usize,
    line0: usize,
    col0: usize,
    byte0: usize,
}

/// style 0: one item per line; 1: indented, label joined with a following instruction/data, trailing comments,
/// blank lines; 2: style 0 with a non-ASCII comment line before the first item of each file; 3: style 0 with a
/// non-ASCII block comment before the item on every item line; 4: style 0 with CR LF line endings (a line is ended by
/// its LF; the CR before it is an ordinary blank).
fn render(cfg: &Config, toks: &[&Tok], window: Option<(usize, usize)>, style: u8) -> (Vec<(String, Vec<u8>)>, Vec<Loc>) {
    let mut bufs = [cfg.prologue.clone(), String::new()];
    let mut lines = [cfg.prologue.matches('\n').count(), 0usize];
    if style == 2 {
        for f in 0..2 {
            bufs[f].push_str("; \u{e9} \u{e9}\u{e9} \u{fc}\n");
            lines[f] += 1;
        }
    }
    let file_of = |i: usize| -> usize {
        match window {
            Some((a, b)) if i >= a && i < b => 1,
            _ => 0,
        }
    };
    let mut locs: Vec<Loc> = Vec::with_capacity(toks.len());
    let mut i = 0;
    while i < toks.len() {
        if let Some((a, _)) = window {
            if i == a {
                bufs[0].push_str("#include \"inc.asm\"\n");
                lines[0] += 1;
            }
        }
        let f = file_of(i);
        if style == 1 {
            let indent = 1 + i % 3;
            for _ in 0..indent {
                bufs[f].push(' ');
            }
            locs.push(Loc { file: f, line0: lines[f], col0: indent, byte0: bufs[f].len() });
            bufs[f].push_str(toks[i].text());
            let join = matches!(toks[i], Tok::Label { .. }) && i + 1 < toks.len() && matches!(toks[i + 1], Tok::Instr { .. } | Tok::Data { .. }) && file_of(i + 1) == f;
            if join {
                bufs[f].push(' ');
                let col = indent + toks[i].text().len() + 1;
                locs.push(Loc { file: f, line0: lines[f], col0: col, byte0: bufs[f].len() });
                bufs[f].push_str(toks[i + 1].text());
                i += 1;
            }
            bufs[f].push_str(" ; c\n\n");
            lines[f] += 2;
        } else {
            let mut col0 = 0;
            if style == 3 {
                // a block comment with 2- and 3-byte characters on the item's own line, before the item:
                // columns count characters, not bytes
                let pre = ";* \u{e9}\u{2192} *; ";
                bufs[f].push_str(pre);
                col0 = pre.chars().count();
            }
            locs.push(Loc { file: f, line0: lines[f], col0, byte0: bufs[f].len() });
            bufs[f].push_str(toks[i].text());
            bufs[f].push('\n');
            lines[f] += 1;
        }
        i += 1;
    }
    if style == 4 {
        for b in bufs.iter_mut() {
            *b = b.replace('\n', "\r\n");
        }
        for l in locs.iter_mut() {
            l.byte0 += l.line0;
        }
    }
    let mut files = vec![(FILES[0].to_string(), bufs[0].clone().into_bytes())];
    if window.is_some() {
        files.push((FILES[1].to_string(), bufs[1].clone().into_bytes()));
    }
    (files, locs)
}

// ------------------------------------------------------------------------------------------------
// independent layout

#[derive(Clone, Debug)]
struct ExpRow {
    offset: Option<u128>,
    addr: u128,
    size: u128,
    bits: String,
    text: String,
    loc: Loc,
    bank: usize,
}

#[derive(Clone, Debug)]
struct ExpSym {
    name: String,
    value: u128,
    /// labels: (bank, bit position inside the bank)
    label: Option<(usize, u128)>,
    noemit: bool,
}

struct Expect {
    rows: Vec<ExpRow>,
    syms: Vec<ExpSym>,
    /// constants with a negative value (name, value)
    negs: Vec<(String, i64)>,
}

fn emit(rows: &mut Vec<ExpRow>, pos: &mut [u128], cur: usize, b: &BankDef, loc: &Loc, coloff: usize, text: &str, size: u128, bits: String) -> Result<(), String> {
    let Some(outp) = b.outp else { return Err("data in a non-output bank".into()) };
    let l = Loc { file: loc.file, line0: loc.line0, col0: loc.col0 + coloff, byte0: loc.byte0 + coloff };
    rows.push(ExpRow { offset: Some(outp + pos[cur]), addr: b.addr + pos[cur] / b.bits, size, bits, text: text.to_string(), loc: l, bank: cur });
    pos[cur] += size;
    Ok(())
}

fn model(cfg: &Config, toks: &[&Tok], locs: &[Loc]) -> Result<Expect, String> {
    let mut pos: Vec<u128> = vec![0; cfg.banks.len()];
    let mut cur = cfg.initial;
    let mut parent0: Option<String> = None;
    let mut parent1: Option<String> = None;
    let mut rows: Vec<ExpRow> = vec![];
    let mut pending: Vec<(usize, Enc)> = vec![];
    let mut syms: Vec<ExpSym> = vec![];
    let mut other_names: std::collections::BTreeSet<String> = std::collections::BTreeSet::new();
    let mut negs: Vec<(String, i64)> = vec![];
    let declare = |syms: &mut Vec<ExpSym>, s: ExpSym| -> Result<(), String> {
        if syms.iter().any(|x| x.name == s.name) {
            return Err(format!("duplicate symbol {}", s.name));
        }
        syms.push(s);
        Ok(())
    };
    for (i, t) in toks.iter().enumerate() {
        let b = &cfg.banks[cur];
        let loc = &locs[i];
        match t {
            Tok::Instr { text, size, enc } => {
                let bits = match enc {
                    Enc::Fixed(s) => s.to_string(),
                    _ => {
                        pending.push((rows.len(), enc.clone()));
                        String::new()
                    }
                };
                emit(&mut rows, &mut pos, cur, b, loc, 0, text, *size, bits)?;
            }
            Tok::Data { elems, .. } => {
                for (off, etext, size, bits) in elems {
                    emit(&mut rows, &mut pos, cur, b, loc, *off, etext, *size, bits.to_string())?;
                }
            }
            Tok::Label { text, level, name } => {
                if pos[cur] % b.bits != 0 {
                    return Err("label at a position that is not a whole address".into());
                }
                let value = b.addr + pos[cur] / b.bits;
                let full = match level {
                    0 => {
                        parent0 = Some(name.to_string());
                        parent1 = None;
                        name.to_string()
                    }
                    1 => {
                        let Some(p0) = &parent0 else { return Err("nested label without a parent".into()) };
                        let f = format!("{}.{}", p0, name);
                        parent1 = Some(f.clone());
                        f
                    }
                    _ => {
                        let Some(p1) = &parent1 else { return Err("doubly nested label without a parent".into()) };
                        format!("{}.{}", p1, name)
                    }
                };
                declare(&mut syms, ExpSym { name: full, value, label: Some((cur, pos[cur])), noemit: false })?;
                rows.push(ExpRow { offset: b.outp.map(|o| o + pos[cur]), addr: value, size: 0, bits: String::new(), text: text.clone(), loc: loc.clone(), bank: cur });
            }
            Tok::NegConst { name, value, .. } => {
                if !other_names.insert(name.to_string()) || syms.iter().any(|x| x.name == *name) {
                    return Err("duplicate symbol".into());
                }
                negs.push((name.to_string(), *value));
                parent0 = Some(name.to_string());
                parent1 = None;
            }
            Tok::OtherConst { name, .. } => {
                if !other_names.insert(name.to_string()) || syms.iter().any(|x| x.name == *name) {
                    return Err("duplicate symbol".into());
                }
                parent0 = Some(name.to_string());
                parent1 = None;
            }
            Tok::Const { name, value, noemit, .. } => {
                // a top-level constant opens a scope for following nested labels (tests/driver/ok_format_symbol_noemit)
                parent0 = Some(name.to_string());
                parent1 = None;
                declare(&mut syms, ExpSym { name: name.to_string(), value: *value, label: None, noemit: *noemit })?;
            }
            Tok::Res { n, .. } => pos[cur] += n * b.bits,
            Tok::Align { n, .. } => {
                let a = b.addr * b.bits + pos[cur];
                let a2 = (a + n - 1) / n * n;
                pos[cur] += a2 - a;
            }
            Tok::Addr { x, .. } => {
                if *x < b.addr {
                    return Err("#addr below the bank".into());
                }
                pos[cur] = (*x - b.addr) * b.bits;
            }
            Tok::Bank { idx, .. } => cur = *idx,
        }
    }
    for (ri, enc) in pending {
        let (sym, prefix, width) = match enc {
            Enc::JmpSym(s) => (s, "01001100", 16usize),
            Enc::LdSym(s) => (s, "00011101", 8usize),
            Enc::Fixed(_) => unreachable!(),
        };
        let Some(sv) = syms.iter().find(|x| x.name == sym) else { return Err(format!("undefined symbol {}", sym)) };
        if sv.value >> width != 0 {
            return Err("symbol value out of the operand's range".into());
        }
        let mut s = prefix.to_string();
        for k in (0..width).rev() {
            s.push(if (sv.value >> k) & 1 == 1 { '1' } else { '0' });
        }
        rows[ri].bits = s;
    }
    Ok(Expect { rows, syms, negs })
}

// ------------------------------------------------------------------------------------------------
// formats

#[derive(Clone, Copy, Debug, PartialEq, Eq)]
enum Kind {
    Annotated { base: usize, group: usize },
    TcGame { base: usize, group: usize },
    AddrSpan,
    Symbols,
    Mlb,
}

impl Kind {
    fn family(&self) -> &'static str {
        match self {
            Kind::Annotated { .. } => "annotated",
            Kind::TcGame { .. } => "tcgame",
            Kind::AddrSpan => "addrspan",
            Kind::Symbols => "symbols",
            Kind::Mlb => "mesen-mlb",
        }
    }
}

struct Fmt {
    name: String,
    kind: Kind,
    of: driver::OutputFormat,
}

const BASES: [usize; 7] = [2, 4, 8, 16, 32, 64, 128];
const GROUPS: [usize; 5] = [1, 2, 3, 4, 8];

fn mkfmt(name: &str, kind: Kind) -> Fmt {
    let mut rep = customasm::diagn::Report::new();
    let of = driver::parse_output_format(&mut rep, name).unwrap_or_else(|_| panic!("format string {} rejected", name));
    Fmt { name: name.to_string(), kind, of }
}

/// (all formats, indices of the reduced set used for the include / style variants)
fn formats() -> (Vec<Fmt>, Vec<usize>) {
    let mut v = vec![];
    // documented defaults (usage text): annotated = base 16 group 2, annotatedbin = base 2 group 8, same for tcgame
    v.push(mkfmt("annotated", Kind::Annotated { base: 16, group: 2 }));
    v.push(mkfmt("tcgame", Kind::TcGame { base: 16, group: 2 }));
    v.push(mkfmt("addrspan", Kind::AddrSpan));
    v.push(mkfmt("symbols", Kind::Symbols));
    v.push(mkfmt("mesen-mlb", Kind::Mlb));
    v.push(mkfmt("annotated,base:8,group:3", Kind::Annotated { base: 8, group: 3 }));
    let reduced: Vec<usize> = (0..v.len()).collect();
    v.push(mkfmt("annotatedbin", Kind::Annotated { base: 2, group: 8 }));
    v.push(mkfmt("tcgamebin", Kind::TcGame { base: 2, group: 8 }));
    v.push(mkfmt("annotated,group:4", Kind::Annotated { base: 16, group: 4 }));
    for b in BASES {
        for g in GROUPS {
            if (b, g) == (8, 3) {
                continue;
            }
            v.push(mkfmt(&format!("annotated,base:{},group:{}", b, g), Kind::Annotated { base: b, group: g }));
        }
    }
    for b in [2usize, 16] {
        for g in GROUPS {
            v.push(mkfmt(&format!("tcgame,base:{},group:{}", b, g), Kind::TcGame { base: b, group: g }));
        }
    }
    (v, reduced)
}

fn log2(base: usize) -> usize {
    base.trailing_zeros() as usize
}

// ------------------------------------------------------------------------------------------------
// calibration of what neither the golden files nor the usage text fix: radix of the numeric columns, the
// line/column convention of addrspan, the digit characters of bases above 16

#[derive(Clone, Debug)]
struct Calib {
    radix_annotated: u32,
    radix_tcgame: u32,
    radix_addrspan: u32,
    line_base: i64,
    col_base: i64,
    end_delta: i64,
    alpha: BTreeMap<usize, p::Alphabet>,
    problems: Vec<(String, String)>,
}

fn format_text(raw: &run::Raw, f: &Fmt) -> Result<String, String> {
    let Some(res) = &raw.result else { return Err("no result".into()) };
    let (Some(out), Some(decls), Some(defs)) = (&res.output, &res.decls, &res.defs) else { return Err("no output".into()) };
    let r = catch_unwind(AssertUnwindSafe(|| driver::format_output(&raw.fs, decls, defs, out, f.of)));
    match r {
        Ok(bytes) => String::from_utf8(bytes).map_err(|_| "listing is not UTF-8".to_string()),
        Err(e) => Err(format!("panic: {}", run::panic_text(e))),
    }
}

fn calibrate(fmts: &[Fmt]) -> Calib {
    let mut c = Calib { radix_annotated: 16, radix_tcgame: 16, radix_addrspan: 16, line_base: 0, col_base: 0, end_delta: 0, alpha: BTreeMap::new(), problems: vec![] };
    for b in [2usize, 4, 8, 16] {
        c.alpha.insert(b, p::Alphabet::conventional(b));
    }
    let prog = format!("{}#addr 0x1a\nnop\n", RULES);
    let line0 = RULES.matches('\n').count() as i64 + 1;
    let raw = run::assemble_raw(&[("main.asm".to_string(), prog.clone().into_bytes())], &["main.asm"], &run::Opts::default());
    let by_name = |n: &str| fmts.iter().find(|f| f.name == n).unwrap();
    // annotated / tcgame radix
    for (fam, slot) in [("annotated", 0), ("tcgame", 1)] {
        let mut found = None;
        if let Ok(text) = format_text(&raw, by_name(fam)) {
            for radix in [16u32, 10] {
                let (rows, _) = if slot == 0 { p::parse_annotated(&text, radix) } else { p::parse_tcgame(&text, radix, 16) };
                if rows.iter().any(|r| r.text == "nop" && r.addr == 0x1a && r.outp == Some((0x1a, 0))) {
                    found = Some(radix);
                    break;
                }
            }
        }
        match found {
            Some(r) => {
                if slot == 0 {
                    c.radix_annotated = r
                } else {
                    c.radix_tcgame = r
                }
            }
            None => c.problems.push((fam.to_string(), format!("the {} listing of `#addr 0x1a / nop` has no row for position 0x1a:0, address 0x1a in radix 16 or 10", fam))),
        }
    }
    // addrspan radix + line/column convention
    {
        let mut found = false;
        if let Ok(text) = format_text(&raw, by_name("addrspan")) {
            for radix in [16u32, 10] {
                let (rows, _) = p::parse_addrspan(&text, radix);
                if let Some(r) = rows.iter().find(|r| r.addr == 0x1a && r.outp == Some((0x1a, 0)) && r.file == "main.asm") {
                    if r.line_start == r.line_end {
                        c.radix_addrspan = radix;
                        c.line_base = r.line_start as i64 - line0;
                        c.col_base = r.col_start as i64;
                        c.end_delta = r.col_end as i64 - r.col_start as i64 - 3;
                        found = true;
                        break;
                    }
                }
            }
        }
        if !found {
            c.problems.push(("addrspan".into(), "the addrspan listing of `#addr 0x1a / nop` has no single-line row for position 0x1a:0, address 0x1a, main.asm".into()));
        }
    }
    // digit characters of bases 32, 64, 128: one item per digit value, one digit per row
    for base in [32usize, 64, 128] {
        let bpd = log2(base);
        let mut prog = RULES.to_string();
        for v in 0..base {
            prog.push_str(&format!("#d{} {}\n", bpd, v));
        }
        let raw = run::assemble_raw(&[("main.asm".to_string(), prog.into_bytes())], &["main.asm"], &run::Opts::default());
        let name = format!("annotated,base:{},group:1", base);
        let mut alpha = None;
        if let Ok(text) = format_text(&raw, by_name(&name)) {
            let (rows, _) = p::parse_annotated(&text, c.radix_annotated);
            if rows.len() == base && rows.iter().enumerate().all(|(v, r)| r.digits.len() == 1 && r.text == v.to_string()) {
                let a = p::Alphabet { chars: rows.iter().map(|r| r.digits[0]).collect(), case_insensitive: false };
                if a.well_formed() {
                    alpha = Some(a);
                }
            }
        }
        match alpha {
            Some(a) => {
                c.alpha.insert(base, a);
            }
            None => {
                c.problems.push(("digit-alphabet".into(), format!("base {}: listing one {}-bit item per digit value does not give {} distinct, separator-free digit characters", base, bpd, base)));
                c.alpha.insert(base, p::Alphabet::natural(base));
            }
        }
    }
    c
}

// ------------------------------------------------------------------------------------------------
// judging

struct Env {
    cfgs: Vec<Config>,
    fmts: Vec<Fmt>,
    reduced: Vec<usize>,
    calib: Calib,
}

#[derive(Clone, Debug)]
struct Variant {
    cfg: usize,
    seq: Vec<usize>,
    window: Option<(usize, usize)>,
    style: u8,
}

type Mismatch = (&'static str, String);

/// Generic row matching: same number of rows, observed output positions non-decreasing, rows grouped by
/// position must be the expected items of that position (any order inside a tie), each matched once.
fn match_rows<E, O>(
    exp: &[E],
    obs: &[O],
    e_off: &dyn Fn(&E) -> Option<u128>,
    o_off: &dyn Fn(&O) -> Result<Option<u128>, String>,
    ident: &dyn Fn(&E, &O) -> bool,
    e_show: &dyn Fn(&E) -> String,
    o_show: &dyn Fn(&O) -> String,
    rest: &dyn Fn(&E, &O) -> Result<(), Mismatch>,
) -> Result<(), Mismatch> {
    let mut es: Vec<(u128, &E)> = vec![];
    let mut en: Vec<&E> = vec![];
    for e in exp {
        match e_off(e) {
            Some(o) => es.push((o, e)),
            None => en.push(e),
        }
    }
    es.sort_by_key(|x| x.0); // stable
    let mut os: Vec<(u128, &O)> = vec![];
    let mut on: Vec<&O> = vec![];
    for o in obs {
        match o_off(o).map_err(|m| ("outp", format!("{} in row {}", m, o_show(o))))? {
            Some(x) => os.push((x, o)),
            None => on.push(o),
        }
    }
    if es.len() != os.len() || en.len() != on.len() {
        // name one missing / extra item
        let mut detail = String::new();
        for (_, e) in &es {
            if !os.iter().any(|(_, o)| ident(e, o)) {
                detail = format!("; no row for {}", e_show(e));
                break;
            }
        }
        if detail.is_empty() {
            for (_, o) in &os {
                if !es.iter().any(|(_, e)| ident(e, o)) {
                    detail = format!("; row {} is no emitted item", o_show(o));
                    break;
                }
            }
        }
        return Err(("rows", format!("{} rows with a position + {} without, expected {} + {}{}", os.len(), on.len(), es.len(), en.len(), detail)));
    }
    for w in os.windows(2) {
        if w[1].0 < w[0].0 {
            return Err(("order", format!("row {} comes after row {}", o_show(w[1].1), o_show(w[0].1))));
        }
    }
    let mut i = 0;
    while i < es.len() {
        let mut j = i;
        while j < es.len() && es[j].0 == es[i].0 {
            j += 1;
        }
        let mut used = vec![false; j - i];
        for k in i..j {
            // rows i..j of the listing must sit at this position
            if os[k].0 != es[i].0 {
                return Err(("outp", format!("row {} names position {}, expected position {} ({})", o_show(os[k].1), os[k].0, es[i].0, e_show(es[k].1))));
            }
        }
        for k in i..j {
            let e = es[k].1;
            let m = (i..j).find(|&q| !used[q - i] && ident(e, os[q].1));
            match m {
                Some(q) => {
                    used[q - i] = true;
                    rest(e, os[q].1)?;
                }
                None => return Err(("source", format!("no row at position {} names {}; rows there: {}", es[i].0, e_show(e), (i..j).map(|q| o_show(os[q].1)).collect::<Vec<_>>().join(" / ")))),
            }
        }
        i = j;
    }
    let mut used = vec![false; on.len()];
    for e in &en {
        match (0..on.len()).find(|&q| !used[q] && ident(e, on[q])) {
            Some(q) => {
                used[q] = true;
                rest(e, on[q])?;
            }
            None => return Err(("source", format!("no position-less row names {}", e_show(e)))),
        }
    }
    Ok(())
}

fn offset_of(outp: Option<(u128, u128)>, bits_per_group: u128) -> Result<Option<u128>, String> {
    match outp {
        None => Ok(None),
        Some((g, b)) => {
            if b >= bits_per_group {
                Err(format!("bit index {} is not below the group size {}", b, bits_per_group))
            } else {
                Ok(Some(g * bits_per_group + b))
            }
        }
    }
}

fn check_rows(rows: &[p::Row], exp: &Expect, bits: &str, base: usize, group: usize, alpha: &p::Alphabet) -> Result<(), Mismatch> {
    let bpd = log2(base);
    let bpg = (bpd * group) as u128;
    match_rows(
        &exp.rows,
        rows,
        &|e: &ExpRow| e.offset,
        &|o: &p::Row| offset_of(o.outp, bpg),
        &|e, o| e.text == o.text,
        &|e| format!("`{}` ({}:{}:{})", e.text, FILES[e.loc.file], e.loc.line0 + 1, e.loc.col0 + 1),
        &|o| format!("`{}` (listing line {})", o.text, o.at_line + 1),
        &|e, o| {
            if e.addr != o.addr {
                return Err(("addr", format!("row `{}` names address {:#x}, assigned address is {:#x}", o.text, o.addr, e.addr)));
            }
            if e.size == 0 {
                if !o.digits.is_empty() {
                    return Err(("data", format!("row `{}` of a zero-size item shows data `{}`", o.text, o.digits.iter().collect::<String>())));
                }
                return Ok(());
            }
            let Some(off) = e.offset else { return Ok(()) };
            let want = (e.size as usize + bpd - 1) / bpd;
            if o.digits.len() != want {
                return Err(("data", format!("row `{}` shows {} digits for a {}-bit item in base {} (expected {})", o.text, o.digits.len(), e.size, base, want)));
            }
            let Some(shown) = p::digits_to_bits(&o.digits, bpd, alpha) else {
                return Err(("data", format!("row `{}` shows `{}`, which has a character that is no base-{} digit", o.text, o.digits.iter().collect::<String>(), base)));
            };
            let actual = &bits[off as usize..(off + e.size) as usize];
            if &shown[..e.size as usize] != actual {
                return Err(("data", format!("row `{}` shows bits {} but the output has {} at bit {}", o.text, &shown[..e.size as usize], actual, off)));
            }
            Ok(())
        },
    )
}

fn check_addrspan(rows: &[p::AddrRow], exp: &Expect, c: &Calib) -> Result<(), Mismatch> {
    let want = |e: &ExpRow| -> (i64, i64, i64, i64) {
        let ls = c.line_base + e.loc.line0 as i64;
        let cs = c.col_base + e.loc.col0 as i64;
        (ls, cs, ls, cs + e.text.chars().count() as i64 + c.end_delta)
    };
    match_rows(
        &exp.rows,
        rows,
        &|e: &ExpRow| e.offset,
        &|o: &p::AddrRow| offset_of(o.outp, 8),
        &|e, o| {
            let w = want(e);
            FILES[e.loc.file] == o.file && (o.line_start as i64, o.col_start as i64, o.line_end as i64, o.col_end as i64) == w
        },
        &|e| {
            let w = want(e);
            format!("`{}` at {}:{}:{}:{}:{}", e.text, FILES[e.loc.file], w.0, w.1, w.2, w.3)
        },
        &|o| format!("{}:{}:{}:{}:{}", o.file, o.line_start, o.col_start, o.line_end, o.col_end),
        &|e, o| {
            if e.addr != o.addr {
                return Err(("addr", format!("row for `{}` names address {:#x}, assigned address is {:#x}", e.text, o.addr, e.addr)));
            }
            Ok(())
        },
    )
}

fn check_symbols(list: &[(String, u128)], exp: &Expect) -> Result<(), Mismatch> {
    let mut used = vec![false; list.len()];
    for s in exp.syms.iter().filter(|s| !s.noemit) {
        match (0..list.len()).find(|&q| !used[q] && list[q].0 == s.name) {
            Some(q) => {
                used[q] = true;
                if list[q].1 != s.value {
                    return Err(("value", format!("{} is listed as {:#x}, its final value is {:#x}", s.name, list[q].1, s.value)));
                }
            }
            None => return Err(("missing", format!("declared symbol {} = {:#x} is not listed", s.name, s.value))),
        }
    }
    if let Some(q) = used.iter().position(|u| !u) {
        let n = &list[q].0;
        let field = if exp.syms.iter().any(|s| s.noemit && (s.name == *n)) { "suppressed-listed" } else { "extra" };
        return Err((field, format!("{} = {:#x} is listed but is not a declared, non-suppressed symbol", n, list[q].1)));
    }
    Ok(())
}

/// true when some label sits in the first 0x10 bytes of the output file (no PRG offset exists for it)
fn has_small_label(cfg: &Config, exp: &Expect) -> bool {
    exp.syms.iter().any(|s| match s.label {
        Some((b, pos)) => cfg.banks[b].outp.map_or(false, |o| (o + pos) / 8 < 0x10),
        None => false,
    })
}

fn check_mlb(lines: &[(String, u128, String)], cfg: &Config, exp: &Expect) -> Result<(), Mismatch> {
    let norm = |n: &str| n.replace('.', "_");
    let mut used = vec![false; lines.len()];
    for s in &exp.syms {
        let name = norm(&s.name);
        let hits: Vec<usize> = (0..lines.len()).filter(|&q| lines[q].2 == name).collect();
        for q in &hits {
            used[*q] = true;
        }
        let Some((b, pos)) = s.label else {
            // constants have no location: the format is free to leave them out; a suppressed one must not appear
            if s.noemit && !hits.is_empty() {
                return Err(("suppressed-listed", format!("suppressed constant {} is listed", s.name)));
            }
            continue;
        };
        let bank = &cfg.banks[b];
        // what the layout says
        let want: Option<(&str, u128)> = match bank.outp {
            None => Some(("R", s.value)),
            Some(o) => {
                let off = o + pos;
                if off / 8 < 0x10 {
                    continue; // before the 16-byte header ends: no PRG offset exists (Unspecified)
                }
                if bank.bits != 8 || off % 8 != 0 {
                    None // not a byte position: value Unspecified, the label itself must be there
                } else {
                    Some(("P", off / 8 - 0x10))
                }
            }
        };
        if hits.len() != 1 {
            return Err(("missing", format!("label {} is listed {} times", s.name, hits.len())));
        }
        if let Some((ty, v)) = want {
            let l = &lines[hits[0]];
            if l.0 != ty || l.1 != v {
                return Err(("offset", format!("label {} is listed as {}:{:x}, the layout puts it at {}:{:x}", s.name, l.0, l.1, ty, v)));
            }
        }
    }
    if let Some(q) = used.iter().position(|u| !u) {
        return Err(("extra", format!("line {}:{:x}:{} names no declared label", lines[q].0, lines[q].1, lines[q].2)));
    }
    Ok(())
}

fn exp_json(exp: &Expect) -> Value {
    json!({
        "rows": exp.rows.iter().map(|r| json!({"offset_bits": r.offset, "addr": format!("{:#x}", r.addr), "size": r.size, "bits": r.bits, "text": r.text,
            "file": FILES[r.loc.file], "line": r.loc.line0 + 1, "column": r.loc.col0 + 1})).collect::<Vec<_>>(),
        "symbols": exp.syms.iter().map(|s| json!({"name": s.name, "value": format!("{:#x}", s.value), "suppressed": s.noemit, "label": s.label.is_some()})).collect::<Vec<_>>(),
    })
}

fn judge_variant(env: &Env, v: &Variant, fmt_idx: &[usize], l: &mut Local) {
    let cfg = &env.cfgs[v.cfg];
    let toks: Vec<&Tok> = v.seq.iter().map(|i| &cfg.toks[*i]).collect();
    let (files, locs) = render(cfg, &toks, v.window, v.style);
    let expect = model(cfg, &toks, &locs);
    let raw = run::assemble_raw(&files, &["main.asm"], &run::Opts::default());
    l.eval();
    let obs = run::observe(&raw);
    if !obs.success() {
        l.class(if obs.panicked.is_some() { "assembly-panicked (no verdict here)" } else { "rejected" });
        if expect.is_ok() && obs.panicked.is_none() {
            l.class("rejected-without-objection-of-the-layout-model");
        }
        return;
    }
    let exp = match expect {
        Ok(e) => e,
        Err(_) => {
            // the layout model does not cover this program although it assembled: no verdict
            l.unspecified += 1;
            l.class("assembled-outside-the-layout-model");
            return;
        }
    };
    l.class("assembled");
    let files_json = || json!(files.iter().map(|(n, b)| (n.clone(), String::from_utf8_lossy(b).to_string())).collect::<BTreeMap<_, _>>());
    let coords = || json!({"config": cfg.name, "cfg": v.cfg, "seq": v.seq, "items": toks.iter().map(|t| t.text()).collect::<Vec<_>>(), "window": v.window.map(|(a, b)| vec![a, b]), "style": v.style});
    let oneline = toks.iter().map(|t| t.text()).collect::<Vec<_>>().join(" | ");

    // 1. the layout model against the assembled bits and the recorded spans
    let mut layout_bad: Option<String> = None;
    for r in &exp.rows {
        if let (Some(off), true) = (r.offset, r.size > 0) {
            let (a, b) = (off as usize, (off + r.size) as usize);
            if b > obs.bits.len() || obs.bits[a..b] != r.bits {
                layout_bad = Some(format!("`{}` expected as {} at bit {}, output has {}", r.text, r.bits, off, obs.bits.get(a..b.min(obs.bits.len())).unwrap_or("")));
                break;
            }
        }
    }
    if let Some(m) = layout_bad {
        l.violation(Violation {
            property: ID,
            key: "C12:layout".into(),
            what: format!("[{}] {}: {}", cfg.name, oneline, m),
            case: json!({"coords": coords(), "files": files_json(), "format": Value::Null, "expected": exp_json(&exp), "observed": {"bits": obs.bits}}),
        });
        return;
    }
    {
        // the spans recorded at emission time (what the listings are generated from) against the layout;
        // a difference is reported and the listings are still judged against the layout
        let mut want: Vec<(Option<usize>, usize, String, String, usize, usize)> =
            exp.rows.iter().map(|r| (r.offset.map(|o| o as usize), r.size as usize, format!("{:x}", r.addr), FILES[r.loc.file].to_string(), r.loc.byte0, r.loc.byte0 + r.text.len())).collect();
        let mut got: Vec<(Option<usize>, usize, String, String, usize, usize)> = obs.spans.iter().map(|s| (s.offset, s.size, s.addr.clone(), s.file.clone(), s.start, s.end)).collect();
        want.sort();
        got.sort();
        if want != got {
            let d = want.iter().find(|w| !got.contains(w)).map(|w| format!("expected span {:?} missing", w)).or_else(|| got.iter().find(|g| !want.contains(g)).map(|g| format!("unexpected span {:?}", g)));
            l.violation(Violation {
                property: ID,
                key: "C12:spans".into(),
                what: format!("[{}] {}: recorded spans (offset, size, addr, file, byte range) differ from the layout: {}", cfg.name, oneline, d.unwrap_or_default()),
                case: json!({"coords": coords(), "files": files_json(), "format": Value::Null, "expected": exp_json(&exp), "observed": {"spans": obs.spans.iter().map(|s| format!("{:?}", s)).collect::<Vec<_>>()}}),
            });
        }
    }

    // classes (input side)
    let emitted = exp.rows.iter().filter(|r| r.size > 0).count();
    if !exp.rows.is_empty() || !exp.syms.is_empty() {
        l.nontrivial(&(v.cfg, &v.seq, v.window, v.style));
    }
    if emitted > 0 {
        l.class("has-emitted-item");
    }
    let mut banks_used: Vec<usize> = exp.rows.iter().map(|r| r.bank).collect();
    banks_used.sort();
    banks_used.dedup();
    if banks_used.len() > 1 {
        l.class("rows-in-two-banks");
    }
    if exp.rows.iter().any(|r| r.offset.map_or(false, |o| o % 8 != 0)) {
        l.class("row-at-non-byte-position");
    }
    if exp.rows.iter().any(|r| r.offset.is_none()) {
        l.class("row-without-output-position");
    }
    if exp.rows.iter().any(|r| r.loc.file == 1) {
        l.class("row-from-included-file");
    }
    if exp.syms.iter().any(|s| s.name.matches('.').count() == 2) {
        l.class("doubly-nested-label");
    }
    if exp.syms.iter().any(|s| s.noemit) {
        l.class("suppressed-constant");
    }
    {
        // output order differs from source order
        let offs: Vec<u128> = exp.rows.iter().filter_map(|r| r.offset).collect();
        if offs.windows(2).any(|w| w[1] < w[0]) {
            l.class("output-order-differs-from-source-order");
        }
    }
    l.sample(|| json!({"coords": coords(), "files": files_json()}));

    // 2. every listing
    for fi in fmt_idx {
        let f = &env.fmts[*fi];
        l.eval();
        let text = format_text(&raw, f);
        let fam = f.kind.family();
        let verdict: Result<(), Mismatch> = match (&text, f.kind) {
            (Err(m), Kind::Mlb) if m.starts_with("panic") => {
                if has_small_label(cfg, &exp) {
                    l.class("mesen-label-below-0x10");
                    Err(("small-address", format!("formatter crashed ({}) on a label inside the first 0x10 bytes of the file", m)))
                } else {
                    Err(("panic", m.clone()))
                }
            }
            (Err(m), _) => Err(("panic", m.clone())),
            (Ok(t), Kind::Annotated { base, group }) => {
                let (rows, _) = p::parse_annotated(t, env.calib.radix_annotated);
                check_rows(&rows, &exp, &obs.bits, base, group, &env.calib.alpha[&base])
            }
            (Ok(t), Kind::TcGame { base, group }) => {
                let (rows, junk) = p::parse_tcgame(t, env.calib.radix_tcgame, base as u32);
                match junk.iter().find(|j| j.contains("prefix")) {
                    Some(j) => Err(("data", j.clone())),
                    None => check_rows(&rows, &exp, &obs.bits, base, group, &env.calib.alpha[&base]),
                }
            }
            (Ok(t), Kind::AddrSpan) => {
                let (rows, _) = p::parse_addrspan(t, env.calib.radix_addrspan);
                check_addrspan(&rows, &exp, &env.calib)
            }
            (Ok(t), Kind::Symbols) => {
                let (list, junk) = p::parse_symbols(t);
                let neg = p::parse_negative_symbols(t);
                match junk.first() {
                    Some(j) => Err(("unparsable", format!("line `{}`", j))),
                    None => check_symbols(&list, &exp).and_then(|_| {
                        for (n, v) in &exp.negs {
                            match neg.iter().filter(|x| x.0 == *n).collect::<Vec<_>>().as_slice() {
                                [one] if one.1 == *v as i128 => {}
                                [one] => return Err(("value", format!("{} is listed as {}, its value is {}", n, one.1, v))),
                                [] => return Err(("value", format!("{} = {} is not listed with that (negative) value", n, v))),
                                _ => return Err(("extra", format!("{} is listed more than once", n))),
                            }
                        }
                        match neg.iter().find(|x| !exp.negs.iter().any(|e| e.0 == x.0)) {
                            Some(x) => Err(("extra", format!("{} = {} is listed but no declared symbol has that value", x.0, x.1))),
                            None => Ok(()),
                        }
                    }),
                }
            }
            (Ok(t), Kind::Mlb) => {
                if has_small_label(cfg, &exp) {
                    l.class("mesen-label-below-0x10");
                } else if exp.syms.iter().any(|s| s.label.is_some()) {
                    l.class("mesen-labels-all-expressible");
                }
                let (lines, junk) = p::parse_mlb(t);
                match junk.first() {
                    Some(j) => Err(("unparsable", format!("line `{}`", j))),
                    None => check_mlb(&lines, cfg, &exp),
                }
            }
        };
        l.traces_validated += 1;
        if let Err((field, msg)) = verdict {
            let key = match (f.kind, field, v.style) {
                (Kind::Mlb, "small-address", _) => "C12:mesen-mlb-small-address".to_string(),
                // input-side: a non-ASCII character precedes the item in its file
                (Kind::AddrSpan, "rows" | "source", 2 | 3) => "C12:addrspan-nonascii-before-item".to_string(),
                _ => format!("C12:{}:{}", fam, field),
            };
            if l.viol_counts.get(&key).copied().unwrap_or(0) >= MAX_VIOLATIONS_KEPT_PER_KEY {
                // only counted from here on (the record would be dropped anyway)
                l.violation(Violation { property: ID, key, what: String::new(), case: Value::Null });
                continue;
            }
            l.violation(Violation {
                property: ID,
                key,
                what: format!("-f {} [{}{}{}] {}: {}", f.name, cfg.name, if v.window.is_some() { ", include" } else { "" }, if v.style != 0 { format!(", style {}", v.style) } else { String::new() }, oneline, msg),
                case: json!({"coords": coords(), "files": files_json(), "format": f.name, "expected": exp_json(&exp),
                    "observed": match &text { Ok(t) => json!({"listing": t, "output_bits": obs.bits}), Err(m) => json!({"formatter": m}) }}),
            });
        }
    }
}

fn windows(n: usize) -> Vec<(usize, usize)> {
    let mut w = vec![];
    for a in 0..n {
        for b in a + 1..=n {
            w.push((a, b));
        }
    }
    w
}

fn judge_seq(env: &Env, cfg: usize, seq: Vec<usize>, l: &mut Local) {
    let all: Vec<usize> = (0..env.fmts.len()).collect();
    judge_variant(env, &Variant { cfg, seq: seq.clone(), window: None, style: 0 }, &all, l);
    if seq.is_empty() {
        return;
    }
    for w in windows(seq.len()) {
        judge_variant(env, &Variant { cfg, seq: seq.clone(), window: Some(w), style: 0 }, &env.reduced, l);
    }
    judge_variant(env, &Variant { cfg, seq: seq.clone(), window: None, style: 1 }, &env.reduced, l);
    judge_variant(env, &Variant { cfg, seq: seq.clone(), window: Some((0, seq.len())), style: 1 }, &env.reduced, l);
    judge_variant(env, &Variant { cfg, seq: seq.clone(), window: None, style: 2 }, &env.reduced, l);
    judge_variant(env, &Variant { cfg, seq: seq.clone(), window: Some((0, 1)), style: 2 }, &env.reduced, l);
    judge_variant(env, &Variant { cfg, seq: seq.clone(), window: None, style: 3 }, &env.reduced, l);
    judge_variant(env, &Variant { cfg, seq: seq.clone(), window: None, style: 4 }, &env.reduced, l);
    judge_variant(env, &Variant { cfg, seq, window: Some((0, 1)), style: 4 }, &env.reduced, l);
}

fn make_env() -> Env {
    let (fmts, reduced) = formats();
    let calib = calibrate(&fmts);
    Env { cfgs: configs(), fmts, reduced, calib }
}

pub fn run(ctx: &Ctx) -> Report {
    let mut rep = Report::new(
        "exploration",
        "row parsers + independent layout: every item sequence up to the bound x every include window x 3 renderings x every listing format; non-trivial = the program assembles and has at least one listing row (emitted item or label) or one declared symbol; distinct by (configuration, item sequence, include window, rendering)",
    );
    let env = make_env();
    let maxlen: u32 = if ctx.thorough { 4 } else { 3 };
    for (fam, msg) in &env.calib.problems {
        let mut l = Local::new();
        l.violation(Violation { property: ID, key: format!("C12:calibration:{}", fam), what: msg.clone(), case: json!({"calibration": fam, "expected": "a self-consistent convention", "observed": msg}) });
        rep.absorb(l);
    }
    let mut per_cfg = serde_json::Map::new();
    for (ci, cfg) in env.cfgs.iter().enumerate() {
        let k = cfg.toks.len() as u64;
        let n = seq_count(k, maxlen);
        per_cfg.insert(cfg.name.to_string(), json!({"items": cfg.toks.iter().map(|t| t.text()).collect::<Vec<_>>(), "sequences": n,
                "banks": cfg.banks.iter().map(|b| json!({"name": b.name, "bits": b.bits, "addr": format!("{:#x}", b.addr), "outp_bits": b.outp})).collect::<Vec<_>>()}));
        let local = par_run(n, |i, l| {
            let seq = seq_decode(i, k, maxlen);
            judge_seq(&env, ci, seq, l);
        });
        rep.absorb(local);
    }
    rep.extra("max_items", json!(maxlen));
    rep.extra("configurations", Value::Object(per_cfg));
    rep.extra("formats_full_set", json!(env.fmts.iter().map(|f| f.name.clone()).collect::<Vec<_>>()));
    rep.extra("formats_for_include_and_rendering_variants", json!(env.reduced.iter().map(|i| env.fmts[*i].name.clone()).collect::<Vec<_>>()));
    rep.extra(
        "calibrated_conventions",
        json!({"radix": {"annotated": env.calib.radix_annotated, "tcgame": env.calib.radix_tcgame, "addrspan": env.calib.radix_addrspan},
            "addrspan_first_line": env.calib.line_base, "addrspan_first_column": env.calib.col_base, "addrspan_end_column_minus_exclusive_end": env.calib.end_delta,
            "digits_base32": env.calib.alpha[&32].chars.iter().collect::<String>()}),
    );
    rep.extra("listings_compared", json!(rep.local.traces_validated));
    rep.assumptions = vec![
        "numeric columns of the listings are hexadecimal or decimal (decided once from the listing of `#addr 0x1a / nop`)".into(),
        "addrspan line/column origin and end-column convention are taken from the listing of one single-item program; digit characters of bases 32/64/128 are taken from listing one item per digit value (must be injective)".into(),
        "ties (a label and the item that follows it share an output position) may be listed in either order".into(),
        "mesen-mlb: constants may be left out; labels inside the first 0x10 bytes of the file and labels in banks whose unit is not 8 bits have no specified offset".into(),
    ];
    for c in [
        "assembled",
        "rejected",
        "has-emitted-item",
        "rows-in-two-banks",
        "row-at-non-byte-position",
        "row-without-output-position",
        "row-from-included-file",
        "doubly-nested-label",
        "suppressed-constant",
        "output-order-differs-from-source-order",
        "mesen-labels-all-expressible",
        "mesen-label-below-0x10",
    ] {
        rep.require_class(c);
    }
    rep
}

pub fn replay(ctx: &Ctx, case: &Value) -> i32 {
    let env = make_env();
    super::replay_with(ctx, case, |case, l| {
        if case.get("calibration").is_some() {
            for (fam, msg) in &env.calib.problems {
                l.violation(Violation { property: ID, key: format!("C12:calibration:{}", fam), what: msg.clone(), case: case.clone() });
            }
            return;
        }
        let c = &case["coords"];
        let v = Variant {
            cfg: c["cfg"].as_u64().unwrap_or(0) as usize,
            seq: c["seq"].as_array().map(|a| a.iter().map(|x| x.as_u64().unwrap_or(0) as usize).collect()).unwrap_or_default(),
            window: c["window"].as_array().map(|a| (a[0].as_u64().unwrap_or(0) as usize, a[1].as_u64().unwrap_or(0) as usize)),
            style: c["style"].as_u64().unwrap_or(0) as u8,
        };
        let idx: Vec<usize> = match case["format"].as_str() {
            Some(n) => env.fmts.iter().position(|f| f.name == n).into_iter().collect(),
            None => vec![],
        };
        let cfg = &env.cfgs[v.cfg];
        let toks: Vec<&Tok> = v.seq.iter().map(|i| &cfg.toks[*i]).collect();
        let (files, _) = render(cfg, &toks, v.window, v.style);
        for (n, b) in &files {
            println!("--- {}\n{}", n, String::from_utf8_lossy(b));
        }
        if let Some(n) = case["format"].as_str() {
            println!("reproduce: customasm main.asm -f {} -p", n);
            let raw = run::assemble_raw(&files, &["main.asm"], &run::Opts::default());
            if let Some(fi) = idx.first() {
                println!("--- listing\n{}", format_text(&raw, &env.fmts[*fi]).unwrap_or_else(|e| e));
            }
        }
        judge_variant(&env, &v, &idx, l);
    })
}
