//! C01 — assembled bits equal the language definition (size-static programs).
//! F1: all rule sets of 1..k templates x every line of the whole pool; F2: a fixed rule set x all
//! item sequences up to a length; oracle: the reference assembler (refasm).
use crate::refasm::*;
use crate::run::{self, Obs, Opts};
use crate::stats::*;
use serde_json::json;

pub const ID: &str = "C01";

#[derive(Clone, Debug)]
pub struct Template {
    pub rule: RuleSrc,
    /// operand kinds of the pattern's parameters, in order
    pub params: Vec<PKind>,
    pub needs_reg: bool,
}

#[derive(Clone, Copy, Debug, PartialEq)]
pub enum PKind {
    Typed(char, usize),
    Untyped,
    Reg,
    Cc,
    Src,
}

fn t(p: &str, e: &str, params: &[PKind]) -> Template {
    Template { rule: RuleSrc::new(p, e), params: params.to_vec(), needs_reg: params.contains(&PKind::Reg) || params.contains(&PKind::Cc) || params.contains(&PKind::Src) }
}

pub fn pool() -> Vec<Template> {
    use PKind::*;
    vec![
        t("l {x: u8}", "0x01 @ x", &[Typed('u', 8)]),
        t("ld {x: u8}", "0x02 @ x", &[Typed('u', 8)]),
        t("ldi {x: u8}", "0x03 @ x", &[Typed('u', 8)]),
        t("ld.b {x: u8}", "0x04 @ x", &[Typed('u', 8)]),
        t("ld a", "0x05", &[]),
        t("ld {x}", "0x06 @ x`8", &[Untyped]),
        t("ld {x: s8}", "0x07 @ x", &[Typed('s', 8)]),
        t("ld {x: u16}", "0x08 @ x", &[Typed('u', 16)]),
        t("ld ({x: u8})", "0x09 @ x", &[Typed('u', 8)]),
        t("ld [{x: u8}]", "0x0a @ x", &[Typed('u', 8)]),
        t("ld #{x: u8}", "0x0b @ x", &[Typed('u', 8)]),
        t("ld r{x: u4}", "0xc @ x", &[Typed('u', 4)]),
        t("ld {x: u8}, {y: u8}", "0x0d @ x @ y", &[Typed('u', 8), Typed('u', 8)]),
        t("ld {x: u8}+{y: u8}", "0x0e @ x @ y", &[Typed('u', 8), Typed('u', 8)]),
        t("ld {r: reg}", "0xf @ r", &[Reg]),
        t("ld {r: reg}, {x: u8}", "0x10 @ r @ 0x0 @ x", &[Reg, Typed('u', 8)]),
        t("inc(hl)", "0x11", &[]),
        t("jr {x}", "0x12 @ (x - $)`8", &[Untyped]),
        t("jp {x}", "0x13 @ le(x`16)", &[Untyped]),
        t("ld {x: i8}", "0x14 @ x", &[Typed('i', 8)]),
        t("ld {x}h", "0x15 @ x`8", &[Untyped]),
        t("nop", "0x16", &[]),
        // the same rule once more (and one with the same pattern and another body): an exact tie is an error, also when
        // both candidates would emit the same bits
        t("nop", "0x16", &[]),
        t("ld a", "0x05", &[]),
        t("ldw {x: u4}", "0xab @ x", &[Typed('u', 4)]),
        t("ld a, {x: u8}", "0x17 @ x", &[Typed('u', 8)]),
        t("ld {x: u8}, a", "0x18 @ x", &[Typed('u', 8)]),
        t("ld {x: s3}", "0b10101 @ x", &[Typed('s', 3)]),
        t("ld {x}[{y: u8}]", "0x19 @ x[15:8] @ y", &[Untyped, Typed('u', 8)]),
        // same literal-character count as `ld.b {x}` once the nested `b` is counted; indexed under a shorter prefix
        t("ld.{c: cc} {x: u8}", "0x2 @ c @ x", &[Cc, Typed('u', 8)]),
        // sub-rules with their own parameters, wrappers and a nested sub-rule
        t("mv {d: reg}, {s: src}", "0x8 @ d @ s", &[Reg, Src]),
        t("mvx {s: src}+{x: u4}", "0x9 @ x @ s", &[Src, Typed('u', 4)]),
        t("mv [{s: src}]", "0x7 @ 0xe @ s", &[Src]),
        // same literal rule as `ld a, {x}` but written without the blank after the comma: its count of
        // literal characters must still beat `ld {x}, {y}` whatever the spacing of either rule
        t("ld a,{x: u8}", "0x1a @ x", &[Typed('u', 8)]),
        // a parameter named like a global symbol (`k`), followed by a sub-rule operand whose own expression
        // may mention that global: the operand is written in the scope of the line, not of the rule
        t("mw {k: u8}, {s: src}", "0x6 @ s @ k @ 0x0", &[Typed('u', 8), Src]),
        // mnemonics with a digit-then-letter piece (one NUMBER token to the tokenizer, letters included)
        t("v.4s {x: u8}", "0xa1 @ x", &[Typed('u', 8)]),
        t("2x {x: u8}", "0xa2 @ x", &[Typed('u', 8)]),
        // two sub-rule operands, the ambiguous one (literal `a` / expression) first
        t("mvs {s: src}, {d: reg}", "0xa @ d @ s", &[Src, Reg]),
        // a digit-led token inside the first literal characters of the mnemonic
        t("ld.8 {x: u8}", "0x1b @ x", &[Typed('u', 8)]),
    ]
}

/// operands with parameters of their own: immediate `#v`, absolute `v`, register-indirect `(reg)`
pub fn src_def() -> RuleDefSrc {
    RuleDefSrc {
        name: Some("src".into()),
        sub: true,
        // 16 bits each, the literal `a` 24 bits: with the 4+4 bits of the instructions that use them the total is a whole
        // number of bytes (the label behind the line must stay aligned), and literal and expression reading differ in size
        rules: vec![RuleSrc::new("#{v: u8}", "0x1 @ 0x0 @ v"), RuleSrc::new("{v: u8}", "0x2 @ 0x0 @ v"), RuleSrc::new("({r: reg})", "0x3 @ 0x00 @ r"), RuleSrc::new("a", "0x4 @ 0x00000")],
    }
}

pub fn cc_def() -> RuleDefSrc {
    RuleDefSrc { name: Some("cc".into()), sub: true, rules: vec![RuleSrc::new("b", "0x1"), RuleSrc::new("w", "0x2")] }
}

pub fn reg_def() -> RuleDefSrc {
    RuleDefSrc { name: Some("reg".into()), sub: true, rules: vec![RuleSrc::new("r0", "0x0"), RuleSrc::new("r1", "0x1"), RuleSrc::new("r10", "0xa"), RuleSrc::new("a", "0xb")] }
}

fn operand_texts(k: PKind, full: bool) -> Vec<String> {
    match k {
        PKind::Reg => vec!["r0".into(), "r1".into(), "r10".into(), "r2".into(), "R1".into(), "a".into()],
        PKind::Cc => vec!["b".into(), "w".into(), "q".into()],
        PKind::Src => vec!["#5".into(), "k + 1".into(), "a".into(), "300".into(), "(r1)".into(), "#k".into(), "5".into(), "#300".into(), "(r2)".into(), "A".into(), "#B".into(), "(a)".into()],
        PKind::Untyped => {
            let mut v: Vec<String> = vec!["5".into(), "0x1234".into(), "-1".into(), "(1 + 1)".into(), "{ 0, 1 + 1 }".into(), "A".into(), "B".into(), "k".into(), "undef".into(), "a".into(), "$".into()];
            if full {
                v.extend(["A + 1".to_string(), "B - A".to_string(), "0x1_00".to_string(), "r1".to_string()]);
            }
            v
        }
        PKind::Typed(ty, n) => {
            let p = |e: u32| 1i64 << e;
            let n32 = n as u32;
            let mut vals: Vec<i64> = vec![0, -1, p(n32) - 1, p(n32), -p(n32 - 1), -p(n32 - 1) - 1, p(n32 - 1) - 1, p(n32 - 1)];
            if full {
                vals.extend([1, 2, p(n32) + 1, -p(n32)]);
            }
            let _ = ty;
            let mut v: Vec<String> = vals.iter().map(|x| x.to_string()).collect();
            // a block operand holding the characters other patterns use as separators
            v.insert(4, "{ 0, 1 + 1 }".to_string());
            v.extend(["0x0f".to_string(), "(1 + 1)".to_string(), "A".to_string(), "B".to_string(), "k".to_string(), "undef".to_string(), "a".to_string()]);
            v
        }
    }
}

/// every line obtained from a template's own pattern by filling its parameters
pub fn lines_of(tp: &Template, full: bool) -> Vec<String> {
    // split pattern at parameters
    let pat = &tp.rule.pattern;
    let mut pieces: Vec<String> = vec![];
    let mut cur = String::new();
    let mut in_param = false;
    for c in pat.chars() {
        match c {
            '{' => {
                pieces.push(std::mem::take(&mut cur));
                in_param = true;
            }
            '}' => in_param = false,
            _ if in_param => {}
            _ => cur.push(c),
        }
    }
    pieces.push(cur);
    let two = tp.params.len() >= 2;
    let opts: Vec<Vec<String>> = tp
        .params
        .iter()
        .map(|k| {
            let mut o = operand_texts(*k, full && !two);
            if two && !full {
                o.truncate(5);
                o.push("A".into());
            }
            o
        })
        .collect();
    let mut out = vec![];
    let radices: Vec<u64> = opts.iter().map(|o| o.len() as u64).collect();
    for i in 0..product(&radices).max(1) {
        let d = decode(i, &radices);
        let mut s = pieces[0].clone();
        for (k, o) in opts.iter().enumerate() {
            s += &o[d[k] as usize];
            s += &pieces[k + 1];
        }
        out.push(s);
    }
    out
}

pub fn extra_lines() -> Vec<String> {
    vec!["ld".into(), "ld 1, 2, 3".into(), "xyz 5".into(), "ld (5".into(), "ld 5)".into(), "ld [5)".into(), "nop 1".into(), "ld a a".into(), "ld , 5".into(), "inc (hl)".into(), "inc(hl )".into(), "ld .b 5".into(), "l d 5".into(), "ld 5H".into(), "LD 5h".into(), "ld 5 H".into(), "ld AH".into(), "ld kH".into()]
}

/// program skeleton for one line: labels A (before) and B (after), constant k
pub fn f1_prog(rules: &[&Template], line: &str) -> Prog {
    f1_prog_blocks(rules, line, false)
}

/// `split`: every rule in a rule block of its own (so rules share their index within the block)
pub fn f1_prog_blocks(rules: &[&Template], line: &str, split: bool) -> Prog {
    let mut ruledefs = vec![];
    if rules.iter().any(|r| r.needs_reg) {
        ruledefs.push(reg_def());
        ruledefs.push(cc_def());
        ruledefs.push(src_def());
    }
    if split {
        for (i, r) in rules.iter().enumerate() {
            ruledefs.push(RuleDefSrc { name: if i % 2 == 0 { Some(format!("blk{}", i)) } else { None }, sub: false, rules: vec![r.rule.clone()] });
        }
    } else {
        ruledefs.push(RuleDefSrc { name: None, sub: false, rules: rules.iter().map(|r| r.rule.clone()).collect() });
    }
    Prog {
        ruledefs,
        items: vec![Item::Const("k".into(), "3".into()), Item::Label("A".into()), Item::Data(Some(8), vec!["0xee".into()]), Item::Instr(line.to_string()), Item::Label("B".into()), Item::Data(Some(8), vec!["0xdd".into()])],
    }
}

pub fn symbols_match(obs: &Obs, r: &RefOk) -> bool {
    // the listing order of the symbol table is not part of any property that uses this: compare as sets
    let mut want: Vec<(String, String)> = r.symbols.iter().map(|(n, z)| (n.clone(), format!("0x{:x}", z))).collect();
    let mut got = obs.symbols.clone();
    want.sort();
    got.sort();
    got == want
}

/// compare a real observation with the reference verdict; returns Some(kind) on disagreement
pub fn disagreement(obs: &Obs, r: &RefOut) -> Option<&'static str> {
    if obs.panicked.is_some() {
        return Some("panic");
    }
    match r {
        RefOut::Unspec(_) => None,
        RefOut::Ok(ok) => {
            if !obs.success() {
                Some("valid program rejected")
            } else if obs.bits != ok.bits {
                Some("wrong bits")
            } else if !symbols_match(obs, ok) {
                Some("wrong symbol values")
            } else {
                None
            }
        }
        RefOut::Error(_) => {
            if obs.ok {
                Some("invalid program assembled")
            } else if !obs.has_errors {
                Some("failure without an error diagnostic")
            } else {
                None
            }
        }
    }
}

pub fn ref_summary(r: &RefOut) -> serde_json::Value {
    match r {
        RefOut::Ok(ok) => json!({"ok": true, "hex": run::bits_to_hex(&ok.bits), "bits_len": ok.bits.len(), "symbols": ok.symbols.iter().map(|(n, z)| format!("{}=0x{:x}", n, z)).collect::<Vec<_>>()}),
        RefOut::Error(e) => json!({"error": e}),
        RefOut::Unspec(e) => json!({"unspecified": e}),
    }
}

pub fn judge_prog(prog: &Prog, family: &str, opts: &Opts, l: &mut Local) {
    judge_prog_for(ID, prog, family, opts, l)
}

pub fn judge_prog_for(id: &'static str, prog: &Prog, family: &str, opts: &Opts, l: &mut Local) {
    let src = prog.render();
    let r = assemble(prog);
    l.eval();
    let obs = run::assemble_str(&src, opts);
    match &r {
        RefOut::Unspec(w) => l.count(&format!("{} reference verdicts: unspecified{}", family, if w.starts_with("label-dependent") { format!(" ({})", w) } else { String::new() }), 1),
        RefOut::Ok(_) => l.count(&format!("{} reference verdicts: assembles", family), 1),
        RefOut::Error(_) => l.count(&format!("{} reference verdicts: rejected", family), 1),
    }
    match &r {
        RefOut::Unspec(_) => {
            l.unspecified += 1;
            if obs.panicked.is_none() {
                return;
            }
        }
        RefOut::Ok(ok) => {
            if ok.placements.iter().any(|p| p.written) {
                l.nontrivial(&src);
            }
            l.class("ref-success");
        }
        RefOut::Error(e) => {
            l.nontrivial(&src);
            l.class(&format!("ref-error:{}", e));
        }
    }
    l.traces_validated += 1;
    if let Some(kind) = disagreement(&obs, &r) {
        l.violation(Violation {
            property: id,
            key: format!("{}:{}", family, kind),
            what: format!("{}: {}", kind, src.replace('\n', " / ")),
            case: json!({"family": family, "program": src, "opts": opts.to_json(), "expected": ref_summary(&r), "observed": obs.summary()}),
        });
    }
    l.sample(|| json!({"family": family, "program": src, "reference": ref_summary(&r)}));
}

// ---- F2: layout item sequences ------------------------------------------------------------------

pub fn f2_rules() -> Vec<RuleDefSrc> {
    vec![RuleDefSrc {
        name: None,
        sub: false,
        rules: vec![
            RuleSrc::new("nop", "0x16"),
            RuleSrc::new("ld {x: u8}", "0x02 @ x"),
            RuleSrc::new("ldw {x: u16}", "0x08 @ x"),
            RuleSrc::new("jr {x}", "0x12 @ (x - $)`8"),
            RuleSrc::new("jp {x}", "0x13 @ le(x`16)"),
            RuleSrc::new("b3 {x: u3}", "0b1 @ x"),
            RuleSrc::new("ld a", "0x05"),
            RuleSrc::new("ld {x}, {y: s4}", "0x7 @ y @ x`8"),
        ],
    }]
}

pub fn f2_items() -> Vec<Item> {
    vec![
        Item::Instr("nop".into()),
        Item::Instr("ld A".into()),
        Item::Instr("ld .l".into()),
        Item::Instr("ldw B".into()),
        Item::Instr("jr A".into()),
        Item::Instr("jr B".into()),
        Item::Instr("jp k".into()),
        Item::Instr("b3 5".into()),
        Item::Instr("ld $, -3".into()),
        Item::Label("A".into()),
        Item::Label("B".into()),
        Item::Label(".l".into()),
        Item::Label("..m".into()),
        Item::Const("k".into(), "A + 1".into()),
        Item::Const("k".into(), "7".into()),
        Item::Data(Some(8), vec!["1".into()]),
        Item::Data(Some(16), vec!["0x1234".into()]),
        Item::Data(None, vec!["0x123".into()]),
        Item::Data(Some(8), vec!["A".into(), "B".into()]),
        Item::Data(Some(4), vec!["..m".into()]),
        Item::Res("2".into()),
        Item::Align("16".into()),
        Item::Addr("8".into()),
    ]
}

pub fn f2_prog(seq: &[usize], items: &[Item], banked: bool) -> Prog {
    let mut its = vec![];
    if banked {
        its.push(Item::Bankdef(BankSrc { name: "x".into(), bits: Some(8), addr: Some(0x10), size: Some(8), outp: Some(0), fill: false, labelalign: None }));
        its.push(Item::Bankdef(BankSrc { name: "y".into(), bits: Some(8), addr: Some(0), size: Some(4), outp: Some(64), fill: true, labelalign: None }));
        its.push(Item::Bank("x".into()));
    }
    for (n, i) in seq.iter().enumerate() {
        if banked && n == seq.len() / 2 + 1 {
            its.push(Item::Bank("y".into()));
        }
        its.push(items[*i].clone());
    }
    Prog { ruledefs: f2_rules(), items: its }
}

pub fn run(ctx: &Ctx) -> Report {
    let mut rep = Report::new(
        "model_checking",
        "F1: every rule set of 1..k templates from a 39-template pool (prefix-sharing mnemonics, literal/typed/untyped/sub-rule operands, wrappers, glued and suffix literals, tie and smallest-wins pairs, slices, le(), $-relative) x every line of the whole pool (every range boundary, labels before/after, constant, undefined name) + malformed lines; F2: fixed 8-rule set x all item sequences up to a length (labels global/nested, constants, data of several widths, #res/#align/#addr, two banks); each compared (success, bits, symbol values) with the reference assembler. Non-trivial = the reference defines the outcome and the program emits >=1 item or is rejected by the rules; distinct by program text.",
    );
    let pool = pool();
    let opts = Opts::iters(30);
    // all lines of the pool
    let mut lines: Vec<String> = vec![];
    for tp in &pool {
        for ln in lines_of(tp, ctx.thorough) {
            if !lines.contains(&ln) {
                lines.push(ln);
            }
        }
    }
    lines.extend(extra_lines());
    let nl = lines.len() as u64;
    let np = pool.len() as u64;

    // F1 singles
    rep.absorb(par_run(np * nl, |i, l| {
        let d = decode(i, &[nl, np]);
        let prog = f1_prog(&[&pool[d[1] as usize]], &lines[d[0] as usize]);
        judge_prog(&prog, "F1-1", &opts, l);
    }));
    // F1 singles again for the templates with sub-rule operands, in a program that also declares SYMBOLS named like the
    // sub-rules' literals (`a`, `r1`, `b`): the literal spelling must still win over the expression reading, in every
    // operand position
    let shadow: Vec<usize> = (0..pool.len()).filter(|i| pool[*i].needs_reg).collect();
    let nsh = shadow.len() as u64;
    rep.absorb(par_run(nsh * nl, |i, l| {
        let d = decode(i, &[nl, nsh]);
        let mut prog = f1_prog(&[&pool[shadow[d[1] as usize]]], &lines[d[0] as usize]);
        for (n, v) in [("a", "0x55"), ("r1", "0x66"), ("b", "0x77")] {
            prog.items.insert(0, Item::Const(n.into(), v.into()));
        }
        judge_prog(&prog, "F1-1-literals-shadowed-by-symbols", &opts, l);
    }));
    // F1 pairs (unordered; rule order inside the block is C07's business — both orders in thorough)
    let mut pairs = vec![];
    for a in 0..pool.len() {
        for b in 0..pool.len() {
            if a < b || (ctx.thorough && a != b) {
                pairs.push((a, b));
            }
        }
    }
    let npairs = pairs.len() as u64;
    rep.absorb(par_run(npairs * nl, |i, l| {
        let d = decode(i, &[nl, npairs]);
        let (a, b) = pairs[d[1] as usize];
        let prog = f1_prog(&[&pool[a], &pool[b]], &lines[d[0] as usize]);
        judge_prog(&prog, "F1-2", &opts, l);
        let prog = f1_prog_blocks(&[&pool[a], &pool[b]], &lines[d[0] as usize], true);
        judge_prog(&prog, "F1-2-split-blocks", &opts, l);
    }));
    let mut levels = vec![json!({"family": "F1 rule sets of 1 template x lines", "cases": np * nl}), json!({"family": "F1 rule sets of 2 templates (one block, and one block per rule) x lines", "cases": 2 * npairs * nl})];
    if ctx.thorough {
        let mut triples = vec![];
        for a in 0..pool.len() {
            for b in (a + 1)..pool.len() {
                for c in (b + 1)..pool.len() {
                    triples.push((a, b, c));
                }
            }
        }
        let nt = triples.len() as u64;
        rep.absorb(par_run(nt * nl, |i, l| {
            let d = decode(i, &[nl, nt]);
            let (a, b, c) = triples[d[1] as usize];
            let prog = f1_prog(&[&pool[a], &pool[b], &pool[c]], &lines[d[0] as usize]);
            judge_prog(&prog, "F1-3", &opts, l);
        }));
        levels.push(json!({"family": "F1 rule sets of 3 templates x lines", "cases": nt * nl}));
    }

    // F2
    let items = f2_items();
    let k = items.len() as u64;
    let maxlen = if ctx.thorough { 4 } else { 3 };
    let n2 = seq_count(k, maxlen);
    rep.absorb(par_run(n2, |i, l| {
        let seq = seq_decode(i, k, maxlen);
        judge_prog(&f2_prog(&seq, &items, false), "F2", &opts, l);
    }));
    // F2-layout: longer sequences over the layout-relevant sub-alphabet (backward #addr next to data)
    let litems = vec![
        Item::Data(Some(8), vec!["1".into()]),
        Item::Data(Some(16), vec!["0x1234".into()]),
        Item::Addr("3".into()),
        Item::Addr("2".into()),
        Item::Res("2".into()),
        Item::Res("1".into()),
        Item::Align("16".into()),
        Item::Label("A".into()),
        Item::Instr("ldw A".into()),
        // in range only for the final value of the forward label (a first guess of 0 gives 0x103)
        Item::Data(Some(8), vec!["0x103 - A".into()]),
    ];
    let kl = litems.len() as u64;
    let maxlen_l = if ctx.thorough { 6 } else { 5 };
    let n2l = seq_count(kl, maxlen_l);
    rep.absorb(par_run(n2l, |i, l| {
        let seq = seq_decode(i, kl, maxlen_l);
        judge_prog(&f2_prog(&seq, &litems, false), "F2-layout", &opts, l);
    }));
    levels.push(json!({"family": format!("F2-layout sequences of length <= {} over {} layout items", maxlen_l, kl), "cases": n2l}));
    // bank configurations (the grid of the C06 check: shapes, window relations, definition orders) with at most one
    // item: a layout the rules allow is assembled, whichever way round the banks are declared
    {
        let cfgs = super::c06::make_configs(false);
        let k = super::c06::NSYMS as u64;
        let per = seq_count(k, 1);
        rep.absorb(par_run(cfgs.len() as u64 * per, |i, l| {
            let d = decode(i, &[per, cfgs.len() as u64]);
            let seq = seq_decode(d[0], k, 1);
            judge_prog(&super::c06::build_prog(&cfgs[d[1] as usize], &seq), "bank-configurations", &opts, l);
        }));
        levels.push(json!({"family": "bank configurations of the C06 grid x sequences of length <= 1", "cases": cfgs.len() as u64 * per}));
    }
    // F2-layout in a bank that starts at a negative address: positions are counted from the bank's start whatever its
    // sign, alignment is to multiples of the unit count from address 0 (so the padding depends on the sign-correct
    // remainder)
    {
        let nitems = vec![
            Item::Data(Some(8), vec!["0x11".into()]),
            Item::Data(Some(16), vec!["0x1234".into()]),
            Item::Res("1".into()),
            Item::Align("16".into()),
            Item::Align("24".into()),
            Item::Label("A".into()),
            Item::Data(Some(8), vec!["A".into()]),
        ];
        let addrs: [i128; 6] = [-3, -4, -0x100, -1, (1 << 64) + 1, (1 << 64) - 2];
        let kn = nitems.len() as u64;
        let maxlen_n = if ctx.thorough { 5 } else { 4 };
        let per = seq_count(kn, maxlen_n);
        rep.absorb(par_run(per * addrs.len() as u64, |i, l| {
            let d = decode(i, &[per, addrs.len() as u64]);
            let seq = seq_decode(d[0], kn, maxlen_n);
            let mut prog = f2_prog(&seq, &nitems, false);
            prog.items.insert(0, Item::Bank("n".into()));
            prog.items.insert(0, Item::Bankdef(BankSrc { name: "n".into(), bits: Some(8), addr: Some(addrs[d[1] as usize]), size: None, outp: Some(0), fill: false, labelalign: None }));
            judge_prog(&prog, "F2-layout-negative-bank", &opts, l);
        }));
        levels.push(json!({"family": format!("F2-layout in a bank at a negative address or beyond 2^64: sequences of length <= {} over {} items x {} addresses", maxlen_n, kn, addrs.len()), "cases": per * addrs.len() as u64}));
    }
    // F2-label-layout: layout directives whose operand depends on labels (forward and backward); the reference
    // iterates the layout to its self-consistent state and gives no verdict when a directive depends on its own effect
    let ditems = vec![
        Item::Data(Some(8), vec!["1".into()]),
        Item::Data(Some(16), vec!["0x1234".into()]),
        Item::Addr("A + 2".into()),
        Item::Addr("B - 1".into()),
        Item::Addr("0x16".into()),
        Item::Res("B - A".into()),
        Item::Res("A".into()),
        Item::Align("(B - A) * 8".into()),
        Item::Align("k * 8".into()),
        // operands that are negative as long as the label is not known yet (a guess of 0)
        Item::Res("B - 0x14".into()),
        Item::Align("(A - 0x12) * 8".into()),
        Item::Const("k".into(), "B - A".into()),
        Item::Instr("ldw B".into()),
        Item::Instr("ld A".into()),
    ];
    let kd = ditems.len() as u64;
    let maxlen_d: u32 = if ctx.thorough { 4 } else { 3 };
    let nseq_d = seq_count(kd, maxlen_d);
    let npos = (maxlen_d as u64 + 1) * (maxlen_d as u64 + 1);
    let n2d = nseq_d * npos * 2;
    rep.absorb(par_run(n2d, |i, l| {
        let d = decode(i, &[2, npos, nseq_d]);
        let in_bank = d[0] == 1;
        let d = [d[1], d[2]];
        let seq = seq_decode(d[1], kd, maxlen_d);
        let (pa, pb) = ((d[0] / (maxlen_d as u64 + 1)) as usize, (d[0] % (maxlen_d as u64 + 1)) as usize);
        // the two labels stand at every pair of positions pa <= pb of the sequence
        if pa > pb || pb > seq.len() {
            return;
        }
        if !seq.iter().any(|x| matches!(&ditems[*x], Item::Addr(e) | Item::Res(e) | Item::Align(e) if e.contains(|c: char| c.is_ascii_alphabetic() && c != 'x'))) {
            return;
        }
        let mut prog = f2_prog(&seq, &ditems, false);
        prog.items.insert(pb, Item::Label("B".into()));
        prog.items.insert(pa, Item::Label("A".into()));
        if in_bank {
            // a bank that does not start at address 0: a not yet known label must not be mistaken for address 0
            prog.items.insert(0, Item::Bankdef(BankSrc { name: "x".into(), bits: Some(8), addr: Some(0x10), size: Some(0x20), outp: Some(0), fill: false, labelalign: None }));
        }
        judge_prog(&prog, "F2-label-layout", &opts, l);
    }));
    levels.push(json!({"family": format!("F2-label-layout sequences of length <= {} over {} items (label-dependent #addr/#res/#align) x every pair of positions of the labels A <= B x {{default bank, a bank at address 0x10}}", maxlen_d, kd), "cases": n2d}));
    let maxlen_b = if ctx.thorough { 3 } else { 2 };
    let n2b = seq_count(k, maxlen_b);
    rep.absorb(par_run(n2b * 2, |i, l| {
        let seq = seq_decode(i / 2, k, maxlen_b);
        let mut prog = f2_prog(&seq, &items, true);
        if i % 2 == 1 {
            // bank x at an odd address with label alignment: alignment is taken on the absolute BIT position
            // (address x unit + offset), which differs from address + offset modulo the alignment
            if let Item::Bankdef(b) = &mut prog.items[0] {
                b.addr = Some(0x11);
                b.labelalign = Some(16);
            }
        }
        judge_prog(&prog, "F2-banked", &opts, l);
    }));
    levels.push(json!({"family": format!("F2 item sequences of length <= {} over {} items", maxlen, k), "cases": n2}));
    levels.push(json!({"family": format!("F2 two banks, sequences of length <= {}", maxlen_b), "cases": n2b}));
    // model conformance: the reference assembler against the maintainers' own expectations (DESIGN §3.1 step 1)
    let conf = crate::corpus_conf::run(&ctx.repo);
    rep.extra(
        "model_conformance_corpus",
        json!({"corpus_files": conf.files_total, "in_reference_domain": conf.in_domain, "reference_prediction_equals_file_expectation": conf.agreed, "reference_unspecified": conf.reference_unspecified, "disagreements": conf.disagreements}),
    );
    if !conf.disagreements.is_empty() {
        rep.machinery_error = Some(format!("reference assembler disagrees with the repository's own expectations (model bug): {}", conf.disagreements.join("; ")));
    } else if conf.agreed < 100 {
        rep.machinery_error = Some(format!("corpus conformance covered only {} files (corpus not found under {}?)", conf.agreed, ctx.repo));
    }
    rep.extra("levels", json!(levels));
    rep.extra("lines_in_pool", json!(nl));
    rep.assumptions = vec!["reference assembler (refasm.rs) is written from the documented rules; inputs outside its defined domain (value-dependent sizes, strings, blocks it does not model) carry no verdict".into(), "iteration budget fixed at 30 so that convergence is never the reason for a failure".into()];
    rep.require_class("ref-success");
    rep.require_class("ref-error:no match for instruction");
    rep.require_class("ref-error:all candidates discarded");
    rep.require_class("ref-error:several equally small candidates");
    rep.require_class("ref-error:undefined symbol");
    rep.require_class("ref-error:duplicate symbol");
    rep
}

pub fn replay(ctx: &Ctx, case: &serde_json::Value) -> i32 {
    super::replay_with(ctx, case, |case, l| {
        let prog = case["program"].as_str().unwrap_or("");
        let mut opts = Opts::iters(case["opts"]["iters"].as_u64().unwrap_or(30) as usize);
        opts.opt_static = case["opts"]["opt_static"].as_bool().unwrap_or(true);
        opts.opt_matcher = case["opts"]["opt_matcher"].as_bool().unwrap_or(true);
        let obs = run::assemble_str(prog, &opts);
        println!("program:\n{}\nexpected (reference): {}\nobserved: {}", prog, case["expected"], obs.summary());
        let exp = &case["expected"];
        let bad = if exp["ok"].as_bool() == Some(true) {
            !(obs.success() && Some(obs.hex().as_str()) == exp["hex"].as_str() && Some(obs.bits.len() as u64) == exp["bits_len"].as_u64())
        } else if exp.get("error").is_some() {
            !obs.failure()
        } else {
            obs.panicked.is_some()
        };
        if bad {
            l.violation(Violation { property: ID, key: "replay".into(), what: "case still disagrees with the reference".into(), case: case.clone() });
        }
    })
}
