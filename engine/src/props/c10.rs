//! C10 — assembly is a deterministic function of its inputs.
//!
//! Alphabet: a job set J (files + argv) whose members share file names, mnemonics, symbol names, rule
//! patterns and format strings and differ only in rule bodies / constant values / bank parameters /
//! include contents / defines, plus jobs whose diagnostics have several equally-ranked candidates.
//! Bound: (a) HISTORIES — every sequence of <= 3 (quick) / <= 4 (thorough) jobs, one after another on one
//! thread of one process; (b) PLACEMENT — every job on the main thread, on freshly spawned threads, and every
//! ordered pair of jobs on two free-running threads; (c) PROCESSES — every job x 8 / 64 fresh processes of
//! the real binary. (a) and (b) are exhaustive; (c) *samples* the hash seed and the OS schedule.
//! Oracle: the RECORD of a job (success flag, bits, the bytes of every output format, written files,
//! printed diagnostics) is byte-identical to the record of the same job run alone, first, in a fresh process
//! (obtained by re-invoking this very binary with CAV_C10_CHILD_JOB=<job file>). History and thread-pair shards
//! (one per first job) also run in re-invoked single-purpose engine processes (CAV_C10_CHILD_HIST=<shard file>), so
//! that every history really runs on the main thread of a process that has done nothing else.
use crate::driver;
use crate::run;
use crate::stats::*;
use customasm::util::FileServer;
use customasm::*;
use rayon::prelude::*;
use serde_json::{json, Value};
use std::collections::BTreeMap;
use std::panic::{catch_unwind, AssertUnwindSafe};

pub const ID: &str = "C10";
const CHILD_ENV: &str = "CAV_C10_CHILD_JOB";
const CHILD_HIST_ENV: &str = "CAV_C10_CHILD_HIST";
const KNOWN_FORMAT_KEY: &str = "C10:format-unknown-param-order";

// ------------------------------------------------------------------------------------------------
// The job set
// ------------------------------------------------------------------------------------------------

#[derive(Clone, Debug, PartialEq, Eq)]
pub struct Job {
    pub name: String,
    /// input-side family used for violation keys
    pub family: String,
    pub files: Vec<(String, String)>,
    /// argv without the program name and without `-q`
    pub argv: Vec<String>,
    /// what the job is designed to produce (vacuity guard): "success" | "failure"
    pub expect: String,
}

impl Job {
    fn to_json(&self) -> Value {
        json!({"name": self.name, "family": self.family, "argv": self.argv, "expect": self.expect,
            "files": self.files.iter().map(|(n, c)| json!([n, c])).collect::<Vec<_>>()})
    }
    fn from_json(v: &Value) -> Option<Job> {
        let files = v["files"].as_array()?.iter().map(|e| Some((e[0].as_str()?.to_string(), e[1].as_str()?.to_string()))).collect::<Option<Vec<_>>>()?;
        let argv = v["argv"].as_array()?.iter().map(|e| e.as_str().map(|s| s.to_string())).collect::<Option<Vec<_>>>()?;
        Some(Job {
            name: v["name"].as_str()?.to_string(),
            family: v["family"].as_str()?.to_string(),
            files,
            argv,
            expect: v["expect"].as_str().unwrap_or("").to_string(),
        })
    }
    /// key for deviations that show up between executions that differ only in hash seed / schedule
    fn hash_key(&self) -> String {
        if self.family.starts_with("format-unknown-param") {
            KNOWN_FORMAT_KEY.to_string()
        } else {
            format!("C10:hash-order:{}", self.family)
        }
    }
}

/// cpu.asm — same patterns in every variant; 0 and 1 differ only in rule bodies; 2 adds equally-ranked duplicates
/// whose prefixes land in the buckets "", "l", "lo", "loa", "load", "ld".
fn cpu_asm(variant: u8) -> String {
    let b = variant == 1;
    let op = |a: &str, bb: &str| if b { bb.to_string() } else { a.to_string() };
    let mut s = String::new();
    s += "#once\n#subruledef reg\n{\n";
    s += &format!("    a => {}\n    b => {}\n    c => {}\n", op("0x0", "0x3"), op("0x1", "0x2"), op("0x2", "0x1"));
    s += "}\n#ruledef cpu\n{\n";
    s += &format!("    nop                       => {}\n", op("0x00", "0xff"));
    s += &format!("    ld {{r: reg}}, {{v: i8}}      => {}\n", op("0x1 @ r @ v", "0x9 @ r @ v"));
    s += &format!("    ld {{v: i8}}                => {}\n", op("0x20 @ v", "v @ 0x2f"));
    if variant == 2 {
        s += "    ld {v: s8}                => 0x21 @ v\n";
        s += "    ld {w: i8}                => 0x22 @ w\n";
    }
    s += &format!("    load.b {{v: u8}}            => {}\n", op("0x30 @ v", "0xb0 @ v"));
    s += &format!("    load.w {{v: u16}}           => {}\n", op("0x31 @ v", "0xb1 @ v[7:0] @ v[15:8]"));
    s += &format!("    loadx {{v: u8}}             => {}\n", op("0x32 @ v", "0xb2 @ v"));
    s += &format!("    loa {{v: u8}}               => {}\n", op("0x35 @ v", "0xb5 @ v"));
    s += &format!("    lo {{v: u8}}                => {}\n", op("0x33 @ v", "0xb3 @ v"));
    s += &format!("    l {{v: u8}}                 => {}\n", op("0x34 @ v", "0xb4 @ v"));
    if variant == 2 {
        s += "    lo {v: i8}                => 0x3a @ v\n";
        s += "    l {v: u8}                 => 0x3b @ v\n";
        s += "    l {v: u16}                => 0x3c @ v\n";
        s += "    load.b {v: i8}            => 0x3d @ v\n";
    }
    s += &format!("    add {{x: u8}}, {{y: u8}}      => {}\n", op("0x40 @ x @ y", "0xc0 @ y @ x"));
    s += &format!("    jmp {{addr: u16}}           => {}\n", op("0x50 @ addr", "0xd0 @ addr"));
    s += &format!("    {{r: reg}} <- {{v: i8}}       => {}\n", op("0x6 @ r @ v", "0xe @ r @ v"));
    s += &format!("    {{r: reg}}, {{v: u8}}         => {}\n", op("0x9 @ r @ v", "0xa @ r @ v"));
    if variant == 2 {
        // equally ranked with the rule above, but filed under another prefix of the rule index ("a,")
        s += "    a, {v: u8}                => 0xa1 @ v\n";
    }
    if variant == 2 {
        s += "    {r: reg} <- {w: i8}       => 0x7 @ r @ w\n";
        s += "    {v: u8} <- {r: reg}       => 0x8 @ r @ v\n";
    }
    s += "    call {addr: u16}, {n: u8} => asm {\n        ld a, {n}\n        jmp {addr}\n    }\n";
    s += "}\n";
    s
}

/// inc.asm — 0 base, 1 same names / different bodies, 2 nested asm block referring to an outer asm label
fn inc_asm(k: i64, variant: u8) -> String {
    let mut s = format!("K = {}\n", k);
    if variant == 1 {
        s += "#fn f(p, q, r, s) => s + r * 2 + q * 4 + p * 8\n";
        s += "#fn g(p, q) => f(p, p, q, q) + K + 1\n";
    } else {
        s += "#fn f(p, q, r, s) => p + q * 2 + r * 4 + s * 8\n";
        s += "#fn g(p, q) => f(q, p, q, p) + K\n";
    }
    s += "#ruledef\n{\n    mac {n: u8}, {m: u8} => asm {\n";
    if variant == 1 {
        s += "        l1:\n        ld {m}\n        jmp l3\n        l2:\n        add {n}, {m}\n        jmp l1\n        l3:\n        jmp l2\n        call start, {n}\n";
    } else {
        s += "        ld {n}\n        l1:\n        jmp l1\n        add {m}, {n}\n        l2:\n        jmp l2\n        l3:\n        jmp l3\n";
        s += if variant == 2 { "        call l1, {m}\n" } else { "        call start, {m}\n" };
    }
    s += "    }\n}\n";
    s
}

/// main.asm — bank: 0 base, 1 other addresses/sizes/offsets; variant: 0 base, 1 duplicate symbols,
/// 2 many children per scope, 3 unknown symbols
fn main_asm(bank: u8, variant: u8) -> String {
    let mut s = String::new();
    s += "#include \"cpu.asm\"\n#include \"cpu.asm\"\n#include \"inc.asm\"\n";
    if bank == 1 {
        s += "#bankdef code\n{\n    #addr 0x4000\n    #size 0x300\n    #outp 8 * 0x20\n}\n";
        s += "#bankdef data\n{\n    #addr 0x5000\n    #size 0x30\n    #outp 8 * 0x320\n    #fill\n}\n";
    } else {
        s += "#bankdef code\n{\n    #addr 0x8000\n    #size 0x200\n    #outp 8 * 0x10\n}\n";
        s += "#bankdef data\n{\n    #addr 0x9000\n    #size 0x20\n    #outp 8 * 0x210\n    #fill\n}\n";
    }
    s += "#bank code\nstart:\n    ld K\n    ld a, K + 1\n    add K, 2\n    a, K + 2\n.loop:\n    load.b 1\n    load.w 2\n    loadx 3\n    loa 6\n    lo 4\n    l 5\n    b <- -1\n";
    s += "    jmp .loop\n    jmp finish\n    mac 3, 4\n    call table.end, g(1, 2)\n";
    if variant == 1 {
        s += ".loop:\n    nop\nK = 6\n";
    }
    if variant == 3 {
        s += "    jmp nowhere\n    ld .nope\n    add table.nope, elsewhere\n    ld h(1)\n";
    }
    s += "finish:\n    nop\n.loop:\n    jmp .loop\n";
    if variant == 1 {
        s += "start:\n    nop\nfinish:\n    nop\n";
    }
    if variant == 2 {
        for i in 0..12 {
            s += &format!("sym{}:\n", i);
            for j in 0..10 {
                if j % 3 == 2 {
                    s += &format!(".c{} = {}\n", j, i * 16 + j);
                } else {
                    s += &format!(".l{}:\n", j);
                }
                if j == 4 {
                    s += "    nop\n..deep1:\n..deep2:\n..deep3 = 7\n..deep4:\n..deep5:\n";
                }
            }
        }
    }
    s += "#bank data\ntable:\n    #d8 f(1, 2, 3, 4), K\n    #d \"ab\"\n.end:\n    #d16 finish.loop\n    #d inchexstr(\"tbl.txt\")\n    #d incbinstr(\"bits.txt\")\n    #d incbin(\"tbl.txt\")\n";
    if variant == 1 {
        s += "table:\n    #d8 1\n";
    }
    s
}

const COMMON_ARGV: [&str; 13] = ["main.asm", "-f", "annotated,base:16,group:2", "-o", "out.txt", "--", "-f", "symbols", "-o", "out.sym", "--", "-f", "intelhex"];

fn job(name: &str, family: &str, expect: &str, cpu: u8, k: i64, inc: u8, bank: u8, main: u8, argv_extra: &[&str]) -> Job {
    let mut argv: Vec<String> = COMMON_ARGV.iter().map(|s| s.to_string()).collect();
    argv.extend(["-o", "out.hex"].iter().map(|s| s.to_string()));
    argv.extend(argv_extra.iter().map(|s| s.to_string()));
    Job {
        name: name.to_string(),
        family: family.to_string(),
        expect: expect.to_string(),
        // tbl.txt / bits.txt: read through inchexstr / incbinstr / incbin; same names, other contents when `inc` == 1
        files: vec![
            ("main.asm".to_string(), main_asm(bank, main)),
            ("cpu.asm".to_string(), cpu_asm(cpu)),
            ("inc.asm".to_string(), inc_asm(k, inc)),
            ("tbl.txt".to_string(), if inc == 1 { "fedcba98" } else { "01234567" }.to_string()),
            ("bits.txt".to_string(), if inc == 1 { "1111000010100101" } else { "0101101011110000" }.to_string()),
        ],
        argv,
    }
}

pub fn job_set() -> Vec<Job> {
    let mut v = vec![
        job("base", "base", "success", 0, 5, 0, 0, 0, &[]),
        job("rule-bodies", "rule-bodies", "success", 1, 5, 0, 0, 0, &[]),
        job("const-values", "const-values", "success", 0, 9, 0, 0, 0, &[]),
        job("bank-params", "bank-params", "success", 0, 5, 0, 1, 0, &[]),
        job("include-contents", "include-contents", "success", 0, 5, 1, 0, 0, &[]),
        job("define-override", "define-override", "success", 0, 5, 0, 0, 0, &["-dK=7"]),
        job("range-error", "range-error", "failure", 0, 300, 0, 0, 0, &[]),
        job("duplicate-symbols", "duplicate-symbols", "failure", 0, 5, 0, 0, 1, &[]),
        job("unused-defines", "unused-defines", "diagnostics", 0, 5, 0, 0, 0, &["-dA", "-dB", "-dC=3", "-dstart.zz", "-dD=false", "-dE", "-dF"]),
        job("many-children", "many-children", "success", 0, 5, 0, 0, 2, &[]),
        job("multiple-matches", "multiple-matches", "failure", 2, 5, 0, 0, 0, &[]),
        job("multiple-matches-range", "multiple-matches", "failure", 2, 300, 0, 0, 0, &[]),
        job("nested-asm-error", "nested-asm-error", "failure", 0, 5, 2, 0, 0, &[]),
        job("unknown-symbols", "unknown-symbols", "failure", 0, 5, 0, 0, 3, &[]),
    ];
    // sibling symbols declared at identical byte ranges of different files (six included modules that all start
    // with a label of the same length), and locals whose names differ only by the hygiene prefix `__`
    {
        let mut j = job("same-offset-symbols", "same-offset-symbols", "success", 0, 5, 0, 0, 0, &[]);
        let mut main = String::new();
        for i in 1..=6 {
            j.files.push((format!("mod{}.asm", i), format!("mod{}:\n    nop\n.in{}:\n    ld {}\n", i, i, i)));
        }
        main += &j.files[0].1;
        main += "#bank code\n";
        for i in [3, 1, 6, 2, 5, 4] {
            main += &format!("#include \"mod{}.asm\"\n", i);
        }
        main += "#ruledef hyg\n{\n    emitx {__t: u8} => {\n        t = __t + 1\n        asm { ld {t} }\n    }\n}\nemitx 0x10\n";
        j.files[0].1 = main;
        v.push(j);
    }
    // jobs that end in the middle of a deeply nested expression: whatever bookkeeping the parser keeps must not
    // survive into the next assembly on the same thread
    {
        let mut j = job("nesting-limit", "nesting-limit", "failure", 0, 5, 0, 0, 0, &[]);
        j.files[0].1 += &format!("deep = {}1\n", "!".repeat(80));
        v.push(j);
        let mut j = job("dangling-operator", "dangling-operator", "failure", 0, 5, 0, 0, 0, &[]);
        j.files[0].1 += "#d8 -\n";
        v.push(j);
        let mut j = job("nesting-just-below-the-limit", "nesting-below-limit", "success", 0, 5, 0, 0, 0, &[]);
        j.files[0].1 += &format!("deepok = {}1{}\n", "(".repeat(40), ")".repeat(40));
        v.push(j);
    }
    // a bank definition with several fields nobody knows: equally-ranked diagnostics from one directive
    {
        let mut j = job("bankdef-unknown-fields", "bankdef-unknown-fields", "failure", 0, 5, 0, 0, 0, &[]);
        j.files[0].1 += "#bankdef extra\n{\n    #addr 0x9000\n    #mirror 2\n    #readonly\n    #shadow 1\n    #zz 3\n    #yy\n}\n";
        v.push(j);
    }
    // two projects that include the same library file (same name, same text) at different positions of their file
    // tables, and fail inside one of the library's rules: the diagnostic points into the library file of *this* project
    {
        let lib = "#ruledef lib\n{\n    lda #{v: u8} => 0xa9 @ v\n    lda {a: u16} => 0xad @ a\n}\n";
        let argv: Vec<String> = ["main.asm", "-f", "annotated", "-o", "out.txt"].iter().map(|s| s.to_string()).collect();
        v.push(Job {
            name: "library-error-a".into(),
            family: "library-error".into(),
            expect: "failure".into(),
            files: vec![("main.asm".into(), "#include \"<std>/lib.asm\"\nlda #0x12\nlda #0x1ff\n".into()), ("<std>/lib.asm".into(), lib.into())],
            argv: argv.clone(),
        });
        v.push(Job {
            name: "library-error-b".into(),
            family: "library-error".into(),
            expect: "failure".into(),
            files: vec![
                ("main.asm".into(), "#include \"pre.asm\"\n#include \"more.asm\"\n#include \"<std>/lib.asm\"\nlda #0x12\nlda #0x1ff\n".into()),
                ("pre.asm".into(), "; a file of this project\nk0 = 1\nk1 = 2\nk2 = 3\nk3 = 4\nk4 = 5\nk5 = 6\nk6 = 7\nk7 = 8\n".into()),
                ("more.asm".into(), "; another one\nm0 = 1\nm1 = 2\nm2 = 3\nm3 = 4\nm4 = 5\nm5 = 6\nm6 = 7\nm7 = 8\n".into()),
                ("<std>/lib.asm".into(), lib.into()),
            ],
            argv,
        });
    }
    // several root files on one command line: they are assembled in the order given
    {
        let mut j = job("several-roots", "several-roots", "success", 0, 5, 0, 0, 0, &[]);
        for (n, t) in [("tail1.asm", "#bank code\ntail1:\n    nop\n"), ("tail2.asm", "#bank code\ntail2:\n    ld 1\n"), ("tail3.asm", "#bank code\ntail3:\n    jmp tail1\n")] {
            j.files.push((n.to_string(), t.to_string()));
        }
        j.argv.splice(1..1, ["tail3.asm", "tail1.asm", "tail2.asm"].iter().map(|s| s.to_string()));
        v.push(j);
    }
    // the two format-string jobs: same files as `base`, equally-ranked unknown format parameters
    let mut f1 = job("format-unknown-param-2", "format-unknown-param", "failure", 0, 5, 0, 0, 0, &[]);
    f1.argv = ["main.asm", "-f", "binary,foo:1,bar:2", "-o", "out.txt"].iter().map(|s| s.to_string()).collect();
    let mut f2 = job("format-unknown-param-4", "format-unknown-param", "failure", 0, 5, 0, 0, 0, &[]);
    f2.argv = ["main.asm", "-f", "annotated,base:16,group:2", "-o", "out.txt", "--", "-f", "intelhex,addr_unit:16,zzz:1,yyy:2,xxx,www:", "-o", "out.hex"].iter().map(|s| s.to_string()).collect();
    v.push(f1);
    v.push(f2);
    v
}

// ------------------------------------------------------------------------------------------------
// The record of one execution
// ------------------------------------------------------------------------------------------------

const FORMATS: [&str; 23] = [
    "binary", "annotated", "annotated,base:2,group:3", "binstr", "hexstr", "bindump", "hexdump", "mif", "intelhex", "intelhex,addr_unit:16", "deccomma", "hexcomma", "decspace",
    "hexspace", "decc", "hexc", "logisim8", "logisim16", "addrspan", "tcgame", "tcgamebin", "symbols", "mesen-mlb",
];
const WRITE_CANDIDATES: [&str; 6] = ["out.txt", "out.sym", "out.hex", "main.bin", "main.txt", "main.mlb"];

#[derive(Clone, Debug, PartialEq, Eq, Hash)]
pub struct Record {
    /// driver::drive returned Ok
    pub ok: bool,
    pub panicked: bool,
    pub bits: Option<String>,
    /// every output format; None = the formatter panicked
    pub formats: Vec<(String, Option<Vec<u8>>)>,
    /// files written through the file server
    pub written: Vec<(String, Vec<u8>)>,
    /// Report::print_all without colours; None = printing panicked
    pub diagnostics: Option<Vec<u8>>,
}

fn hex(b: &[u8]) -> String {
    let mut s = String::with_capacity(b.len() * 2);
    for x in b {
        s += &format!("{:02x}", x);
    }
    s
}
fn unhex(s: &str) -> Option<Vec<u8>> {
    if s.len() % 2 != 0 {
        return None;
    }
    (0..s.len() / 2).map(|i| u8::from_str_radix(s.get(2 * i..2 * i + 2)?, 16).ok()).collect()
}
fn show(b: &[u8]) -> String {
    let t = String::from_utf8_lossy(b);
    if t.len() > 600 {
        let mut cut = 600;
        while !t.is_char_boundary(cut) {
            cut -= 1;
        }
        format!("{}… [{} bytes]", &t[..cut], b.len())
    } else {
        t.to_string()
    }
}

impl Record {
    fn to_json(&self) -> Value {
        json!({
            "ok": self.ok, "panicked": self.panicked, "bits": self.bits,
            "formats": self.formats.iter().map(|(n, b)| json!([n, b.as_ref().map(|b| hex(b))])).collect::<Vec<_>>(),
            "written": self.written.iter().map(|(n, b)| json!([n, hex(b)])).collect::<Vec<_>>(),
            "diagnostics": self.diagnostics.as_ref().map(|b| hex(b)),
        })
    }
    fn from_json(v: &Value) -> Option<Record> {
        let mut formats = vec![];
        for e in v["formats"].as_array()? {
            let b = match &e[1] {
                Value::Null => None,
                x => Some(unhex(x.as_str()?)?),
            };
            formats.push((e[0].as_str()?.to_string(), b));
        }
        let mut written = vec![];
        for e in v["written"].as_array()? {
            written.push((e[0].as_str()?.to_string(), unhex(e[1].as_str()?)?));
        }
        Some(Record {
            ok: v["ok"].as_bool()?,
            panicked: v["panicked"].as_bool()?,
            bits: v["bits"].as_str().map(|s| s.to_string()),
            formats,
            written,
            diagnostics: match &v["diagnostics"] {
                Value::Null => None,
                x => Some(unhex(x.as_str()?)?),
            },
        })
    }
    fn summary(&self) -> Value {
        json!({"ok": self.ok, "panicked": self.panicked, "bits_len": self.bits.as_ref().map(|b| b.len()),
            "hex": self.bits.as_ref().map(|b| { let h = run::bits_to_hex(b); if h.len() > 160 { format!("{}…", &h[..160]) } else { h } }),
            "formats": self.formats.len(), "formats_panicked": self.formats.iter().filter(|f| f.1.is_none()).map(|f| f.0.clone()).collect::<Vec<_>>(),
            "written": self.written.iter().map(|w| format!("{} ({} bytes)", w.0, w.1.len())).collect::<Vec<_>>(),
            "diagnostics": self.diagnostics.as_ref().map(|d| show(d))})
    }
    /// the fields in which two records differ, with both values
    fn diff(&self, other: &Record) -> Value {
        let mut d = serde_json::Map::new();
        if self.ok != other.ok {
            d.insert("ok".into(), json!([self.ok, other.ok]));
        }
        if self.panicked != other.panicked {
            d.insert("panicked".into(), json!([self.panicked, other.panicked]));
        }
        if self.bits != other.bits {
            d.insert("bits(hex)".into(), json!([self.bits.as_ref().map(|b| run::bits_to_hex(b)), other.bits.as_ref().map(|b| run::bits_to_hex(b))]));
        }
        let names: Vec<&String> = self.formats.iter().map(|f| &f.0).chain(other.formats.iter().map(|f| &f.0)).collect();
        let mut seen: Vec<&String> = vec![];
        for n in names {
            if seen.contains(&n) {
                continue;
            }
            seen.push(n);
            let a = self.formats.iter().find(|f| &f.0 == n).map(|f| f.1.as_ref().map(|b| show(b)));
            let b = other.formats.iter().find(|f| &f.0 == n).map(|f| f.1.as_ref().map(|b| show(b)));
            let ra = self.formats.iter().find(|f| &f.0 == n).map(|f| &f.1);
            let rb = other.formats.iter().find(|f| &f.0 == n).map(|f| &f.1);
            if ra != rb {
                d.insert(format!("format `{}`", n), json!([a, b]));
            }
        }
        if self.written != other.written {
            d.insert(
                "written".into(),
                json!([self.written.iter().map(|w| json!([w.0, show(&w.1)])).collect::<Vec<_>>(), other.written.iter().map(|w| json!([w.0, show(&w.1)])).collect::<Vec<_>>()]),
            );
        }
        if self.diagnostics != other.diagnostics {
            d.insert("diagnostics".into(), json!([self.diagnostics.as_ref().map(|b| show(b)), other.diagnostics.as_ref().map(|b| show(b))]));
        }
        Value::Object(d)
    }
}

fn output_formats() -> Vec<(String, driver::OutputFormat)> {
    let mut v = vec![];
    for f in FORMATS {
        let mut rep = diagn::Report::new();
        let of = driver::parse_output_format(&mut rep, f).unwrap_or_else(|_| panic!("harness: format string `{}` is not accepted", f));
        v.push((f.to_string(), of));
    }
    v
}

/// Execute one job in this process on the calling thread and take its record.
pub fn run_job(job: &Job) -> Record {
    let files: Vec<(String, Vec<u8>)> = job.files.iter().map(|(n, c)| (n.clone(), c.as_bytes().to_vec())).collect();
    let mut fs = run::mock(&files);
    let mut report = diagn::Report::new();
    let mut argv: Vec<String> = vec!["customasm".to_string(), "-q".to_string()];
    argv.extend(job.argv.iter().cloned());
    let r = catch_unwind(AssertUnwindSafe(|| driver::drive(&mut report, &argv, &mut fs)));
    let mut rec = Record { ok: false, panicked: false, bits: None, formats: vec![], written: vec![], diagnostics: None };
    match r {
        Ok(Ok(res)) => {
            rec.ok = true;
            if let Some(out) = &res.output {
                rec.bits = Some(run::bits_of(out));
                if let (Some(decls), Some(defs)) = (&res.decls, &res.defs) {
                    for (name, of) in output_formats() {
                        let b = catch_unwind(AssertUnwindSafe(|| driver::format_output(&fs, decls, defs, out, of))).ok();
                        rec.formats.push((name, b));
                    }
                }
            }
        }
        Ok(Err(())) => {}
        Err(_) => rec.panicked = true,
    }
    for c in WRITE_CANDIDATES {
        let wn = format!("{}{}", c, util::FILESERVER_MOCK_WRITE_FILENAME_SUFFIX);
        let mut dummy = diagn::Report::new();
        if let Ok(h) = fs.get_handle(&mut dummy, None, &wn) {
            if let Ok(b) = fs.get_bytes(&mut dummy, None, h) {
                rec.written.push((c.to_string(), b));
            }
        }
    }
    rec.diagnostics = catch_unwind(AssertUnwindSafe(|| {
        let mut buf: Vec<u8> = vec![];
        report.print_all(&mut buf, &fs, false);
        buf
    }))
    .ok();
    rec
}

fn on_fresh_thread<T: Send + 'static>(f: impl FnOnce() -> T + Send + 'static) -> T {
    std::thread::Builder::new().stack_size(8 << 20).spawn(f).expect("spawn").join().expect("harness thread panicked")
}

// ------------------------------------------------------------------------------------------------
// Fresh-process baseline (this binary re-invoked) and the real binary
// ------------------------------------------------------------------------------------------------

/// Child mode: read the job file, run the job alone and first on the main thread, print the record.
fn child_main(path: &str) -> ! {
    let text = std::fs::read_to_string(path).unwrap_or_else(|e| {
        eprintln!("c10 child: cannot read {}: {}", path, e);
        std::process::exit(2)
    });
    let job = serde_json::from_str::<Value>(&text).ok().and_then(|v| Job::from_json(&v)).unwrap_or_else(|| {
        eprintln!("c10 child: bad job file");
        std::process::exit(2)
    });
    let rec = run_job(&job);
    println!("{}", rec.to_json());
    std::process::exit(0)
}

struct Scratch {
    dir: std::path::PathBuf,
}
impl Scratch {
    fn new(ctx: &Ctx) -> Scratch {
        let base = std::env::var("VERIF_SCRATCH").unwrap_or_else(|_| format!("{}/.build/scratch", ctx.verif));
        let dir = std::path::PathBuf::from(base).join(format!("c10-{}", std::process::id()));
        let _ = std::fs::remove_dir_all(&dir);
        std::fs::create_dir_all(&dir).expect("create scratch dir");
        Scratch { dir }
    }
}
impl Drop for Scratch {
    fn drop(&mut self) {
        let _ = std::fs::remove_dir_all(&self.dir);
    }
}

fn fresh_process_record(scratch: &Scratch, job: &Job, tag: &str) -> Result<Record, String> {
    let path = scratch.dir.join(format!("job-{}-{}.json", job.name, tag));
    std::fs::write(&path, job.to_json().to_string()).map_err(|e| format!("write job file: {}", e))?;
    let exe = std::env::current_exe().map_err(|e| format!("current_exe: {}", e))?;
    let out = std::process::Command::new(exe)
        .arg(ID)
        .env(CHILD_ENV, &path)
        .env("RUST_BACKTRACE", "0")
        .stdin(std::process::Stdio::null())
        .output()
        .map_err(|e| format!("spawn engine child: {}", e))?;
    let _ = std::fs::remove_file(&path);
    if !out.status.success() {
        return Err(format!("engine child exited with {:?}: {}", out.status.code(), String::from_utf8_lossy(&out.stderr)));
    }
    let text = String::from_utf8_lossy(&out.stdout);
    let line = text.lines().rev().find(|l| l.starts_with('{')).ok_or_else(|| "engine child printed no record".to_string())?;
    serde_json::from_str::<Value>(line).ok().and_then(|v| Record::from_json(&v)).ok_or_else(|| "engine child printed an unreadable record".to_string())
}


/// All sequences of 1..=maxlen jobs that start with `first`, in length-then-lexicographic order, executed
/// back to back on the calling thread; the last record of each is compared with the baseline.
fn history_shard(jobs: &[Job], baseline: &[Record], first: usize, maxlen: u32) -> Value {
    let k = jobs.len() as u64;
    let mut evals = 0u64;
    let mut seqs = 0u64;
    let mut by_len = vec![0u64; maxlen as usize + 1];
    let mut nontrivial: Vec<u64> = vec![];
    let mut devs = Devs::default();
    let mut samples: Vec<Value> = vec![];
    for i in 0..seq_count(k, maxlen - 1) {
        let mut seq = vec![first];
        seq.extend(seq_decode(i, k, maxlen - 1));
        let mut last: Option<Record> = None;
        for &j in &seq {
            last = Some(run_job(&jobs[j]));
            evals += 1;
        }
        seqs += 1;
        by_len[seq.len()] += 1;
        let j = *seq.last().unwrap();
        let rec = last.unwrap();
        if seq.len() >= 2 {
            nontrivial.push(fnv(&("history", &seq)));
        }
        let kind = if seq.len() == 1 { "history-len1" } else { "history" };
        devs.observe(j, kind, rec != baseline[j], || {
            json!({"sequence_names": seq.iter().map(|&x| jobs[x].name.clone()).collect::<Vec<_>>(), "sequence": seq_json(jobs, &seq), "diff(baseline, observed)": baseline[j].diff(&rec)})
        });
        if i % 997 == 1 && samples.len() < 1 {
            samples.push(json!({"history": seq.iter().map(|&x| jobs[x].name.clone()).collect::<Vec<_>>(), "last_record": rec.summary()}));
        }
    }
    let classes: serde_json::Map<String, Value> = by_len.iter().enumerate().filter(|(_, n)| **n > 0).map(|(len, n)| (format!("history-len{}", len), json!(n))).collect();
    json!({"evals": evals, "seqs": seqs, "classes": classes, "nontrivial": nontrivial, "samples": samples,
        "obs": devs.map.iter().map(|((j, kind), (bad, total, ex))| json!([j, kind, total, bad, ex])).collect::<Vec<_>>()})
}

/// Every ordered pair (a, b), b over all jobs: two fresh free-running threads started together, each executing
/// its job `reps` times; every record is compared with the baseline.
fn pair_shard(jobs: &[Job], baseline: &[Record], a: usize, reps: usize) -> Value {
    let mut evals = 0u64;
    let mut nontrivial: Vec<u64> = vec![];
    let mut devs = Devs::default();
    for b in 0..jobs.len() {
        let barrier = std::sync::Arc::new(std::sync::Barrier::new(2));
        let mut handles = vec![];
        for &j in &[a, b] {
            let jb = jobs[j].clone();
            let bar = barrier.clone();
            handles.push(
                std::thread::Builder::new()
                    .stack_size(8 << 20)
                    .spawn(move || {
                        bar.wait();
                        (0..reps).map(|_| run_job(&jb)).collect::<Vec<Record>>()
                    })
                    .expect("spawn"),
            );
        }
        let results: Vec<Vec<Record>> = handles.into_iter().map(|h| h.join().expect("harness thread panicked")).collect();
        for (side, &j) in [a, b].iter().enumerate() {
            for (r, rec) in results[side].iter().enumerate() {
                evals += 1;
                nontrivial.push(fnv(&("pair", a, b, side, r)));
                devs.observe(j, "placement-thread-pair", *rec != baseline[j], || {
                    json!({"placement": "two concurrent threads", "pair_names": [jobs[a].name, jobs[b].name], "side": side, "repetition": r,
                        "sequence": seq_json(jobs, &[a, b]), "diff(baseline, observed)": baseline[j].diff(rec)})
                });
            }
        }
    }
    json!({"evals": evals, "seqs": jobs.len(), "classes": {"placement-thread-pair": evals}, "nontrivial": nontrivial, "samples": [],
        "obs": devs.map.iter().map(|((j, kind), (bad, total, ex))| json!([j, kind, total, bad, ex])).collect::<Vec<_>>()})
}

const KINDS: [&str; 8] = ["fresh-engine-process", "history-len1", "history", "placement-main-thread", "placement-fresh-thread", "placement-thread-pair", "fresh-real-process", "?"];

fn merge_shard(l: &mut Local, devs: &mut Devs, v: &Value) {
    l.evaluations += v["evals"].as_u64().unwrap_or(0);
    if let Some(c) = v["classes"].as_object() {
        for (name, n) in c {
            *l.classes.entry(name.clone()).or_insert(0) += n.as_u64().unwrap_or(0);
        }
    }
    for h in v["nontrivial"].as_array().cloned().unwrap_or_default() {
        l.nontrivial.insert(h.as_u64().unwrap_or(0));
    }
    for o in v["obs"].as_array().cloned().unwrap_or_default() {
        let (j, kind, total, bad) = (o[0].as_u64().unwrap_or(0) as usize, o[1].as_str().unwrap_or(""), o[2].as_u64().unwrap_or(0), o[3].as_u64().unwrap_or(0));
        let kind: &'static str = KINDS.iter().find(|k| **k == kind).copied().unwrap_or("?");
        let e = devs.map.entry((j, kind)).or_insert((0, 0, vec![]));
        e.0 += bad;
        e.1 += total;
        for ex in o[4].as_array().cloned().unwrap_or_default() {
            if e.2.len() < 2 {
                e.2.push(ex);
            }
        }
    }
    for smp in v["samples"].as_array().cloned().unwrap_or_default() {
        l.sample(|| smp);
    }
}

fn child_hist_main(path: &str) -> ! {
    let v: Value = std::fs::read_to_string(path).ok().and_then(|t| serde_json::from_str(&t).ok()).unwrap_or_else(|| {
        eprintln!("c10 child: cannot read {}", path);
        std::process::exit(2)
    });
    let jobs: Option<Vec<Job>> = v["jobs"].as_array().and_then(|a| a.iter().map(Job::from_json).collect());
    let baseline: Option<Vec<Record>> = v["baseline"].as_array().and_then(|a| a.iter().map(Record::from_json).collect());
    let (Some(jobs), Some(baseline)) = (jobs, baseline) else {
        eprintln!("c10 child: bad shard file");
        std::process::exit(2)
    };
    let first = v["first"].as_u64().unwrap_or(0) as usize;
    let bound = v["bound"].as_u64().unwrap_or(1) as u32;
    match v["mode"].as_str() {
        Some("hist") => println!("{}", history_shard(&jobs, &baseline, first, bound)),
        Some("pairs") => println!("{}", pair_shard(&jobs, &baseline, first, bound as usize)),
        _ => {
            eprintln!("c10 child: bad shard mode");
            std::process::exit(2)
        }
    }
    std::process::exit(0)
}

fn shard_process(scratch: &Scratch, jobs: &[Job], baseline: &[Record], mode: &str, first: usize, bound: u32) -> Result<Value, String> {
    let path = scratch.dir.join(format!("shard-{}-{}.json", mode, first));
    let body = json!({"mode": mode, "jobs": jobs.iter().map(|j| j.to_json()).collect::<Vec<_>>(), "baseline": baseline.iter().map(|r| r.to_json()).collect::<Vec<_>>(), "first": first, "bound": bound});
    std::fs::write(&path, body.to_string()).map_err(|e| format!("write shard file: {}", e))?;
    let exe = std::env::current_exe().map_err(|e| format!("current_exe: {}", e))?;
    let out = std::process::Command::new(exe)
        .arg(ID)
        .env(CHILD_HIST_ENV, &path)
        .env("RUST_BACKTRACE", "0")
        .stdin(std::process::Stdio::null())
        .output()
        .map_err(|e| format!("spawn engine child: {}", e))?;
    let _ = std::fs::remove_file(&path);
    if !out.status.success() {
        return Err(format!("engine child exited with {:?}: {}", out.status.code(), String::from_utf8_lossy(&out.stderr)));
    }
    let text = String::from_utf8_lossy(&out.stdout);
    let line = text.lines().rev().find(|l| l.starts_with('{')).ok_or_else(|| "engine child printed no result".to_string())?;
    serde_json::from_str::<Value>(line).map_err(|e| format!("engine child result unreadable: {}", e))
}

/// What one run of the real binary shows to the outside.
#[derive(Clone, Debug, PartialEq, Eq)]
struct ProcObs {
    exit: Option<i32>,
    stdout: Vec<u8>,
    stderr: Vec<u8>,
    /// every file in the working directory afterwards that is not an unchanged input
    files: Vec<(String, Vec<u8>)>,
}

impl ProcObs {
    fn crashed(&self) -> bool {
        !matches!(self.exit, Some(0) | Some(1))
    }
    fn diff(&self, o: &ProcObs) -> Value {
        let mut d = serde_json::Map::new();
        if self.exit != o.exit {
            d.insert("exit".into(), json!([self.exit, o.exit]));
        }
        if self.stdout != o.stdout {
            d.insert("stdout".into(), json!([show(&self.stdout), show(&o.stdout)]));
        }
        if self.stderr != o.stderr {
            d.insert("stderr".into(), json!([show(&self.stderr), show(&o.stderr)]));
        }
        if self.files != o.files {
            d.insert("files".into(), json!([self.files.iter().map(|w| json!([w.0, show(&w.1)])).collect::<Vec<_>>(), o.files.iter().map(|w| json!([w.0, show(&w.1)])).collect::<Vec<_>>()]));
        }
        Value::Object(d)
    }
}

fn real_argv(job: &Job) -> Vec<String> {
    let mut a = job.argv.clone();
    a.extend(["--", "-p", "-f", "annotated,base:2,group:8", "--", "-p", "-f", "symbols"].iter().map(|s| s.to_string()));
    a
}

fn real_process(scratch: &Scratch, bin: &str, job: &Job, tag: &str) -> Result<ProcObs, String> {
    let dir = scratch.dir.join(format!("run-{}-{}", job.name, tag));
    std::fs::create_dir_all(&dir).map_err(|e| format!("mkdir: {}", e))?;
    for (n, c) in &job.files {
        if let Some(parent) = dir.join(n).parent() {
            std::fs::create_dir_all(parent).map_err(|e| format!("mkdir: {}", e))?;
        }
        std::fs::write(dir.join(n), c).map_err(|e| format!("write input: {}", e))?;
    }
    let out = std::process::Command::new(bin)
        .args(real_argv(job))
        .current_dir(&dir)
        .env("RUST_BACKTRACE", "0")
        .stdin(std::process::Stdio::null())
        .output()
        .map_err(|e| format!("spawn {}: {}", bin, e))?;
    let mut files = vec![];
    let mut names: Vec<String> = std::fs::read_dir(&dir).map_err(|e| format!("read_dir: {}", e))?.filter_map(|e| e.ok()).map(|e| e.file_name().to_string_lossy().to_string()).collect();
    names.sort();
    for n in names {
        let bytes = std::fs::read(dir.join(&n)).unwrap_or_default();
        match job.files.iter().find(|f| f.0 == n) {
            Some(f) if f.1.as_bytes() == &bytes[..] => {}
            Some(_) => files.push((format!("{} (input, modified)", n), bytes)),
            None => files.push((n, bytes)),
        }
    }
    let _ = std::fs::remove_dir_all(&dir);
    Ok(ProcObs { exit: out.status.code(), stdout: out.stdout, stderr: out.stderr, files })
}

// ------------------------------------------------------------------------------------------------
// Deviation bookkeeping: one violation per (job, exploration kind)
// ------------------------------------------------------------------------------------------------

#[derive(Default)]
struct Devs {
    /// (job index, kind) -> (deviating observations, total observations, first examples)
    map: BTreeMap<(usize, &'static str), (u64, u64, Vec<Value>)>,
}
impl Devs {
    fn observe(&mut self, job: usize, kind: &'static str, deviates: bool, example: impl FnOnce() -> Value) {
        let e = self.map.entry((job, kind)).or_insert((0, 0, vec![]));
        e.1 += 1;
        if deviates {
            e.0 += 1;
            if e.2.len() < 2 {
                e.2.push(example());
            }
        }
    }
}

fn seq_json(jobs: &[Job], seq: &[usize]) -> Value {
    json!(seq.iter().map(|&j| jobs[j].to_json()).collect::<Vec<_>>())
}

// ------------------------------------------------------------------------------------------------

pub fn run(ctx: &Ctx) -> Report {
    if let Ok(p) = std::env::var(CHILD_ENV) {
        child_main(&p);
    }
    if let Ok(p) = std::env::var(CHILD_HIST_ENV) {
        child_hist_main(&p);
    }
    let mut rep = Report::new(
        "exploration",
        "differential (record of a job after a history / on a thread / in a process == record of the job alone, first, in a fresh process); \
         one evaluation = one execution of one job; non-trivial = an execution that is compared with the baseline while sharing file names, mnemonics, \
         symbol names and format strings with a different job executed before it or concurrently with it (history of length >= 2, thread pair), \
         or a repeated fresh process (repetition >= 2); distinct by (exploration, coordinates)",
    );
    let jobs = job_set();
    let k = jobs.len();
    let maxlen: u32 = if ctx.thorough { 4 } else { 3 };
    let n_base: usize = if ctx.thorough { 32 } else { 16 };
    let n_fresh_threads: usize = if ctx.thorough { 32 } else { 16 };
    let pair_reps: usize = if ctx.thorough { 8 } else { 3 };
    let n_proc: usize = if ctx.thorough { 64 } else { 8 };
    let scratch = Scratch::new(ctx);
    let mut l = Local::new();
    let mut devs = Devs::default();
    let t_start = std::time::Instant::now();
    let mut phase_wall: Vec<(String, f64)> = vec![];

    // ---- fresh-process baselines (this binary re-invoked): job alone, first, main thread ----
    let base_runs: Vec<Result<Record, String>> = (0..k * n_base).into_par_iter().map(|i| fresh_process_record(&scratch, &jobs[i / n_base], &format!("b{}", i % n_base))).collect();
    let mut baseline: Vec<Record> = vec![];
    for j in 0..k {
        let mut first: Option<Record> = None;
        for r in 0..n_base {
            match &base_runs[j * n_base + r] {
                Err(e) => {
                    rep.machinery_error = Some(format!("baseline of job `{}`: {}", jobs[j].name, e));
                    return rep;
                }
                Ok(rec) => {
                    l.eval();
                    l.class("baseline-fresh-process");
                    match &first {
                        None => first = Some(rec.clone()),
                        Some(f) => {
                            l.nontrivial(&("baseline", j, r));
                            devs.observe(j, "fresh-engine-process", rec != f, || json!({"repetition": r, "diff(baseline, observed)": f.diff(rec)}));
                        }
                    }
                }
            }
        }
        baseline.push(first.unwrap());
    }
    // vacuity guards on the job set itself
    for (j, jb) in jobs.iter().enumerate() {
        let b = &baseline[j];
        let good = match jb.expect.as_str() {
            "success" => b.ok && !b.panicked && b.bits.is_some() && b.formats.len() == FORMATS.len() && b.written.len() >= 3 && b.diagnostics.as_ref().map(|d| d.is_empty()).unwrap_or(false),
            // (`unused define` is reported as an error while driver::drive still returns Ok and writes the files)
            "diagnostics" => !b.panicked && b.diagnostics.as_ref().map(|d| !d.is_empty()).unwrap_or(false),
            _ => !b.ok && !b.panicked && b.diagnostics.as_ref().map(|d| !d.is_empty()).unwrap_or(false),
        };
        l.class(if b.ok { "record-success" } else { "record-failure" });
        if !good && rep.machinery_error.is_none() {
            rep.machinery_error = Some(format!("job `{}` does not produce the designed outcome `{}`: {}", jb.name, jb.expect, b.summary()));
        }
    }
    {
        // the colliding jobs must really differ in their results, else a stale cache would go unnoticed
        let succ: Vec<usize> = (0..k).filter(|&j| jobs[j].expect == "success").collect();
        for a in 0..succ.len() {
            for b in a + 1..succ.len() {
                if baseline[succ[a]].formats == baseline[succ[b]].formats && rep.machinery_error.is_none() {
                    rep.machinery_error = Some(format!("jobs `{}` and `{}` are designed to collide but produce identical output", jobs[succ[a]].name, jobs[succ[b]].name));
                }
            }
        }
        let fail: Vec<usize> = (0..k).filter(|&j| jobs[j].expect != "success" && !jobs[j].family.starts_with("format-unknown-param")).collect();
        for a in 0..fail.len() {
            for b in a + 1..fail.len() {
                if baseline[fail[a]].diagnostics == baseline[fail[b]].diagnostics && rep.machinery_error.is_none() {
                    rep.machinery_error = Some(format!("jobs `{}` and `{}` produce identical diagnostics", jobs[fail[a]].name, jobs[fail[b]].name));
                }
            }
        }
    }

    phase_wall.push(("baselines".into(), t_start.elapsed().as_secs_f64()));
    // ---- (a) HISTORIES: exhaustive; one fresh single-threaded process per first job, sequences back to back ----
    let nseq = seq_count(k as u64, maxlen) - 1;
    let shard_results: Vec<Result<Value, String>> = (0..k).into_par_iter().map(|first| shard_process(&scratch, &jobs, &baseline, "hist", first, maxlen)).collect();
    let mut seqs_run = 0u64;
    for (first, r) in shard_results.iter().enumerate() {
        match r {
            Ok(v) => {
                seqs_run += v["seqs"].as_u64().unwrap_or(0);
                merge_shard(&mut l, &mut devs, v);
            }
            Err(e) => {
                rep.machinery_error = Some(format!("history shard {}: {}", first, e));
                return rep;
            }
        }
    }
    if seqs_run != nseq {
        rep.machinery_error = Some(format!("history shards ran {} sequences, expected {}", seqs_run, nseq));
        return rep;
    }

    phase_wall.push(("histories".into(), t_start.elapsed().as_secs_f64()));
    // ---- (b) PLACEMENT: main thread, fresh threads, every ordered pair on two free-running threads ----
    for j in 0..k {
        let rec = run_job(&jobs[j]);
        l.eval();
        l.class("placement-main-thread");
        devs.observe(j, "placement-main-thread", rec != baseline[j], || json!({"placement": "main thread", "diff(baseline, observed)": baseline[j].diff(&rec)}));
        for t in 0..n_fresh_threads {
            let jb = jobs[j].clone();
            let rec = on_fresh_thread(move || run_job(&jb));
            l.eval();
            l.class("placement-fresh-thread");
            devs.observe(j, "placement-fresh-thread", rec != baseline[j], || json!({"placement": "fresh thread", "repetition": t, "diff(baseline, observed)": baseline[j].diff(&rec)}));
        }
    }
    let pair_results: Vec<Result<Value, String>> = (0..k).into_par_iter().map(|a| shard_process(&scratch, &jobs, &baseline, "pairs", a, pair_reps as u32)).collect();
    for (a, r) in pair_results.iter().enumerate() {
        match r {
            Ok(v) => merge_shard(&mut l, &mut devs, v),
            Err(e) => {
                rep.machinery_error = Some(format!("pair shard {}: {}", a, e));
                return rep;
            }
        }
    }

    phase_wall.push(("placement".into(), t_start.elapsed().as_secs_f64()));
    // ---- (c) PROCESSES: the real binary, fresh process per run, all runs free-running in parallel ----
    let bin = std::env::var("VERIF_REAL_BIN").unwrap_or_default();
    if bin.is_empty() || !std::path::Path::new(&bin).exists() {
        rep.machinery_error = Some(format!("VERIF_REAL_BIN (`{}`) does not exist", bin));
        return rep;
    }
    let procs: Vec<Result<ProcObs, String>> = (0..k * n_proc).into_par_iter().map(|i| real_process(&scratch, &bin, &jobs[i / n_proc], &format!("p{}", i % n_proc))).collect();
    let mut inproc_vs_binary_equal = 0u64;
    let mut inproc_vs_binary_checked = 0u64;
    let mut inproc_vs_binary_mismatch: Vec<String> = vec![];
    for j in 0..k {
        let first = match &procs[j * n_proc] {
            Ok(p) => p.clone(),
            Err(e) => {
                rep.machinery_error = Some(format!("real binary, job `{}`: {}", jobs[j].name, e));
                return rep;
            }
        };
        // harness cross-check (no verdict): the files the binary writes are the files the in-process record holds
        for (n, b) in &baseline[j].written {
            inproc_vs_binary_checked += 1;
            if first.files.iter().any(|f| &f.0 == n && &f.1 == b) {
                inproc_vs_binary_equal += 1;
            } else {
                inproc_vs_binary_mismatch.push(format!("{}:{}", jobs[j].name, n));
            }
        }
        l.class(match first.exit {
            Some(0) => "process-exit0",
            Some(1) => "process-exit1",
            _ => "process-crash",
        });
        for r in 0..n_proc {
            let p = match &procs[j * n_proc + r] {
                Ok(p) => p,
                Err(e) => {
                    rep.machinery_error = Some(format!("real binary, job `{}`: {}", jobs[j].name, e));
                    return rep;
                }
            };
            l.eval();
            l.class("process-run");
            if r == 0 {
                continue;
            }
            l.nontrivial(&("process", j, r));
            let (mut a, mut b) = (first.clone(), p.clone());
            if a.crashed() || b.crashed() {
                // a panic message carries the thread id: stderr of a crashed run is not compared
                l.unspecified += 1;
                a.stderr.clear();
                b.stderr.clear();
            }
            devs.observe(j, "fresh-real-process", a != b, || json!({"argv": real_argv(&jobs[j]), "repetition": r, "diff(first run, this run)": a.diff(&b)}));
        }
    }

    phase_wall.push(("processes".into(), t_start.elapsed().as_secs_f64()));
    rep.extra("cumulative_wall_s_per_phase", json!(phase_wall));
    // ---- verdicts ----
    for j in 0..k {
        // a job whose record already varies between executions that differ only in hash seed or schedule
        // (only executions that are alone and first in their process count here: they differ in nothing else)
        let alone_unstable = ["fresh-engine-process", "history-len1", "fresh-real-process"]
            .iter()
            .any(|kind| devs.map.get(&(j, *kind)).map(|e| e.0 > 0).unwrap_or(false));
        let mut distinct: Vec<Value> = vec![];
        for ((jj, kind), (bad, total, examples)) in &devs.map {
            if *jj != j || *bad == 0 {
                continue;
            }
            let key = if alone_unstable {
                jobs[j].hash_key()
            } else {
                match *kind {
                    "history" => format!("C10:history:{}", jobs[j].family),
                    _ => format!("C10:placement:{}", jobs[j].family),
                }
            };
            distinct.push(json!(kind));
            l.violation(Violation {
                property: ID,
                key,
                what: format!(
                    "job `{}`: exploration `{}`: {} of {} observations differ from {}",
                    jobs[j].name,
                    kind,
                    bad,
                    total,
                    if *kind == "fresh-real-process" { "the first fresh process of the real binary" } else { "the fresh-process baseline record" }
                ),
                case: json!({"kind": kind, "job": jobs[j].to_json(), "deviating": bad, "observations": total, "examples": examples,
                    "varies_when_run_alone": alone_unstable,
                    "expected": if *kind == "fresh-real-process" { json!("stdout, stderr, exit status and written files identical in every fresh process") } else { baseline[j].summary() },
                    "observed": examples.first().cloned().unwrap_or(Value::Null)}),
            });
        }
    }

    rep.absorb(l);
    rep.extra("jobs", json!(jobs.iter().map(|j| json!({"name": j.name, "argv": j.argv, "expect": j.expect})).collect::<Vec<_>>()));
    rep.extra("record_fields", json!({"formats": FORMATS, "written_file_candidates": WRITE_CANDIDATES, "diagnostics": "Report::print_all, colours off"}));
    rep.extra(
        "explorations",
        json!({
            "histories": {"bound": format!("all sequences of 1..={} jobs over {} jobs", maxlen, k), "sequences": nseq, "exhaustive": true,
                "note": "one fresh single-threaded engine process per first job; inside it the sequences starting with that job run back to back in canonical order on the main thread, so the real history of each sequence is a superset of the stated one"},
            "placement": {"note": "main-thread and fresh-thread placements run in the parent engine process one after another; each ordered-pair shard (first job fixed) runs in its own engine process", "main_thread": k, "fresh_threads": k * n_fresh_threads, "ordered_pairs_on_two_threads": k * k, "repetitions_per_pair_side": pair_reps, "exhaustive": true},
            "processes": {"engine_baselines_per_job": n_base, "real_binary_runs_per_job": n_proc, "exhaustive": false},
        }),
    );
    rep.extra("sampled_dimensions", json!(["hash seed", "os schedule"]));
    rep.extra(
        "sampled_dimensions_note",
        json!("RandomState keys are drawn per thread and incremented per map, so every execution (also inside a history) sees fresh keys; \
               this is repetition, not enumeration: for a 2-key map n fresh seeds miss one order with probability 2^-(n-1). \
               Counts inside a reported violation (`deviating`) therefore vary from run to run; the set of violation keys does not (up to that probability)."),
    );
    rep.extra("harness_cross_check_inprocess_written_files_equal_binary", json!({"checked": inproc_vs_binary_checked, "equal": inproc_vs_binary_equal, "mismatch": inproc_vs_binary_mismatch}));
    rep.assumptions = vec![
        "loom/shuttle do not apply: the crate contains no synchronisation operation (no Mutex, atomic, channel, thread_local, static mut), so a controlled scheduler has no scheduling point; 'on different threads' is decided by placement enumeration".into(),
        "std's RandomState cannot be seeded without replacing the map type, so hash-seed dependence is sampled by repetition (fresh maps, fresh threads, fresh processes), not enumerated".into(),
        "the in-process record is taken through driver::drive on the mock file server with -q; the process-level record (stdout, stderr, exit status, files) is taken from $VERIF_REAL_BIN".into(),
        "stderr of a run that dies with a panic is not compared (the message carries a thread id)".into(),
    ];
    for c in ["baseline-fresh-process", "record-success", "record-failure", "history-len2", "history-len3", "placement-main-thread", "placement-fresh-thread", "placement-thread-pair", "process-run", "process-exit0", "process-exit1"] {
        rep.require_class(c);
    }
    if ctx.thorough {
        rep.require_class("history-len4");
    }
    drop(scratch);
    rep
}

pub fn replay(ctx: &Ctx, case: &Value) -> i32 {
    if let Ok(p) = std::env::var(CHILD_ENV) {
        child_main(&p);
    }
    let scratch = Scratch::new(ctx);
    super::replay_with(ctx, case, |case, l| {
        let Some(job) = Job::from_json(&case["job"]) else {
            eprintln!("replay: case has no job");
            return;
        };
        let kind = case["kind"].as_str().unwrap_or("");
        println!("job `{}` argv {:?} (kind {})", job.name, job.argv, kind);
        if kind == "fresh-real-process" {
            let bin = std::env::var("VERIF_REAL_BIN").unwrap_or_default();
            let runs: Vec<ProcObs> = (0..32).filter_map(|r| real_process(&scratch, &bin, &job, &format!("r{}", r)).ok()).collect();
            if runs.is_empty() {
                eprintln!("replay: cannot run the real binary `{}`", bin);
                return;
            }
            if let Some(p) = runs.iter().find(|p| **p != runs[0]) {
                println!("32 fresh processes: differ: {}", runs[0].diff(p));
                l.violation(Violation { property: ID, key: "replay".into(), what: "fresh processes of the real binary still differ".into(), case: json!({"job": job.to_json(), "diff": runs[0].diff(p)}) });
            } else {
                println!("32 fresh processes: identical");
            }
            return;
        }
        let mut base: Vec<Record> = vec![];
        for r in 0..8 {
            match fresh_process_record(&scratch, &job, &format!("r{}", r)) {
                Ok(x) => base.push(x),
                Err(e) => {
                    eprintln!("replay: {}", e);
                    return;
                }
            }
        }
        println!("baseline: {}", base[0].summary());
        let mut bad: Option<Value> = base.iter().find(|b| **b != base[0]).map(|b| json!({"where": "between fresh processes", "diff": base[0].diff(b)}));
        // re-run the recorded sequences (or the job alone) 32 times each on fresh threads
        let mut seqs: Vec<Vec<Job>> = vec![vec![job.clone()]];
        if let Some(ex) = case["examples"].as_array() {
            for e in ex {
                if let Some(s) = e["sequence"].as_array() {
                    let js: Vec<Job> = s.iter().filter_map(Job::from_json).collect();
                    if !js.is_empty() && (js.last() == Some(&job) || (kind == "placement-thread-pair" && js.contains(&job))) {
                        seqs.push(js);
                    }
                }
            }
        }
        if kind == "placement-thread-pair" {
            // the recorded pairs again, concurrently, on two fresh threads, 64 executions per side and round
            for s in seqs.iter().filter(|s| s.len() == 2) {
                for _ in 0..8 {
                    if bad.is_some() {
                        break;
                    }
                    let barrier = std::sync::Arc::new(std::sync::Barrier::new(2));
                    let handles: Vec<_> = s
                        .iter()
                        .cloned()
                        .map(|jb| {
                            let bar = barrier.clone();
                            std::thread::Builder::new()
                                .stack_size(8 << 20)
                                .spawn(move || {
                                    bar.wait();
                                    (0..64).map(|_| run_job(&jb)).collect::<Vec<Record>>()
                                })
                                .expect("spawn")
                        })
                        .collect();
                    let results: Vec<Vec<Record>> = handles.into_iter().map(|h| h.join().expect("harness thread panicked")).collect();
                    for (side, jb) in s.iter().enumerate() {
                        if jb != &job {
                            continue;
                        }
                        if let Some(rec) = results[side].iter().find(|r| **r != base[0]) {
                            bad = Some(json!({"where": format!("concurrently with `{}`", s[1 - side].name), "diff": base[0].diff(rec)}));
                        }
                    }
                }
            }
        }
        for s in seqs.iter().filter(|s| s.last() == Some(&job)) {
            for _ in 0..32 {
                if bad.is_some() {
                    break;
                }
                let s2 = s.clone();
                let rec = on_fresh_thread(move || s2.iter().map(run_job).last().unwrap());
                if rec != base[0] {
                    bad = Some(json!({"where": format!("after the history {:?}", s.iter().map(|j| j.name.clone()).collect::<Vec<_>>()), "diff": base[0].diff(&rec)}));
                }
            }
        }
        match bad {
            Some(b) => {
                println!("differs: {}", b);
                l.violation(Violation { property: ID, key: "replay".into(), what: "record still differs from the fresh-process baseline".into(), case: json!({"job": job.to_json(), "observed": b}) });
            }
            None => println!("all re-executions equal the baseline"),
        }
    })
}
