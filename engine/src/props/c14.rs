//! C14 — file inclusion is relative, confined, acyclic and once-only where asked.
//!
//! Exhaustive families (q = quick tier, t = thorough tier; every tier enumerates its bound completely):
//!  1. PATHS    every string of <= 3 (q) / <= 4 (t) components from {`..`, `.`, ``, `sub`, `x.asm`, `<std>`} joined by
//!              `/` or `\` (q: one style per string, t: every mix), with no / a `/` / a `\` leading separator, x 5 current
//!              files -> `util::filename_navigate` against `c14_model::navigate` (Ok/Err and normal form) and, independently
//!              of the model, the confinement predicate `c14_model::confinement`.
//!  2. GRAPHS   every include graph over <= 3 (q) / <= 4 (t) files with <= 2 `#include` per file x every `#once` subset x
//!              directory layouts (each file in `.` or `sub/`, equal base names in both) x six path spellings x `#once`
//!              first/last line x include lines separated by a marker or adjacent -> marker bytes against the DFS
//!              expansion `c14_model::expand` on the mock file server (with an open budget, so an undiagnosed loop is an
//!              observation). t: the graphs over <= 3 files also with the real binary in a scratch directory.
//!  2b. RESOLVE every path string of family 1 inside `#include`, `incbin`, `incbinstr`, `inchexstr`, written in a root file, in a
//!              root file inside `sub/`, in an included file inside `sub/`, in a root file given as `./main.asm`; the tree
//!              holds distinct payloads at `x.asm`, `sub/x.asm`, … and sentinel payloads at names only an escaping path
//!              can produce -> the file the path model names must be the one read; a sentinel payload in the output is
//!              a violation whatever the model says. t: the same with the real binary run inside a scratch tree, sentinel
//!              files one and two levels above it, under `strace`: no path outside the tree may reach the OS.
//!  3. RANGES   file length 0..4 units x start {absent, 0..6} x length {absent, 0..6} for `incbin` (bytes), `incbinstr`
//!              (binary digits), `inchexstr` (hex digits), several contents and text layouts -> `c14_model::slice`.
use super::c14_model as model;
use super::c14_model::{Graph, Nav, Outcome, Slice};
use crate::run;
use crate::stats::*;
use customasm::*;
use serde_json::{json, Value};
use std::collections::{BTreeMap, BTreeSet};
use std::panic::{catch_unwind, AssertUnwindSafe};
use std::path::{Path, PathBuf};

pub const ID: &str = "C14";

pub const KEY_STD_ESCAPE: &str = "C14:std-prefix-dotdot-escape";
pub const KEY_STD_DISK: &str = "C14:std-prefix-reads-disk-file";
pub const KEY_INCSTR_EMPTY: &str = "C14:incstr-empty-file";
pub const KEY_INCBIN_EMPTY: &str = "C14:incbin-empty-file-range-accepted";

// =================================================================================================
// helpers

fn bits_bytes(bits: &str) -> Option<Vec<u8>> {
    if bits.len() % 8 != 0 {
        return None;
    }
    Some(bits.as_bytes().chunks(8).map(|c| c.iter().fold(0u8, |a, b| (a << 1) | (b - b'0'))).collect())
}

fn hex_bytes(h: &str) -> Option<Vec<u8>> {
    let h = h.trim();
    if h.len() % 2 != 0 || !h.bytes().all(|c| c.is_ascii_hexdigit()) {
        return None;
    }
    Some((0..h.len() / 2).map(|i| u8::from_str_radix(&h[2 * i..2 * i + 2], 16).unwrap()).collect())
}

/// text of a customasm string literal denoting `s`
fn lit(s: &str) -> String {
    format!("\"{}\"", s.replace('\\', "\\\\").replace('"', "\\\""))
}

fn files_json(files: &[(String, Vec<u8>)]) -> Value {
    Value::Object(files.iter().map(|(n, c)| (n.clone(), json!(String::from_utf8_lossy(c)))).collect())
}

/// A mock file server with an open budget: an inclusion loop that is not diagnosed ends in a clean
/// observation ("runaway") instead of a stack overflow of the harness.
struct BudgetFs {
    inner: util::FileServerMock,
    opens: usize,
    budget: usize,
    exceeded: bool,
}

impl util::FileServer for BudgetFs {
    fn get_handle(&mut self, report: &mut diagn::Report, span: Option<diagn::Span>, filename: &str) -> Result<util::FileServerHandle, ()> {
        self.opens += 1;
        if self.opens > self.budget {
            self.exceeded = true;
            report.error("harness: open budget exceeded");
            return Err(());
        }
        self.inner.get_handle(report, span, filename)
    }
    fn get_filename(&self, h: util::FileServerHandle) -> &str {
        self.inner.get_filename(h)
    }
    fn get_bytes(&self, report: &mut diagn::Report, span: Option<diagn::Span>, h: util::FileServerHandle) -> Result<Vec<u8>, ()> {
        self.inner.get_bytes(report, span, h)
    }
    fn write_bytes(&mut self, report: &mut diagn::Report, span: Option<diagn::Span>, filename: &str, data: &Vec<u8>) -> Result<(), ()> {
        self.inner.write_bytes(report, span, filename, data)
    }
}

const OPEN_BUDGET: usize = 400;

/// assemble on the mock server with an open budget; returns the observation and "budget exceeded"
fn assemble_budget(files: &[(String, Vec<u8>)], root: &str) -> (run::Obs, bool) {
    let mut fs = BudgetFs { inner: run::mock(files), opens: 0, budget: OPEN_BUDGET, exceeded: false };
    let mut report = diagn::Report::new();
    let aopts = run::Opts::default().to_asm();
    let r = catch_unwind(AssertUnwindSafe(|| asm::assemble(&mut report, &aopts, &mut fs, &[root])));
    let exceeded = fs.exceeded;
    let raw = match r {
        Ok(res) => run::Raw { report, result: Some(res), fs: fs.inner, panicked: None },
        Err(e) => run::Raw { report, result: None, fs: fs.inner, panicked: Some(run::panic_text(e)) },
    };
    (run::observe(&raw), exceeded)
}

// ---- real binary ---------------------------------------------------------------------------------

#[derive(Clone, Debug)]
struct ProcObs {
    exit: Option<i32>,
    timed_out: bool,
    stdout: String,
    stderr: String,
}

impl ProcObs {
    fn summary(&self) -> Value {
        let cut = |s: &str| s.chars().take(400).collect::<String>();
        json!({"exit": self.exit, "timed_out": self.timed_out, "stdout": cut(&self.stdout), "stderr": cut(&self.stderr)})
    }
    /// clean success: exit 0
    fn success(&self) -> bool {
        self.exit == Some(0)
    }
    /// clean failure: the documented error exit, not a signal / panic (101) / timeout
    fn failure(&self) -> bool {
        self.exit == Some(1)
    }
    fn crashed(&self) -> bool {
        !self.success() && !self.failure()
    }
}

fn run_proc(program: &str, args: &[String], cwd: &Path) -> ProcObs {
    use std::io::Read;
    use std::process::{Command, Stdio};
    let mut child = match Command::new(program).args(args).current_dir(cwd).env("RUST_BACKTRACE", "0").stdin(Stdio::null()).stdout(Stdio::piped()).stderr(Stdio::piped()).spawn() {
        Ok(c) => c,
        Err(e) => return ProcObs { exit: None, timed_out: false, stdout: String::new(), stderr: format!("spawn failed: {}", e) },
    };
    let t0 = std::time::Instant::now();
    let mut timed_out = false;
    let status = loop {
        match child.try_wait() {
            Ok(Some(st)) => break Some(st),
            Ok(None) => {
                if t0.elapsed().as_secs() >= 30 {
                    let _ = child.kill();
                    timed_out = true;
                    break child.wait().ok();
                }
                std::thread::sleep(std::time::Duration::from_micros(300));
            }
            Err(_) => break None,
        }
    };
    let mut out = Vec::new();
    let mut err = Vec::new();
    if let Some(mut s) = child.stdout.take() {
        let _ = s.read_to_end(&mut out);
    }
    if let Some(mut s) = child.stderr.take() {
        let _ = s.read_to_end(&mut err);
    }
    ProcObs { exit: status.and_then(|s| s.code()), timed_out, stdout: String::from_utf8_lossy(&out).to_string(), stderr: String::from_utf8_lossy(&err).to_string() }
}

struct RealEnv {
    bin: String,
    base: PathBuf,
}

impl RealEnv {
    fn new(tag: &str) -> Result<RealEnv, String> {
        let bin = std::env::var("VERIF_REAL_BIN").map_err(|_| "VERIF_REAL_BIN is not set".to_string())?;
        if !Path::new(&bin).is_file() {
            return Err(format!("real binary {} does not exist (run with NEED_BIN=1)", bin));
        }
        let scratch = std::env::var("VERIF_SCRATCH").map_err(|_| "VERIF_SCRATCH is not set".to_string())?;
        let base = PathBuf::from(scratch).join(format!("c14-{}-{}", tag, std::process::id()));
        let _ = std::fs::remove_dir_all(&base);
        std::fs::create_dir_all(&base).map_err(|e| format!("cannot create {}: {}", base.display(), e))?;
        let base = base.canonicalize().map_err(|e| e.to_string())?;
        Ok(RealEnv { bin, base })
    }
    fn cleanup(&self) {
        let _ = std::fs::remove_dir_all(&self.base);
    }
}

fn write_tree(root: &Path, files: &[(String, Vec<u8>)]) -> std::io::Result<()> {
    for (n, c) in files {
        let p = root.join(n);
        if let Some(d) = p.parent() {
            std::fs::create_dir_all(d)?;
        }
        std::fs::write(&p, c)?;
    }
    Ok(())
}

/// paths handed to the OS by a traced run: (syscall, path, succeeded)
fn parse_strace(text: &str) -> Vec<(String, String, bool)> {
    let mut v = vec![];
    for line in text.lines() {
        // optional "[pid N] " / "N " prefix
        let line = line.trim_start();
        let line = if line.starts_with("[pid") { line.splitn(2, ']').nth(1).unwrap_or("").trim_start() } else { line };
        let line = line.trim_start_matches(|c: char| c.is_ascii_digit()).trim_start();
        let Some(par) = line.find('(') else { continue };
        let name = &line[..par];
        if !name.chars().all(|c| c.is_ascii_alphanumeric() || c == '_') || name.is_empty() {
            continue;
        }
        let rest = &line[par + 1..];
        // first quoted string
        let Some(q) = rest.find('"') else { continue };
        // an fd-relative call with a real fd (not AT_FDCWD) and an empty path is an fstat, skip
        let before = &rest[..q];
        let mut path = String::new();
        let mut chars = rest[q + 1..].chars();
        let mut closed = false;
        while let Some(c) = chars.next() {
            match c {
                '\\' => match chars.next() {
                    Some('n') => path.push('\n'),
                    Some('t') => path.push('\t'),
                    Some(o) => path.push(o),
                    None => {}
                },
                '"' => {
                    closed = true;
                    break;
                }
                o => path.push(o),
            }
        }
        if !closed {
            continue;
        }
        if path.is_empty() && !before.contains("AT_FDCWD") {
            continue;
        }
        let ok = match line.rfind(" = ") {
            Some(i) => !line[i + 3..].trim_start().starts_with('-'),
            None => false,
        };
        v.push((name.to_string(), path, ok));
    }
    v
}

const SYSTEM_PREFIXES: [&str; 7] = ["/lib", "/lib64", "/usr", "/etc", "/proc", "/sys", "/dev"];

/// every traced path that lexically lies outside `tree` and is not a system path
fn outside_accesses(trace: &[(String, String, bool)], tree: &str, bin: &str) -> Vec<(String, String, bool)> {
    let mut out = vec![];
    for (sc, p, ok) in trace {
        if sc == "execve" {
            continue;
        }
        let abs = model::lexical_abs(tree, p);
        if abs == tree || abs.starts_with(&format!("{}/", tree)) {
            continue;
        }
        if abs == bin || SYSTEM_PREFIXES.iter().any(|s| abs == *s || abs.starts_with(&format!("{}/", s))) {
            continue;
        }
        out.push((sc.clone(), p.clone(), *ok));
    }
    out
}

// =================================================================================================
// family 1: PATHS

const COMPS: [&str; 6] = ["..", ".", "", "sub", "x.asm", "<std>"];
const CURS: [&str; 5] = ["main.asm", "sub/main.asm", "./main.asm", "/abs/p/main.asm", "<std>/cpu/x.asm"];

/// every path string of 1..=maxc components from `comps`, joined by `/` or `\` (uniform, or every mix when
/// `mixed`), with no / a `/` / a `\` leading separator; duplicates removed, first occurrence order
fn path_strings(comps: &[&str], maxc: usize, mixed: bool) -> Vec<String> {
    let mut seen = BTreeSet::new();
    let mut out = vec![];
    let k = comps.len() as u64;
    for n in 1..=maxc {
        for i in 0..k.pow(n as u32) {
            let d = decode(i, &vec![k; n]);
            let cs: Vec<&str> = d.iter().rev().map(|x| comps[*x as usize]).collect();
            let sep_variants: Vec<Vec<char>> = if n == 1 {
                vec![vec![]]
            } else if mixed {
                (0..(1u64 << (n - 1))).map(|m| (0..n - 1).map(|b| if (m >> b) & 1 == 0 { '/' } else { '\\' }).collect()).collect()
            } else {
                let mut v = vec![vec!['/'; n - 1], vec!['\\'; n - 1]];
                // the library prefix is spelled `<std>/`; what follows it may use the other slash style
                if cs[0] == "<std>" && n >= 3 {
                    let mut m = vec!['\\'; n - 1];
                    m[0] = '/';
                    v.push(m);
                }
                v
            };
            for seps in &sep_variants {
                let mut body = String::new();
                for (j, c) in cs.iter().enumerate() {
                    if j > 0 {
                        body.push(seps[j - 1]);
                    }
                    body += c;
                }
                for lead in ["", "/", "\\"] {
                    let s = format!("{}{}", lead, body);
                    if seen.insert(s.clone()) {
                        out.push(s);
                    }
                }
            }
        }
    }
    out
}

fn plain_path(rel: &str) -> bool {
    !rel.contains('\\') && !rel.starts_with('/') && rel.split('/').all(|c| !(c.is_empty() || c == "." || c == ".." || c == "<std>"))
}

fn subject_navigate(cur: &str, rel: &str) -> Result<Result<String, ()>, String> {
    catch_unwind(AssertUnwindSafe(|| {
        let mut report = diagn::Report::new();
        util::filename_navigate(&mut report, diagn::Span::new_dummy(), cur, rel)
    }))
    .map_err(run::panic_text)
}

fn judge_path(cur: &str, rel: &str, l: &mut Local) {
    l.eval();
    if !plain_path(rel) {
        l.nontrivial(&("path", cur, rel));
    }
    let want = model::navigate(cur, rel);
    let case = |observed: Value| json!({"kind": "path", "current": cur, "relative": rel, "expected": format!("{:?}", want), "observed": observed});
    let res = match subject_navigate(cur, rel) {
        Ok(r) => r,
        Err(p) => {
            l.violation(Violation { property: ID, key: "path:panic".into(), what: format!("filename_navigate({:?}, {:?}) panicked", cur, rel), case: case(json!({ "panic": p })) });
            return;
        }
    };
    let observed = json!(format!("{:?}", res));
    if let Some(w) = model::confinement(cur, rel, &res) {
        let key = if rel.starts_with(model::STD_PREFIX) { KEY_STD_ESCAPE.to_string() } else { "path:confinement".to_string() };
        l.violation(Violation { property: ID, key, what: format!("filename_navigate({:?}, {:?}) = {:?}: {}", cur, rel, res, w), case: case(observed.clone()) });
    }
    match &want {
        Nav::Unspecified(why) => {
            l.unspecified += 1;
            l.class("path-unspecified");
            l.count(&format!("path unspecified: {}", why), 1);
        }
        Nav::Ok(m) => {
            l.class("path-ok");
            l.traces_validated += 1;
            match &res {
                Ok(r) if r == m => {}
                Ok(r) => l.violation(Violation { property: ID, key: "path:normal-form".into(), what: format!("filename_navigate({:?}, {:?}) = {:?}, expected {:?}", cur, rel, r, m), case: case(observed) }),
                Err(()) => l.violation(Violation { property: ID, key: "path:valid-path-rejected".into(), what: format!("filename_navigate({:?}, {:?}) rejected, expected {:?}", cur, rel, m), case: case(observed) }),
            }
        }
        Nav::Err => {
            l.class("path-err");
            l.traces_validated += 1;
            if let Ok(r) = &res {
                l.violation(Violation { property: ID, key: "path:invalid-path-accepted".into(), what: format!("filename_navigate({:?}, {:?}) = {:?}, expected a rejection", cur, rel, r), case: case(observed) });
            }
        }
    }
    l.sample(|| json!({"current": cur, "relative": rel, "model": format!("{:?}", want)}));
}

// =================================================================================================
// family 2: GRAPHS

/// path spelling styles for `#include`
pub const STYLES: [&str; 6] = ["plain", "dotted", "backslash", "detour", "from-root", "doubled"];

#[derive(Clone, Debug, PartialEq, Eq, Hash)]
struct GraphCase {
    g: Graph,
    /// file i lives in `sub/`
    layout: Vec<bool>,
    style: usize,
    once_at_end: bool,
    /// no marker byte between the two includes of a file (the directives are adjacent lines)
    adjacent: bool,
}

/// file names: the k-th file of a directory is called `a.asm`, `b.asm`, … so equal base names occur in
/// different directories
fn file_names(layout: &[bool]) -> Vec<String> {
    let mut counts = [0usize; 2];
    layout
        .iter()
        .map(|s| {
            let d = *s as usize;
            let name = format!("{}{}.asm", if *s { "sub/" } else { "" }, (b'a' + counts[d] as u8) as char);
            counts[d] += 1;
            name
        })
        .collect()
}

fn spell(from_sub: bool, to_full: &str, style: usize) -> String {
    let to_sub = to_full.starts_with("sub/");
    let base = to_full.rsplit('/').next().unwrap();
    let plain = match (from_sub, to_sub) {
        (false, _) => to_full.to_string(),
        (true, true) => base.to_string(),
        (true, false) => format!("../{}", base),
    };
    match STYLES[style] {
        "plain" => plain,
        "dotted" => format!("./{}", plain.replace('/', "/./")),
        "backslash" => plain.replace('/', "\\"),
        "detour" => format!("x/../{}", plain),
        "from-root" => format!("/{}", to_full),
        "doubled" => format!("{}", plain.replace('/', "//")),
        _ => unreachable!(),
    }
}

fn graph_files(c: &GraphCase) -> (Vec<String>, Vec<(String, Vec<u8>)>, Vec<(String, String, String)>) {
    let names = file_names(&c.layout);
    let mut files = vec![];
    let mut spellings = vec![];
    for f in 0..names.len() {
        let mut t = String::new();
        if c.g.once[f] && !c.once_at_end {
            t += "#once\n";
        }
        for (pos, &to) in c.g.includes[f].iter().enumerate() {
            if !(c.adjacent && pos > 0) {
                t += &format!("#d8 0x{:02x}\n", model::marker(f, pos));
            }
            let sp = spell(c.layout[f], &names[to], c.style);
            t += &format!("#include {}\n", lit(&sp));
            spellings.push((names[f].clone(), sp, names[to].clone()));
        }
        t += &format!("#d8 0x{:02x}\n", model::marker(f, c.g.includes[f].len()));
        if c.g.once[f] && c.once_at_end {
            t += "#once\n";
        }
        files.push((names[f].clone(), t.into_bytes()));
    }
    (names, files, spellings)
}

fn graph_case_json(c: &GraphCase, real: bool) -> Value {
    json!({"kind": "graph", "real": real, "includes": c.g.includes, "once": c.g.once, "layout": c.layout, "style": STYLES[c.style], "once_at_end": c.once_at_end, "adjacent": c.adjacent})
}

fn graph_from_json(v: &Value) -> Option<(GraphCase, bool)> {
    let includes: Vec<Vec<usize>> = v["includes"].as_array()?.iter().map(|a| a.as_array().map(|a| a.iter().filter_map(|x| x.as_u64().map(|x| x as usize)).collect()).unwrap_or_default()).collect();
    let once: Vec<bool> = v["once"].as_array()?.iter().filter_map(|x| x.as_bool()).collect();
    let layout: Vec<bool> = v["layout"].as_array()?.iter().filter_map(|x| x.as_bool()).collect();
    let style = STYLES.iter().position(|s| Some(*s) == v["style"].as_str())?;
    Some((GraphCase { g: Graph { includes, once }, layout, style, once_at_end: v["once_at_end"].as_bool()?, adjacent: v["adjacent"].as_bool().unwrap_or(false) }, v["real"].as_bool().unwrap_or(false)))
}

/// what was observed, reduced to the three things the oracle may look at
struct GraphObs {
    crashed: Option<String>,
    runaway: bool,
    success: bool,
    failure: bool,
    bytes: Option<Vec<u8>>,
    summary: Value,
}

fn judge_graph(c: &GraphCase, real: Option<(&RealEnv, u64)>, l: &mut Local) -> Option<String> {
    let (_names, files, spellings) = graph_files(c);
    // generator/model self-check: every spelled path must denote the intended file in the path model
    for (from, sp, to) in &spellings {
        if model::navigate(from, sp) != Nav::Ok(to.clone()) {
            return Some(format!("generator: `{}` written in `{}` does not denote `{}` in the path model", sp, from, to));
        }
    }
    let exp = model::expand(&c.g);
    for s in &exp.states {
        l.state(s);
    }
    l.transitions += exp.transitions;
    l.eval();
    let in_sub = c.layout.iter().any(|b| *b);
    if exp.repeated || exp.skipped || exp.outcome == Outcome::Cycle || in_sub {
        l.nontrivial(&("graph", c));
    }
    let pfx = if real.is_some() { "real-graph" } else { "graph" };
    l.class(&format!(
        "{}-{}",
        pfx,
        match (&exp.outcome, exp.guarded_cycle) {
            (Outcome::Cycle, _) => "cycle",
            (Outcome::Complete, true) => "cycle-through-once-file",
            (Outcome::Complete, false) =>
                if exp.skipped {
                    "once-skip"
                } else if exp.repeated {
                    "repeated-splice"
                } else {
                    "tree"
                },
        }
    ));
    let want: Vec<u8> = exp.markers.iter().filter(|(f, p)| !(c.adjacent && *p == 1 && c.g.includes[*f].len() == 2)).map(|(f, p)| model::marker(*f, *p)).collect();

    let obs = match real {
        None => {
            let (o, runaway) = assemble_budget(&files, &files[0].0);
            GraphObs { crashed: o.panicked.clone(), runaway, success: o.success(), failure: o.failure(), bytes: if o.ok { bits_bytes(&o.bits) } else { None }, summary: o.summary() }
        }
        Some((env, idx)) => {
            let dir = env.base.join(format!("g{}", idx));
            if let Err(e) = write_tree(&dir, &files) {
                return Some(format!("cannot write tree: {}", e));
            }
            let p = run_proc(&env.bin, &[files[0].0.clone(), "-q".into(), "-f".into(), "hexstr".into(), "-p".into()], &dir);
            let _ = std::fs::remove_dir_all(&dir);
            GraphObs {
                crashed: if p.crashed() { Some(format!("exit {:?} timed_out {}", p.exit, p.timed_out)) } else { None },
                runaway: p.timed_out,
                success: p.success(),
                failure: p.failure(),
                bytes: if p.success() { hex_bytes(&p.stdout) } else { None },
                summary: p.summary(),
            }
        }
    };
    l.traces_validated += 1;

    let bad: Option<(&str, String)> = if obs.runaway {
        Some(("runaway", "inclusion does not terminate".into()))
    } else if obs.crashed.is_some() {
        Some(("crash", format!("crashed: {}", obs.crashed.clone().unwrap())))
    } else {
        let exact = obs.success && obs.bytes.as_deref() == Some(&want[..]);
        match (&exp.outcome, exp.guarded_cycle) {
            (Outcome::Cycle, _) => (!obs.failure).then(|| ("cycle-not-reported", "a cycle of inclusions not broken by #once was not reported as an error".to_string())),
            (Outcome::Complete, true) => (!(obs.failure || exact)).then(|| ("once-splice", "cycle through a #once file: neither an error nor the once-only expansion".to_string())),
            (Outcome::Complete, false) => {
                if exact {
                    None
                } else if !obs.success {
                    Some(("valid-graph-rejected", "an acyclic inclusion graph was rejected".to_string()))
                } else if exp.skipped {
                    Some(("once-splice", "wrong expansion of a graph with #once files".to_string()))
                } else {
                    Some(("splice-order", "wrong expansion order / multiplicity".to_string()))
                }
            }
        }
    };
    if let Some((k, what)) = bad {
        let mut case = graph_case_json(c, real.is_some());
        case["files"] = files_json(&files);
        case["root"] = json!(files[0].0);
        case["expected"] = json!({"outcome": format!("{:?}", exp.outcome), "cycle_through_once_file": exp.guarded_cycle, "bytes": want.iter().map(|b| format!("{:02x}", b)).collect::<String>()});
        case["observed"] = obs.summary.clone();
        l.violation(Violation { property: ID, key: format!("{}:{}", pfx, k), what: format!("{} (root {}, style {})", what, files[0].0, STYLES[c.style]), case });
    }
    l.sample(|| json!({"files": files_json(&files), "expected_bytes": want.iter().map(|b| format!("{:02x}", b)).collect::<String>(), "outcome": format!("{:?}", exp.outcome)}));
    None
}

/// number of include-list choices of one file among n files: none, one target, two targets
fn choices(n: u64) -> u64 {
    1 + n + n * n
}

fn graph_from_index(n: usize, idx: u64) -> Graph {
    let k = choices(n as u64);
    let mut radices = vec![k; n];
    radices.extend(vec![2u64; n]);
    let d = decode(idx, &radices);
    let mut includes = vec![];
    for f in 0..n {
        let c = d[f];
        let nn = n as u64;
        includes.push(if c == 0 {
            vec![]
        } else if c <= nn {
            vec![(c - 1) as usize]
        } else {
            vec![((c - 1 - nn) / nn) as usize, ((c - 1 - nn) % nn) as usize]
        });
    }
    let once = (0..n).map(|f| d[n + f] == 1).collect();
    Graph { includes, once }
}

fn graph_count(n: usize) -> u64 {
    choices(n as u64).pow(n as u32) * (1u64 << n)
}

#[derive(Clone, Debug)]
struct Variant {
    layout: Vec<bool>,
    style: usize,
    once_at_end: bool,
    adjacent: bool,
}

fn layouts_all(n: usize) -> Vec<Vec<bool>> {
    (0..(1u64 << n)).map(|m| (0..n).map(|b| (m >> b) & 1 == 1).collect()).collect()
}

// =================================================================================================
// family 2b: RESOLVE — the constructs on a tree with files inside and sentinels outside

const CONSTRUCTS: [&str; 8] = ["include", "incbin", "incbinstr", "inchexstr", "incbin as a rule argument", "incbin as a sub-rule operand", "incbin through a user function", "incbin inside an #assert"];
/// the function for "incbin through a user function" stands at the top of the ROOT file as well
const FN_DEF: &str = "#fn load(n) => incbin(n)\n";
/// rules for the last two constructs; they stand at the top of the ROOT file, so that for the including position
/// "sub/inc.asm included from main.asm" the rule is defined in another directory than the line that uses it: the path
/// is still relative to the file that contains the call
const ARG_RULES: &str = "#subruledef opnd\n{\n    {v} => v\n}\n#ruledef\n{\n    emitv {v} => v\n    ldo {o: opnd} => o\n}\n";
const INCLUDERS: [&str; 4] = ["root main.asm", "root sub/main.asm", "sub/inc.asm included from main.asm", "root ./main.asm"];

/// files inside the tree: (path, payload byte)
const TREE: [(&str, u8); 6] = [("x.asm", 0x11), ("sub/x.asm", 0x22), ("sub/sub/x.asm", 0x33), ("<std>/x.asm", 0x44), ("<std>/sub/x.asm", 0x55), ("sub/<std>/x.asm", 0x66)];
/// mock entries standing for files outside the tree (reachable only through a path that leaves it)
const MOCK_SENTINELS: [(&str, u8); 11] = [
    ("../x.asm", 0xe1),
    ("../../x.asm", 0xe2),
    ("../sub/x.asm", 0xe3),
    ("/x.asm", 0xe4),
    ("/sub/x.asm", 0xe5),
    ("../<std>/x.asm", 0xe6),
    ("<std>/../x.asm", 0xe7),
    ("<std>/../../x.asm", 0xe8),
    ("<std>/../sub/x.asm", 0xe9),
    ("<std>/sub/../../x.asm", 0xea),
    ("<std>/../<std>/x.asm", 0xeb),
];
/// real sentinels relative to the tree directory
const REAL_SENTINELS: [(&str, u8); 5] = [("../x.asm", 0xe1), ("../../x.asm", 0xe2), ("../sub/x.asm", 0xe3), ("../<std>/x.asm", 0xe6), ("../../sub/x.asm", 0xec)];

fn is_sentinel(b: u8) -> bool {
    b >= 0xe0
}

fn payload(construct: usize, b: u8) -> Vec<u8> {
    match CONSTRUCTS[construct] {
        "include" => format!("#d8 0x{:02x}\n", b).into_bytes(),
        "incbin" | "incbin as a rule argument" | "incbin as a sub-rule operand" | "incbin through a user function" | "incbin inside an #assert" => vec![b],
        "incbinstr" => format!("{:08b}", b).into_bytes(),
        "inchexstr" => format!("{:02x}", b).into_bytes(),
        _ => unreachable!(),
    }
}

fn construct_text(construct: usize, rel: &str) -> String {
    let inner = match CONSTRUCTS[construct] {
        "include" => format!("#include {}\n", lit(rel)),
        "incbin as a rule argument" => format!("emitv incbin({})\n", lit(rel)),
        "incbin as a sub-rule operand" => format!("ldo incbin({})\n", lit(rel)),
        "incbin through a user function" => format!("#d load({})\n", lit(rel)),
        "incbin inside an #assert" => format!("#assert incbin({r}) == incbin({r})\n#d incbin({r})\n", r = lit(rel)),
        f => format!("#d {}({})\n", f, lit(rel)),
    };
    format!("#d8 0xa5\n{}#d8 0x5a\n", inner)
}

/// (root file, file containing the construct, extra files) — `tag` makes the names unique on the real FS
fn includer_files(includer: usize, tag: &str, text: &str) -> (String, String, Vec<(String, Vec<u8>)>) {
    match includer {
        0 => (format!("main{}.asm", tag), format!("main{}.asm", tag), vec![(format!("main{}.asm", tag), text.as_bytes().to_vec())]),
        1 => (format!("sub/main{}.asm", tag), format!("sub/main{}.asm", tag), vec![(format!("sub/main{}.asm", tag), text.as_bytes().to_vec())]),
        2 => (
            format!("main{}.asm", tag),
            format!("sub/inc{}.asm", tag),
            vec![(format!("main{}.asm", tag), format!("#include \"sub/inc{}.asm\"\n", tag).into_bytes()), (format!("sub/inc{}.asm", tag), text.as_bytes().to_vec())],
        ),
        3 => (format!("./main{}.asm", tag), format!("./main{}.asm", tag), vec![(format!("./main{}.asm", tag), text.as_bytes().to_vec())]),
        _ => unreachable!(),
    }
}

fn tree_lookup(r: &str) -> Option<u8> {
    let r = r.strip_prefix("./").unwrap_or(r);
    TREE.iter().find(|(p, _)| *p == r).map(|(_, b)| *b)
}

#[derive(Clone, Debug)]
struct ResolveCase {
    construct: usize,
    includer: usize,
    rel: String,
}

fn judge_resolve(c: &ResolveCase, real: Option<(&RealEnv, &Path, u64)>, l: &mut Local) -> Option<String> {
    let tag = match real {
        Some((_, _, i)) => format!("_{}", i),
        None => String::new(),
    };
    let text = construct_text(c.construct, &c.rel);
    let (root, holder, mut inc_files) = includer_files(c.includer, &tag, &text);
    if c.construct >= 4 && c.construct <= 6 {
        // the rules / the function go to the top of the root file
        for f in inc_files.iter_mut() {
            if f.0 == root {
                let mut t = if c.construct == 6 { FN_DEF } else { ARG_RULES }.as_bytes().to_vec();
                t.extend(f.1.iter());
                f.1 = t;
            }
        }
    }
    let want = model::navigate(&holder, &c.rel);
    let literal_std = c.rel.starts_with(model::STD_PREFIX);
    l.eval();
    if !plain_path(&c.rel) {
        l.nontrivial(&("resolve", real.is_some(), c.construct, c.includer, &c.rel));
    }
    let pfx = if real.is_some() { "real-resolve" } else { "resolve" };

    // expected observable
    enum Want {
        Payload(u8),
        Fail,
        None,
    }
    let mut std_disk = false;
    let w = match &want {
        Nav::Ok(r) => match tree_lookup(r) {
            Some(b) => {
                if literal_std && real.is_some() {
                    // on the real file system the tree's `<std>` directory is NOT the built-in library
                    std_disk = true;
                    Want::Fail
                } else if real.is_some() && r.strip_prefix("./").unwrap_or(r).starts_with(model::STD_PREFIX) {
                    // a spelling (`/<std>/x.asm`, `sub/../<std>/x.asm`) that only *resolves* to a `<std>/` name: the
                    // statement does not say whether that names the library or the directory on disk — no verdict
                    Want::None
                } else {
                    Want::Payload(b)
                }
            }
            None => Want::Fail,
        },
        Nav::Err => Want::Fail,
        Nav::Unspecified(_) => Want::None,
    };
    l.class(&format!(
        "{}-{}",
        pfx,
        match w {
            Want::Payload(_) => "found",
            Want::Fail => "rejected-or-missing",
            Want::None => "unspecified",
        }
    ));

    // run
    struct RObs {
        crashed: bool,
        success: bool,
        failure: bool,
        bytes: Option<Vec<u8>>,
        outside: Vec<(String, String, bool)>,
        summary: Value,
    }
    let mut all_files: Vec<(String, Vec<u8>)> = vec![];
    let obs = match real {
        None => {
            // tree files are also reachable under their `./` spelling (root file given as `./main.asm`)
            for (p, b) in TREE.iter() {
                all_files.push((p.to_string(), payload(c.construct, *b)));
                all_files.push((format!("./{}", p), payload(c.construct, *b)));
            }
            for (p, b) in MOCK_SENTINELS.iter() {
                all_files.push((p.to_string(), payload(c.construct, *b)));
            }
            all_files.extend(inc_files.clone());
            let (o, runaway) = assemble_budget(&all_files, &root);
            RObs { crashed: o.panicked.is_some() || runaway, success: o.success(), failure: o.failure(), bytes: if o.ok { bits_bytes(&o.bits) } else { None }, outside: vec![], summary: o.summary() }
        }
        Some((env, tree, idx)) => {
            if let Err(e) = write_tree(tree, &inc_files) {
                return Some(format!("cannot write includer: {}", e));
            }
            let trace = tree.parent().unwrap().parent().unwrap().join(format!("trace_{}.txt", idx));
            let args: Vec<String> = vec![
                "-f".into(),
                "-s".into(),
                "4096".into(),
                "-e".into(),
                "trace=openat,open,stat,lstat,statx,newfstatat,access".into(),
                "-o".into(),
                trace.to_string_lossy().to_string(),
                env.bin.clone(),
                root.clone(),
                "-q".into(),
                "-f".into(),
                "hexstr".into(),
                "-p".into(),
            ];
            let p = run_proc("strace", &args, tree);
            let ttext = std::fs::read_to_string(&trace).unwrap_or_default();
            let _ = std::fs::remove_file(&trace);
            for (n, _) in &inc_files {
                let _ = std::fs::remove_file(tree.join(n));
            }
            if ttext.is_empty() {
                return Some(format!("strace produced no trace ({})", p.stderr.chars().take(200).collect::<String>()));
            }
            let tr = parse_strace(&ttext);
            if !tr.iter().any(|(_, p, _)| p == &root) {
                return Some(format!("trace does not show the root file {} being opened", root));
            }
            let outside = outside_accesses(&tr, &tree.to_string_lossy(), &env.bin);
            RObs { crashed: p.crashed(), success: p.success(), failure: p.failure(), bytes: if p.success() { hex_bytes(&p.stdout) } else { None }, outside, summary: p.summary() }
        }
    };
    if !matches!(w, Want::None) {
        l.traces_validated += 1;
    } else {
        l.unspecified += 1;
    }

    let mk_case = |obs: &RObs| {
        let mut case = json!({"kind": "resolve", "real": real.is_some(), "construct": CONSTRUCTS[c.construct], "includer": INCLUDERS[c.includer], "construct_index": c.construct, "includer_index": c.includer,
            "relative": c.rel, "containing_file": holder, "root": root, "includer_files": files_json(&inc_files),
            "tree": TREE.iter().map(|(p, b)| format!("{} -> {:02x}", p, b)).collect::<Vec<_>>(),
            "model": format!("{:?}", want),
            "expected": match w { Want::Payload(b) => json!(format!("a5{:02x}5a", b)), Want::Fail => json!("error"), Want::None => json!("no verdict on the result; no escape") },
            "observed": obs.summary.clone()});
        if real.is_some() {
            case["outside_accesses"] = json!(obs.outside.iter().map(|(s, p, ok)| format!("{}({}) {}", s, p, if *ok { "ok" } else { "failed" })).collect::<Vec<_>>());
            case["sentinels_outside_tree"] = json!(REAL_SENTINELS.iter().map(|(p, b)| format!("{} -> {:02x}", p, b)).collect::<Vec<_>>());
        } else {
            case["mock_sentinels"] = json!(MOCK_SENTINELS.iter().map(|(p, b)| format!("{} -> {:02x}", p, b)).collect::<Vec<_>>());
        }
        case
    };
    let descr = format!("{} {} in {} ({})", CONSTRUCTS[c.construct], lit(&c.rel), holder, INCLUDERS[c.includer]);
    let escape_key = if literal_std { KEY_STD_ESCAPE.to_string() } else { format!("{}:escape", pfx) };

    if obs.crashed {
        l.violation(Violation { property: ID, key: format!("{}:crash", pfx), what: format!("crash: {}", descr), case: mk_case(&obs) });
        return None;
    }
    // escapes: regardless of the exit status and of the model
    let included_sentinel = obs.bytes.as_ref().map(|b| b.iter().any(|x| is_sentinel(*x))).unwrap_or(false);
    if included_sentinel {
        l.violation(Violation { property: ID, key: escape_key.clone(), what: format!("content of a file outside the tree was included: {}", descr), case: mk_case(&obs) });
        return None;
    }
    if !obs.outside.is_empty() {
        l.violation(Violation { property: ID, key: escape_key, what: format!("a path outside the working directory reached the OS ({} {}): {}", obs.outside[0].0, obs.outside[0].1, descr), case: mk_case(&obs) });
        return None;
    }
    match w {
        Want::None => {}
        Want::Payload(b) => {
            if !(obs.success && obs.bytes.as_deref() == Some(&[0xa5, b, 0x5a][..])) {
                let k = if obs.success { "wrong-file" } else { "valid-path-rejected" };
                l.violation(Violation { property: ID, key: format!("{}:{}", pfx, k), what: format!("expected the file with payload {:02x}: {}", b, descr), case: mk_case(&obs) });
            }
        }
        Want::Fail => {
            if !obs.failure {
                let key = if std_disk { KEY_STD_DISK.to_string() } else { format!("{}:invalid-path-accepted", pfx) };
                let what = if std_disk { format!("a <std>/ name that is not in the built-in library was read from the disk: {}", descr) } else { format!("expected an error: {}", descr) };
                l.violation(Violation { property: ID, key, what, case: mk_case(&obs) });
            }
        }
    }
    l.sample(|| json!({"construct": CONSTRUCTS[c.construct], "relative": c.rel, "containing_file": holder, "model": format!("{:?}", want)}));
    None
}

fn setup_real_tree(env: &RealEnv, construct: usize) -> Result<PathBuf, String> {
    let tree = env.base.join(format!("r{}", construct)).join("l2").join("l1").join("tree");
    let mut files = vec![];
    for (p, b) in TREE.iter() {
        files.push((p.to_string(), payload(construct, *b)));
    }
    for (p, b) in REAL_SENTINELS.iter() {
        files.push((p.to_string(), payload(construct, *b)));
    }
    std::fs::create_dir_all(&tree).map_err(|e| e.to_string())?;
    for (n, c) in &files {
        let p = PathBuf::from(model::lexical_abs(&tree.to_string_lossy(), n));
        if !p.starts_with(&env.base) {
            return Err(format!("refusing to write {}", p.display()));
        }
        if let Some(d) = p.parent() {
            std::fs::create_dir_all(d).map_err(|e| e.to_string())?;
        }
        std::fs::write(&p, c).map_err(|e| e.to_string())?;
    }
    Ok(tree)
}

// =================================================================================================
// family 3: RANGES of the inclusion functions

const FUNCS: [&str; 3] = ["incbin", "incbinstr", "inchexstr"];
const FORMATS: [&str; 3] = ["plain", "underscores", "newlines"];

#[derive(Clone, Debug)]
struct FnCase {
    func: usize,
    /// the units of the file: bytes for incbin, digit characters otherwise
    units: Vec<u8>,
    format: usize,
    /// None = argument absent
    start: Option<usize>,
    length: Option<usize>,
}

fn fn_file_content(c: &FnCase) -> Vec<u8> {
    if c.func == 0 {
        return c.units.clone();
    }
    let mut v = vec![];
    match FORMATS[c.format] {
        "plain" => v.extend(&c.units),
        "underscores" => {
            for (i, u) in c.units.iter().enumerate() {
                if i > 0 {
                    v.push(b'_');
                }
                v.push(*u);
            }
            if c.units.is_empty() {
                v.push(b'_');
            }
        }
        _ => {
            for u in &c.units {
                v.push(*u);
                v.push(b'\n');
            }
            if c.units.is_empty() {
                v.push(b'\n');
            }
        }
    }
    v
}

fn unit_bits(func: usize, u: u8) -> String {
    match func {
        0 => format!("{:08b}", u),
        1 => ((u - b'0') & 1).to_string(),
        _ => format!("{:04b}", (u as char).to_digit(16).unwrap()),
    }
}

fn fn_program(c: &FnCase) -> String {
    let mut args = lit("f.dat");
    if let Some(s) = c.start {
        args += &format!(", {}", s);
        if let Some(n) = c.length {
            args += &format!(", {}", n);
        }
    }
    format!("#d8 0xa5\n#d {}({})\n#d8 0x5a\n", FUNCS[c.func], args)
}

fn judge_fn(c: &FnCase, l: &mut Local) {
    let prog = fn_program(c);
    let content = fn_file_content(c);
    let files = vec![("main.asm".to_string(), prog.clone().into_bytes()), ("f.dat".to_string(), content.clone())];
    let len = c.units.len();
    // the one-argument form asks for the whole file: of an empty file that is nothing, and nothing is past its end
    let want = if len == 0 && c.start.is_none() && c.length.is_none() { Slice::Range(0, 0) } else { model::slice(len, c.start.unwrap_or(0), c.length) };
    l.eval();
    if c.start.unwrap_or(0) > 0 || c.length.is_some() {
        l.nontrivial(&("fn", c.func, &c.units, c.format, c.start, c.length));
    }
    l.class(match &want {
        Slice::Range(..) => "fn-slice",
        Slice::Reject => "fn-past-end",
        Slice::Unspecified(_) => "fn-zero-length",
    });
    let obs = run::assemble_files(&files, &["main.asm"], &run::Opts::default());
    let mk = |expected: Value| {
        json!({"kind": "fn", "func": FUNCS[c.func], "func_index": c.func, "units": c.units, "format": c.format, "start": c.start, "length": c.length,
        "program": prog, "file": String::from_utf8_lossy(&content), "file_bytes": content, "expected": expected, "observed": obs.summary()})
    };
    let call = format!("{}(file of {} units, start {:?}, length {:?})", FUNCS[c.func], len, c.start, c.length);
    if obs.panicked.is_some() {
        let key = if c.func != 0 && len == 0 { KEY_INCSTR_EMPTY.to_string() } else { format!("fn:{}:panic", FUNCS[c.func]) };
        l.violation(Violation { property: ID, key, what: format!("panic: {}", call), case: mk(json!(format!("{:?}", want))) });
        return;
    }
    match &want {
        Slice::Unspecified(_) => l.unspecified += 1,
        Slice::Range(a, b) => {
            l.traces_validated += 1;
            let mut bits = "10100101".to_string();
            for u in &c.units[*a..*b] {
                bits += &unit_bits(c.func, *u);
            }
            bits += "01011010";
            if !obs.success() {
                l.violation(Violation { property: ID, key: format!("fn:{}:valid-range-rejected", FUNCS[c.func]), what: format!("valid range rejected: {}", call), case: mk(json!({ "bits": bits })) });
            } else if obs.bits != bits {
                l.violation(Violation { property: ID, key: format!("fn:{}:wrong-slice", FUNCS[c.func]), what: format!("wrong units returned: {}", call), case: mk(json!({ "bits": bits })) });
            }
        }
        Slice::Reject => {
            l.traces_validated += 1;
            if !obs.failure() {
                let key = if c.func == 0 && len == 0 { KEY_INCBIN_EMPTY.to_string() } else { format!("fn:{}:range-past-end-accepted", FUNCS[c.func]) };
                l.violation(Violation { property: ID, key, what: format!("range past the end of the file not rejected: {}", call), case: mk(json!("error")) });
            }
        }
    }
    l.sample(|| json!({"program": prog, "file": String::from_utf8_lossy(&content), "model": format!("{:?}", want)}));
}

fn fn_cases() -> Vec<FnCase> {
    let mut contents: Vec<(usize, Vec<u8>, usize)> = vec![];
    for n in 0..=4usize {
        for pat in [[0x9au8, 0x3c, 0xe7, 0x51], [0x00, 0xff, 0x80, 0x01]] {
            contents.push((0, pat[..n].to_vec(), 0));
        }
        for m in 0..(1u32 << n) {
            let digits: Vec<u8> = (0..n).map(|b| if (m >> (n - 1 - b)) & 1 == 1 { b'1' } else { b'0' }).collect();
            for f in 0..FORMATS.len() {
                contents.push((1, digits.clone(), f));
            }
        }
        for pat in ["9ac5", "05f0", "a0B7"] {
            for f in 0..FORMATS.len() {
                contents.push((2, pat.as_bytes()[..n].to_vec(), f));
            }
        }
    }
    let mut seen = BTreeSet::new();
    let mut out = vec![];
    for (func, units, format) in contents {
        if !seen.insert((func, units.clone(), format)) {
            continue;
        }
        out.push(FnCase { func, units: units.clone(), format, start: None, length: None });
        for s in 0..=6usize {
            out.push(FnCase { func, units: units.clone(), format, start: Some(s), length: None });
            for n in 0..=6usize {
                out.push(FnCase { func, units: units.clone(), format, start: Some(s), length: Some(n) });
            }
        }
    }
    out
}

// =================================================================================================

fn stash(parts: &mut Vec<(u8, Local)>, prio: u8, l: Local) {
    parts.push((prio, l));
}

pub fn run(ctx: &Ctx) -> Report {
    let mut rep = Report::new(
        "model_checking",
        "reference models c14_model::{navigate, expand, slice} + model-independent confinement / sentinel / system-call-trace predicates; \
         non-trivial = a path with a `..`, `.`, empty, `<std>` component, a backslash or a leading separator; an include graph with a cycle, \
         a repeated splice, a #once skip or a sub-directory; an inclusion-function call with a start or a length; distinct by full case coordinates",
    );
    let mut machinery: Option<String> = None;
    let mut breakdown = BTreeMap::new();
    // results are merged in a fixed priority order (real file system first) so that the few violations kept per key
    // as replay files are the most direct demonstrations
    let mut parts: Vec<(u8, Local)> = vec![];

    // ---- 1. PATHS
    let maxc = if ctx.thorough { 4 } else { 3 };
    let rels = path_strings(&COMPS, maxc, ctx.thorough);
    let mut pcases: Vec<(usize, usize)> = vec![];
    for c in 0..CURS.len() {
        for r in 0..rels.len() {
            pcases.push((c, r));
        }
    }
    stash(&mut parts, 3, par_cases(&pcases, |c, l| judge_path(CURS[c.0], &rels[c.1], l)));
    breakdown.insert("paths", json!({"components": COMPS, "max_components": maxc, "separators": if ctx.thorough { "/ and \\, every mix" } else { "/ or \\, uniform" },
        "leading": ["", "/", "\\"], "distinct_strings": rels.len(), "current_files": CURS, "cases": pcases.len()}));

    // ---- 2. GRAPHS (mock)
    let mut gstats = vec![];
    let nmax = if ctx.thorough { 4 } else { 3 };
    for n in 1..=nmax {
        let mut variants: Vec<Variant> = vec![];
        if n <= 3 {
            for layout in layouts_all(n) {
                for style in 0..STYLES.len() {
                    // `#once` on the last line and adjacent include lines: with the plain spelling in the quick tier,
                    // with every spelling (and combined) in the thorough tier
                    for once_at_end in [false, true] {
                        for adjacent in [false, true] {
                            if !ctx.thorough && (style != 0 || (once_at_end && adjacent)) && (once_at_end || adjacent) {
                                continue;
                            }
                            variants.push(Variant { layout: layout.clone(), style, once_at_end, adjacent });
                        }
                    }
                }
            }
        } else {
            // four files: flat layout with separated include lines, mixed layout with adjacent include lines
            variants.push(Variant { layout: vec![false; 4], style: 0, once_at_end: false, adjacent: false });
            variants.push(Variant { layout: vec![false, true, false, true], style: 0, once_at_end: false, adjacent: true });
        }
        let ng = graph_count(n);
        let total = ng * variants.len() as u64;
        let err = std::sync::Mutex::new(None::<String>);
        stash(&mut parts, 4, par_run(total, |i, l| {
            let v = &variants[(i / ng) as usize];
            let c = GraphCase { g: graph_from_index(n, i % ng), layout: v.layout.clone(), style: v.style, once_at_end: v.once_at_end, adjacent: v.adjacent };
            if let Some(e) = judge_graph(&c, None, l) {
                *err.lock().unwrap() = Some(e);
            }
        }));
        if let Some(e) = err.into_inner().unwrap() {
            machinery.get_or_insert(e);
        }
        gstats.push(json!({"files": n, "graphs_x_once_subsets": ng, "variants(layout,style,once position,adjacent includes)": variants.len(), "cases": total}));
    }
    breakdown.insert("graphs_mock", json!({"levels": gstats, "styles": STYLES, "includes_per_file": "0..2"}));

    // ---- 2b. RESOLVE (mock)
    let rcomps: [&str; 6] = ["..", ".", "", "sub", "x.asm", "<std>"];
    let rrels = path_strings(&rcomps, maxc, ctx.thorough);
    let mut rcases = vec![];
    for construct in 0..CONSTRUCTS.len() {
        for includer in 0..INCLUDERS.len() {
            for r in &rrels {
                rcases.push(ResolveCase { construct, includer, rel: r.clone() });
            }
        }
    }
    {
        let err = std::sync::Mutex::new(None::<String>);
        stash(&mut parts, 1, par_cases(&rcases, |c, l| {
            if let Some(e) = judge_resolve(c, None, l) {
                *err.lock().unwrap() = Some(e);
            }
        }));
        if let Some(e) = err.into_inner().unwrap() {
            machinery.get_or_insert(e);
        }
    }
    breakdown.insert("resolve_mock", json!({"constructs": CONSTRUCTS, "including_positions": INCLUDERS, "path_strings": rrels.len(), "cases": rcases.len()}));

    // ---- 2c. several root files on one command line: `#once` holds across all of them, a file without it is spliced
    //      every time; expected bytes written down by hand
    {
        let f = |n: &str, t: &str| (n.to_string(), t.as_bytes().to_vec());
        let cases: Vec<(&str, Vec<(String, Vec<u8>)>, Vec<&str>, Vec<u8>)> = vec![
            ("once file reached from two roots", vec![f("r1.asm", "#include \"o.asm\"\n#d8 1\n"), f("r2.asm", "#include \"o.asm\"\n#d8 2\n"), f("o.asm", "#once\n#d8 0x77\n")], vec!["r1.asm", "r2.asm"], vec![0x77, 1, 2]),
            ("file without once reached from two roots", vec![f("r1.asm", "#include \"o.asm\"\n#d8 1\n"), f("r2.asm", "#include \"o.asm\"\n#d8 2\n"), f("o.asm", "#d8 0x77\n")], vec!["r1.asm", "r2.asm"], vec![0x77, 1, 0x77, 2]),
            ("once file is itself the first root", vec![f("r2.asm", "#include \"o.asm\"\n#d8 2\n"), f("o.asm", "#once\n#d8 0x77\n")], vec!["o.asm", "r2.asm"], vec![0x77, 2]),
            ("once file under two spellings from two roots", vec![f("r1.asm", "#include \"sub/o.asm\"\n#d8 1\n"), f("r2.asm", "#include \"./sub/../sub/o.asm\"\n#d8 2\n"), f("sub/o.asm", "#once\n#d8 0x77\n")], vec!["r1.asm", "r2.asm"], vec![0x77, 1, 2]),
            ("three roots, once file in the second and third", vec![f("r1.asm", "#d8 1\n"), f("r2.asm", "#include \"o.asm\"\n#d8 2\n"), f("r3.asm", "#include \"o.asm\"\n#d8 3\n"), f("o.asm", "#once\n#d8 0x77\n")], vec!["r1.asm", "r2.asm", "r3.asm"], vec![1, 0x77, 2, 3]),
        ];
        let mut loc = Local::new();
        for (name, files, roots, want) in &cases {
            loc.eval();
            loc.nontrivial(name);
            loc.class("graph-several-roots");
            let obs = run::assemble_files(files, roots, &run::Opts::default());
            let got = if obs.success() { bits_bytes(&obs.bits) } else { None };
            loc.traces_validated += 1;
            if obs.panicked.is_some() || got.as_ref() != Some(want) {
                loc.violation(Violation {
                    property: ID,
                    key: "graph:several-roots-once".into(),
                    what: format!("{}: roots {:?} expected {:02x?}, observed {}", name, roots, want, obs.summary()),
                    case: json!({"kind": "several-roots", "files": files.iter().map(|(n, b)| json!([n, String::from_utf8_lossy(b)])).collect::<Vec<_>>(), "roots": roots, "expected": want, "observed": obs.summary()}),
                });
            }
        }
        stash(&mut parts, 6, loc);
        breakdown.insert("several_roots", json!({"cases": cases.len()}));
    }

    // ---- 2d. a fragment with declarations of its own, included several times: every inclusion is the fragment's text
    //      at that place, so the program equals the one with the text written out (compared with exactly that program)
    {
        let fragments: [(&str, &str); 6] = [
            ("local-constant", ".v = 9\n"),
            ("local-constant-reading-a-sibling", ".v = .w + 8\n"),
            ("local-label-and-data", ".v:\n#d8 0x77\n"),
            ("global-constant", "gv = 9\n"),
            ("local-constant-and-use", ".v = 9\n#d8 .v + .w\n"),
            ("nested-levels", ".v:\n..u = .w\n#d8 ..u\n"),
        ];
        let parents = ["a", "b", "c"];
        let mut cases: Vec<(String, Vec<(String, Vec<u8>)>, String)> = vec![];
        for (fname, ftext) in fragments {
            for nparents in 1..=3usize {
                for per_parent in 1..=2usize {
                    for in_sub in [false, true] {
                        for use_after in [false, true] {
                            let path = if in_sub { "inc/fields.asm" } else { "fields.asm" };
                            let mut with_inc = String::new();
                            let mut spliced = String::new();
                            for (k, p) in parents.iter().take(nparents).enumerate() {
                                let headl = format!("{}:\n.w = {}\n", p, k + 1);
                                with_inc += &headl;
                                spliced += &headl;
                                for _ in 0..per_parent {
                                    with_inc += &format!("#include \"{}\"\n", path);
                                    spliced += ftext;
                                }
                                let tail = format!("#d8 .w, {}\n", if fname == "global-constant" { "gv" } else { ".v" });
                                with_inc += &tail;
                                spliced += &tail;
                            }
                            if use_after && fname != "global-constant" {
                                let tail = format!("#d8 {}.v\n", parents[nparents - 1]);
                                with_inc += &tail;
                                spliced += &tail;
                            }
                            let name = format!("{} parents{} inclusions-per-parent{} sub{} use-after{}", fname, nparents, per_parent, in_sub, use_after);
                            cases.push((name, vec![("main.asm".to_string(), with_inc.into_bytes()), (path.to_string(), ftext.as_bytes().to_vec())], spliced));
                        }
                    }
                }
            }
        }
        stash(&mut parts, 7, par_cases(&cases, |(name, files, spliced), l| {
            l.eval();
            l.nontrivial(name);
            let o1 = run::assemble_files(files, &["main.asm"], &run::Opts::default());
            let o2 = run::assemble_str(spliced, &run::Opts::default());
            l.class(if o2.success() { "fragment-repeated-ok" } else { "fragment-repeated-rejected" });
            l.traces_validated += 1;
            let same = o1.panicked.is_none() && ((o2.success() && o1.success() && o1.bits == o2.bits && o1.symbols == o2.symbols) || (o2.failure() && o1.failure()));
            if !same {
                l.violation(Violation {
                    property: ID,
                    key: "graph:fragment-included-repeatedly".into(),
                    what: format!("{}: with #include {}, with the text written out {}", name, o1.summary(), o2.summary()),
                    case: json!({"kind": "fragment", "files": files.iter().map(|(n, b)| json!([n, String::from_utf8_lossy(b)])).collect::<Vec<_>>(), "spliced": spliced, "expected": o2.summary(), "observed": o1.summary()}),
                });
            }
        }));
        breakdown.insert("fragment_included_repeatedly", json!({"fragments": fragments.iter().map(|f| f.0).collect::<Vec<_>>(), "cases": cases.len()}));
    }

    // ---- 3. RANGES
    let fcases = fn_cases();
    stash(&mut parts, 5, par_cases(&fcases, judge_fn));
    breakdown.insert("ranges", json!({"functions": FUNCS, "file_units": "0..4", "start": "absent, 0..6", "length": "absent, 0..6", "text_formats": FORMATS, "cases": fcases.len()}));

    // ---- the real binary on the real file system (quick: the resolve family over <= 2 components; thorough: also
    //      the include graphs and the longer path strings)
    {
        match RealEnv::new("t") {
            Err(e) => {
                machinery.get_or_insert(e);
            }
            Ok(env) => {
                // graphs: n <= 3, every layout, plain and backslash spelling
                let mut real_graph_cases = 0u64;
                for n in 1..=(if ctx.thorough { 3usize } else { 0 }) {
                    let mut variants = vec![];
                    for layout in layouts_all(n) {
                        for style in [0usize, 2] {
                            if n == 3 && style == 2 {
                                continue;
                            }
                            for adjacent in [false, true] {
                                if n == 3 && adjacent && layout.iter().any(|b| *b) {
                                    continue;
                                }
                                variants.push(Variant { layout: layout.clone(), style, once_at_end: false, adjacent });
                            }
                        }
                    }
                    let ng = graph_count(n);
                    let total = ng * variants.len() as u64;
                    real_graph_cases += total;
                    let err = std::sync::Mutex::new(None::<String>);
                    stash(&mut parts, 2, par_run(total, |i, l| {
                        let v = &variants[(i / ng) as usize];
                        let c = GraphCase { g: graph_from_index(n, i % ng), layout: v.layout.clone(), style: v.style, once_at_end: false, adjacent: v.adjacent };
                        if let Some(e) = judge_graph(&c, Some((&env, (n as u64) << 40 | i)), l) {
                            *err.lock().unwrap() = Some(e);
                        }
                    }));
                    if let Some(e) = err.into_inner().unwrap() {
                        machinery.get_or_insert(e);
                    }
                }
                if ctx.thorough { breakdown.insert("graphs_real_fs", json!({"files": "1..3", "layouts": "all", "styles": "plain (n<=3), backslash (n<=2)", "adjacent_include_lines": "n<=2 every layout, n=3 flat layout", "cases": real_graph_cases})); }

                // names that differ in letter case only are different files (the real file system here is case-sensitive)
                {
                    let f = |n: &str, t: &[u8]| (n.to_string(), t.to_vec());
                    let cases: Vec<(&str, Vec<(String, Vec<u8>)>, Option<&str>)> = vec![
                        ("incbin of two case-colliding names", vec![f("main.asm", b"#d incbin(\"data.bin\")\n#d incbin(\"Data.bin\")\n"), f("data.bin", b"AAAA"), f("Data.bin", b"BBBB")], Some("4141414142424242")),
                        ("incbin of two case-colliding names, other order", vec![f("main.asm", b"#d incbin(\"Data.bin\")\n#d incbin(\"data.bin\")\n"), f("data.bin", b"AAAA"), f("Data.bin", b"BBBB")], Some("4242424241414141")),
                        ("include of two case-colliding names", vec![f("main.asm", b"#include \"part.asm\"\n#include \"PART.asm\"\n"), f("part.asm", b"#d8 1\n"), f("PART.asm", b"#d8 2\n")], Some("0102")),
                        ("a spelling that does not exist, after the one that does", vec![f("main.asm", b"#d incbin(\"data.bin\")\n#d incbin(\"DATA.BIN\")\n"), f("data.bin", b"AAAA")], None),
                        ("case-colliding directories", vec![f("main.asm", b"#include \"lib/x.asm\"\n#include \"Lib/x.asm\"\n"), f("lib/x.asm", b"#d8 1\n"), f("Lib/x.asm", b"#d8 2\n")], Some("0102")),
                    ];
                    let mut loc = Local::new();
                    for (k, (name, files, want)) in cases.iter().enumerate() {
                        let dir = env.base.join(format!("case{}", k));
                        if let Err(e) = write_tree(&dir, files) {
                            machinery.get_or_insert(format!("cannot write {}: {}", dir.display(), e));
                            continue;
                        }
                        loc.eval();
                        loc.nontrivial(name);
                        loc.class("real-letter-case");
                        let p = run_proc(&env.bin, &["main.asm".into(), "-q".into(), "-f".into(), "hexstr".into(), "-p".into()], &dir);
                        loc.traces_validated += 1;
                        let ok = match want {
                            Some(w) => p.exit == Some(0) && p.stdout.trim() == *w,
                            None => p.exit.map(|c| c != 0 && c != 101).unwrap_or(false) && p.stderr.contains("error"),
                        };
                        if !ok {
                            loc.violation(Violation {
                                property: ID,
                                key: "real-letter-case".into(),
                                what: format!("{}: expected {}, observed {}", name, want.map(|w| w.to_string()).unwrap_or("an error (file not found)".into()), p.summary()),
                                case: json!({"kind": "letter-case", "files": files.iter().map(|(n, b)| json!([n, String::from_utf8_lossy(b)])).collect::<Vec<_>>(), "expected": want, "observed": p.summary()}),
                            });
                        }
                        let _ = std::fs::remove_dir_all(&dir);
                    }
                    stash(&mut parts, 8, loc);
                    breakdown.insert("letter_case_real_fs", json!({"cases": cases.len()}));
                }

                // resolve under strace: <= 3 components, uniform separators, plus the 4-component strings that start with
                // `<std>`, `..` or `sub` and end in `x.asm` (the only ones that can name a file two levels up)
                let mut real_rels = path_strings(&rcomps, if ctx.thorough { 3 } else { 2 }, false);
                for r in path_strings(&rcomps, if ctx.thorough { 4 } else { 0 }, false) {
                    let first = r.trim_start_matches(|c| c == '/' || c == '\\');
                    if (first.starts_with("<std>") || first.starts_with("..") || first.starts_with("sub")) && r.ends_with("x.asm") && !real_rels.contains(&r) {
                        real_rels.push(r);
                    }
                }
                let mut trees = vec![];
                for construct in 0..CONSTRUCTS.len() {
                    match setup_real_tree(&env, construct) {
                        Ok(t) => trees.push(t),
                        Err(e) => {
                            machinery.get_or_insert(e);
                        }
                    }
                }
                if trees.len() == CONSTRUCTS.len() {
                    let mut cases = vec![];
                    for construct in 0..CONSTRUCTS.len() {
                        for includer in 0..INCLUDERS.len() {
                            for r in &real_rels {
                                // absolute spellings of a sentinel are added below
                                cases.push(ResolveCase { construct, includer, rel: r.clone() });
                            }
                            let abs = model::lexical_abs(&trees[construct].to_string_lossy(), "../x.asm");
                            for extra in [abs.clone(), abs.replace('/', "\\"), format!("<std>/../..{}", abs), format!("<std>{}", abs), format!("sub/../..{}", abs)] {
                                cases.push(ResolveCase { construct, includer, rel: extra });
                            }
                        }
                    }
                    let err = std::sync::Mutex::new(None::<String>);
                    let idx: Vec<usize> = (0..cases.len()).collect();
                    stash(&mut parts, 0, par_cases(&idx, |i, l| {
                        let c = &cases[*i];
                        if let Some(e) = judge_resolve(c, Some((&env, &trees[c.construct], *i as u64)), l) {
                            *err.lock().unwrap() = Some(e);
                        }
                    }));
                    if let Some(e) = err.into_inner().unwrap() {
                        machinery.get_or_insert(e);
                    }
                    breakdown.insert("resolve_real_fs_strace", json!({"path_strings": real_rels.len(), "plus_absolute_spellings": 5, "constructs": CONSTRUCTS, "including_positions": INCLUDERS, "cases": cases.len(),
                        "traced": "openat,open,stat,lstat,statx,newfstatat,access", "allowed_outside": SYSTEM_PREFIXES}));
                }
                env.cleanup();
            }
        }
    }

    parts.sort_by_key(|p| p.0);
    for (_, l) in parts {
        rep.absorb(l);
    }
    rep.extra("families", json!(breakdown));
    rep.assumptions = vec![
        "mock file server entries named `../x.asm`, `/x.asm`, `<std>/../x.asm` … stand for files outside the tree (sentinels)".into(),
        "on the real file system a path is outside the tree when its lexical normal form is (no symbolic links are created)".into(),
        "a cycle that re-enters a file carrying #once may be reported as an error or skipped (the statement does not decide)".into(),
        "in-process inclusion runs use an open budget of 400 files so that an undiagnosed loop is observed, not suffered".into(),
    ];
    for c in ["path-ok", "path-err", "graph-cycle", "graph-once-skip", "graph-repeated-splice", "graph-tree", "graph-cycle-through-once-file", "resolve-found", "resolve-rejected-or-missing", "fn-slice", "fn-past-end", "fn-zero-length"] {
        rep.require_class(c);
    }
    if ctx.thorough {
        for c in ["real-graph-cycle", "real-graph-once-skip", "real-resolve-found", "real-resolve-rejected-or-missing"] {
            rep.require_class(c);
        }
    }
    if let Some(e) = machinery {
        rep.machinery_error = Some(e);
    }
    rep
}

pub fn replay(ctx: &Ctx, case: &serde_json::Value) -> i32 {
    super::replay_with(ctx, case, |case, l| {
        let before = l.violations.len();
        match case["kind"].as_str().unwrap_or("") {
            "path" => judge_path(case["current"].as_str().unwrap_or(""), case["relative"].as_str().unwrap_or(""), l),
            "several-roots" => {
                let files: Vec<(String, Vec<u8>)> = case["files"].as_array().cloned().unwrap_or_default().iter().map(|f| (f[0].as_str().unwrap_or("").to_string(), f[1].as_str().unwrap_or("").as_bytes().to_vec())).collect();
                let roots: Vec<String> = case["roots"].as_array().cloned().unwrap_or_default().iter().map(|r| r.as_str().unwrap_or("").to_string()).collect();
                let roots_ref: Vec<&str> = roots.iter().map(|s| s.as_str()).collect();
                let want: Vec<u8> = case["expected"].as_array().cloned().unwrap_or_default().iter().map(|b| b.as_u64().unwrap_or(0) as u8).collect();
                let obs = run::assemble_files(&files, &roots_ref, &run::Opts::default());
                println!("roots {:?} -> {} (expected bytes {:02x?})", roots, obs.summary(), want);
                if !(obs.success() && bits_bytes(&obs.bits).as_ref() == Some(&want)) {
                    l.violation(Violation { property: ID, key: "replay".into(), what: "still differs".into(), case: case.clone() });
                }
            }
            "letter-case" => {
                let files: Vec<(String, Vec<u8>)> = case["files"].as_array().cloned().unwrap_or_default().iter().map(|f| (f[0].as_str().unwrap_or("").to_string(), f[1].as_str().unwrap_or("").as_bytes().to_vec())).collect();
                match RealEnv::new("replay") {
                    Ok(env) => {
                        let dir = env.base.join("case");
                        let _ = write_tree(&dir, &files);
                        let p = run_proc(&env.bin, &["main.asm".into(), "-q".into(), "-f".into(), "hexstr".into(), "-p".into()], &dir);
                        println!("expected {} observed {}", case["expected"], p.summary());
                        let ok = match case["expected"].as_str() {
                            Some(w) => p.exit == Some(0) && p.stdout.trim() == w,
                            None => p.exit.map(|c| c != 0 && c != 101).unwrap_or(false) && p.stderr.contains("error"),
                        };
                        if !ok {
                            l.violation(Violation { property: ID, key: "replay".into(), what: "still differs".into(), case: case.clone() });
                        }
                        env.cleanup();
                    }
                    Err(e) => eprintln!("machinery: {}", e),
                }
            }
            "fragment" => {
                let files: Vec<(String, Vec<u8>)> = case["files"].as_array().cloned().unwrap_or_default().iter().map(|f| (f[0].as_str().unwrap_or("").to_string(), f[1].as_str().unwrap_or("").as_bytes().to_vec())).collect();
                let o1 = run::assemble_files(&files, &["main.asm"], &run::Opts::default());
                let o2 = run::assemble_str(case["spliced"].as_str().unwrap_or(""), &run::Opts::default());
                println!("with #include: {}\nwritten out:   {}", o1.summary(), o2.summary());
                let same = o1.panicked.is_none() && ((o2.success() && o1.success() && o1.bits == o2.bits && o1.symbols == o2.symbols) || (o2.failure() && o1.failure()));
                if !same {
                    l.violation(Violation { property: ID, key: "replay".into(), what: "still differs".into(), case: case.clone() });
                }
            }
            "graph" => {
                let Some((c, real)) = graph_from_json(case) else {
                    eprintln!("bad graph case");
                    return;
                };
                if real {
                    match RealEnv::new("replay") {
                        Ok(env) => {
                            if let Some(e) = judge_graph(&c, Some((&env, 0)), l) {
                                eprintln!("machinery: {}", e);
                            }
                            env.cleanup();
                        }
                        Err(e) => eprintln!("machinery: {}", e),
                    }
                } else if let Some(e) = judge_graph(&c, None, l) {
                    eprintln!("machinery: {}", e);
                }
            }
            "resolve" => {
                let c = ResolveCase { construct: case["construct_index"].as_u64().unwrap_or(0) as usize, includer: case["includer_index"].as_u64().unwrap_or(0) as usize, rel: case["relative"].as_str().unwrap_or("").to_string() };
                if case["real"].as_bool().unwrap_or(false) {
                    match RealEnv::new("replay") {
                        Ok(env) => {
                            match setup_real_tree(&env, c.construct) {
                                Ok(tree) => {
                                    if let Some(e) = judge_resolve(&c, Some((&env, &tree, 0)), l) {
                                        eprintln!("machinery: {}", e);
                                    }
                                }
                                Err(e) => eprintln!("machinery: {}", e),
                            }
                            env.cleanup();
                        }
                        Err(e) => eprintln!("machinery: {}", e),
                    }
                } else if let Some(e) = judge_resolve(&c, None, l) {
                    eprintln!("machinery: {}", e);
                }
            }
            "fn" => {
                let c = FnCase {
                    func: case["func_index"].as_u64().unwrap_or(0) as usize,
                    units: case["units"].as_array().map(|a| a.iter().filter_map(|x| x.as_u64().map(|x| x as u8)).collect()).unwrap_or_default(),
                    format: case["format"].as_u64().unwrap_or(0) as usize,
                    start: case["start"].as_u64().map(|x| x as usize),
                    length: case["length"].as_u64().map(|x| x as usize),
                };
                judge_fn(&c, l);
            }
            k => eprintln!("unknown case kind {:?}", k),
        }
        for v in &l.violations[before..] {
            println!("observed: {}", v.case["observed"]);
        }
    })
}
