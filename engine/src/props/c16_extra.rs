//! C16, extra family written by the orchestrator: a command-line define replaces the value of the
//! constant of that name *everywhere*, whatever the constant's own default expression is (a label,
//! `$`, a name that only exists in an unselected arm, an undeclared name, another constant).
use crate::run::{self, DefVal, Opts};
use crate::stats::*;
use serde_json::json;

const ID: &str = "C16";

struct Case {
    src: String,
    define: (&'static str, i64),
    /// expected output bytes
    expect: Vec<u8>,
}

fn cases() -> Vec<Case> {
    let defaults: [(&str, &str, &str); 7] = [
        // (prelude before the constant, default expression, postlude)
        ("start:\n#d8 0xaa\n", "start", ""),
        ("", "later", "later:\n"),
        ("#d8 0xaa\n", "$", ""),
        ("#if false\n{\nhidden = 4\n}\n", "hidden", ""),
        ("", "nosuch_symbol", ""),
        ("other = 3\n", "other * 2", ""),
        ("", "1 / 0", ""),
    ];
    let uses: [(&str, fn(i64) -> Vec<u8>); 4] = [
        ("#d8 K\n", |v| vec![v as u8]),
        ("#if K == 0x77\n{\n#d8 0x55\n}\n#else\n{\n#d8 0x66\n}\n", |v| vec![if v == 0x77 { 0x55 } else { 0x66 }]),
        ("D = K + 1\n#d8 D\n", |v| vec![(v + 1) as u8]),
        ("#d8 K, K\n", |v| vec![v as u8, v as u8]),
    ];
    let mut out = vec![];
    for (pre, dflt, post) in defaults {
        for (usetext, f) in uses {
            for value in [0x77i64, 5] {
                for const_first in [true, false] {
                    let konst = format!("K = {}\n", dflt);
                    let mut src = String::new();
                    src += pre;
                    let mut expect: Vec<u8> = vec![];
                    if pre.contains("#d8 0xaa") {
                        expect.push(0xaa);
                    }
                    if const_first {
                        src += &konst;
                        src += usetext;
                    } else {
                        src += usetext;
                        src += &konst;
                    }
                    src += post;
                    expect.extend(f(value));
                    out.push(Case { src, define: ("K", value), expect });
                }
            }
        }
    }
    out
}

pub fn run_extra(rep: &mut Report) {
    let cs = cases();
    rep.absorb(par_cases(&cs, |c, l| {
        l.eval();
        l.nontrivial(&(&c.src, c.define.1));
        l.class("define-overrides-any-default");
        let opts = Opts { defines: vec![(c.define.0.to_string(), DefVal::Int(c.define.1))], ..Opts::iters(30) };
        let obs = run::assemble_str(&c.src, &opts);
        let want: String = c.expect.iter().map(|b| format!("{:08b}", b)).collect();
        // `#if` conditions must be decidable from constants alone: a use inside `#if` placed before
        // the constant's declaration is still decidable because the define supplies the value.
        let bad = if obs.panicked.is_some() {
            Some("panic")
        } else if !obs.success() {
            Some("define not honoured: assembly failed")
        } else if obs.bits != want {
            Some("define not honoured: wrong value used")
        } else {
            None
        };
        if let Some(b) = bad {
            l.violation(Violation {
                property: ID,
                key: "C16:define-vs-default-expression".into(),
                what: format!("{} with -d{}={}: {}", b, c.define.0, c.define.1, c.src.replace('\n', " / ")),
                case: json!({"family": "define-overrides-any-default", "program": c.src, "define": format!("{}={}", c.define.0, c.define.1), "expected_hex": run::bits_to_hex(&want), "observed": obs.summary()}),
            });
        }
        l.traces_validated += 1;
    }));
}
