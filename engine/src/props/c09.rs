//! C09 — the iteration budget decides whether a program assembles, never to what.
//! Every program of the C02 generators, the skeleton grid, asm-block and #assert programs, over a
//! row of budgets; oracle: success at N => identical success at every larger budget; passes <= N.
use super::c02;
use crate::run::{self, Opts};
use crate::stats::*;
use serde_json::json;

pub const ID: &str = "C09";

fn asm_block_programs() -> Vec<String> {
    let rules = "#ruledef\n{\n    nop => 0x00\n    ld {x: u8} => 0x10 @ x\n    jmp {a} => { assert(a < 4), 0xa @ a`4 }\n    jmp {a} => 0xb0 @ a`8\n    two {x} => asm { ld {x}\n ld {x} + 1 }\n    loop3 => asm { nop\n jmp l\n l:\n nop }\n    fwd {x} => asm { jmp {x}\n jmp l\n nop\n l: }\n    skip => asm { jmp l\n nop\n nop\n nop\n l: }\n}\n";
    let bodies = [
        "two 5\n",
        "loop3\n",
        "fwd E\nE:\n",
        "fwd E\nnop\nnop\nnop\nE:\n",
        "skip\nskip\n",
        "jmp E\nloop3\nE:\n",
        "fwd E\nfwd E\nE:\n",
        "loop3\n#assert $ == 4\n",
        "jmp E\n#assert E < 4\nE:\n",
        "jmp E\njmp E\njmp E\n#assert E == 3\nE:\n",
        "jmp E\nnop\nnop\nnop\n#assert E == 5\nE:\n",
        "x = E * 2\njmp x\nE:\n",
        // label-free programs that can finish in a single pass, with assertions that hold / do not hold
        "ld 5\n#assert $ == 2\n",
        "ld 5\n#assert $ == 7\n",
        "ld 5\nld 6\nld 7\n#assert $ <= 4\n#d8 0xff\n",
        "#d8 1, 2\n#assert 1 + 1 == 3\n",
        "#d8 1, 2\n#assert 1 + 1 == 2\n",
    ];
    bodies.iter().map(|b| format!("{}{}", rules, b)).collect()
}

pub fn judge(src: &str, family: &str, budgets: &[usize], l: &mut Local) {
    judge_sw(src, family, budgets, true, l)
}

/// `optimised` = false: the same row of budgets with both --debug-no-optimize-* switches given (a budget is a budget
/// under every documented option)
pub fn judge_sw(src: &str, family: &str, budgets: &[usize], optimised: bool, l: &mut Local) {
    let mut first_success: Option<(usize, String, Vec<(String, String)>)> = None;
    let mut outcomes = vec![];
    for b in budgets {
        l.eval();
        let _ = run::take_pass_trace();
        let obs = run::assemble_str(src, &Opts { iters: *b, opt_static: optimised, opt_matcher: optimised, defines: vec![] });
        // hook H2: real passes executed and the states they reached (coverage only)
        for (_, _, _, _, digest) in run::take_pass_trace() {
            l.state(&(src, digest));
            l.transitions += 1;
        }
        let mut bad: Option<(String, String)> = None;
        if let Some(p) = &obs.panicked {
            bad = Some((if src.contains("asm {") { "C09:panic-asm-block-small-budget".into() } else { "C09:panic".into() }, format!("panic at budget {}: {}", b, p)));
            outcomes.push("panic");
        } else if obs.success() {
            outcomes.push("ok");
            let it = obs.iterations.unwrap_or(0);
            if it > *b {
                bad = Some(("C09:passes-exceed-budget".into(), format!("reports {} passes with a budget of {}", it, b)));
            }
            match &first_success {
                None => first_success = Some((*b, obs.bits.clone(), obs.symbols.clone())),
                Some((n, bits, syms)) => {
                    if *bits != obs.bits || *syms != obs.symbols {
                        bad = Some(("C09:different-output-at-larger-budget".into(), format!("output at budget {} differs from output at budget {}", b, n)));
                    }
                }
            }
        } else if obs.failure() {
            outcomes.push("fail");
            if let Some((n, _, _)) = &first_success {
                bad = Some(("C09:success-lost-at-larger-budget".into(), format!("assembles at budget {} but not at budget {}", n, b)));
            }
        } else {
            outcomes.push("unclean");
            bad = Some(("C09:unclean-outcome".into(), format!("neither clean success nor clean failure at budget {}", b)));
        }
        if let Some((key, why)) = bad {
            l.violation(Violation { property: ID, key, what: format!("{}: {}", why, src.replace('\n', " / ")), case: json!({"family": family, "program": src, "budgets": budgets, "budget": b, "optimisations": optimised, "observed": obs.summary()}) });
        }
    }
    l.traces_validated += 1;
    let differs = outcomes.iter().any(|o| *o != outcomes[0]);
    if differs {
        l.nontrivial(src);
        l.class("outcome-depends-on-budget");
    } else {
        l.class(&format!("always-{}", outcomes[0]));
    }
    l.sample(|| json!({"family": family, "program": src, "outcomes": outcomes}));
}

pub fn run(ctx: &Ctx) -> Report {
    let mut rep = Report::new(
        "model_checking",
        "every program of the twelve C02 value-dependent families (all item sequences up to a length), the skeleton grid (chains 0..12 with/without oscillator), asm-block macros with local labels and #assert programs, each assembled under a row of budgets; success at N must recur identically (bits, symbols) at every larger budget, reported passes <= budget, failures clean. Non-trivial = program whose outcome differs between at least two budgets; states = distinct (program, per-pass state digest) pairs read through hook H2, transitions = resolver passes executed.",
    );
    let budgets: Vec<usize> = if ctx.thorough { vec![1, 2, 3, 4, 5, 6, 7, 8, 9, 10, 11, 12, 20, 30, 31] } else { vec![1, 2, 3, 4, 5, 10, 11, 30] };
    for f in c02::families() {
        let k = f.items.len() as u64;
        let maxlen = f.maxlen(ctx.thorough);
        let fam: &'static str = f.name;
        let b = &budgets;
        rep.absorb(par_run(seq_count(k, maxlen), |i, l| {
            let seq = seq_decode(i, k, maxlen);
            judge(&c02::prog_of(&f, &seq).render(), fam, b, l);
        }));
    }
    for f in c02::families().into_iter().filter(|f| f.name == "pc-relative") {
        let k = f.items.len() as u64;
        let maxlen = f.maxlen(ctx.thorough);
        let b = &budgets;
        rep.absorb(par_run(seq_count(k, maxlen), |i, l| {
            let seq = seq_decode(i, k, maxlen);
            judge(&c02::in_negative_bank(c02::prog_of(&f, &seq)).render(), "pc-relative-in-a-bank-at-a-negative-address", b, l);
        }));
    }
    // every family again in a bank whose addresses lie beyond the machine word (addresses are unbounded integers:
    // a label that moves from 2^64+a to 2^64+b has changed like any other)
    const WIDE: &str = "#bankdef wide { #addr 0x1_0000_0000_0000_0000, #outp 0 }\n";
    for f in c02::families() {
        let k = f.items.len() as u64;
        let maxlen = f.maxlen(ctx.thorough);
        let b = &budgets;
        rep.absorb(par_run(seq_count(k, maxlen), |i, l| {
            let seq = seq_decode(i, k, maxlen);
            judge(&format!("{}{}", WIDE, c02::prog_of(&f, &seq).render()), "family-in-a-bank-beyond-the-machine-word", b, l);
        }));
    }
    // a jump over an instruction of variable size whose encoding does not change when it is re-resolved (opcode and
    // late operand both zero or not), at small, wide and negative bank addresses
    {
        let mut progs: Vec<String> = vec![];
        for addr in ["0", "0x1_0000_0000_0000_0000", "0xffff_ffff_ffff_fff0", "-0x100"] {
            for opc in ["0x00", "0x10"] {
                for late in ["done - done", "done - done + 1", "done - done + 0x100", "done`4"] {
                    for pad in 0..=2usize {
                        for width in ["a`8", "a`16"] {
                            let mut t = format!("#ruledef\n{{\n    jmp {{a}} => 0x10 @ {}\n    ld {{x: u8}} => {} @ x\n    ld {{x: u16}} => {} @ x\n    halt => 0xff\n}}\n#bankdef code {{ #addr {}, #size 0x100, #outp 0 }}\n", width, opc, opc, addr);
                            t += "jmp done\nld x\n";
                            for _ in 0..pad {
                                t += "ld x\n";
                            }
                            t += &format!("done:\nhalt\nx = zero\nzero = {}\n", late);
                            progs.push(t);
                        }
                    }
                }
            }
        }
        rep.absorb(par_cases(&progs, |s, l| judge(s, "late-zero-operand-at-wide-addresses", &(1..=31).collect::<Vec<usize>>(), l)));
        rep.absorb(par_cases(&progs, |s, l| judge_sw(s, "late-zero-operand-at-wide-addresses-unoptimised", &(1..=31).collect::<Vec<usize>>(), false, l)));
    }
    let all: Vec<usize> = (1..=31).collect();
    let grid: Vec<(usize, bool)> = (0..=12).flat_map(|n| [(n, false), (n, true)]).collect();
    rep.absorb(par_cases(&grid, |(n, osc), l| judge(&c02::chain_prog(*n, *osc).render(), "skeleton-chain", &all, l)));
    rep.absorb(par_cases(&grid, |(n, osc), l| judge_sw(&c02::chain_prog(*n, *osc).render(), "skeleton-chain-unoptimised", &all, false, l)));
    let lb: Vec<String> = c02::late_bool_progs().iter().map(|p| p.render()).collect();
    rep.absorb(par_cases(&lb, |s, l| judge(s, "late-boolean-directed", &all, l)));
    let sp: Vec<String> = c02::scope_parent_progs().iter().map(|p| p.render()).collect();
    rep.absorb(par_cases(&sp, |s, l| judge(s, "scope-parent-directed", &budgets, l)));
    let asmp = asm_block_programs();
    rep.absorb(par_cases(&asmp, |s, l| judge(s, "asm-block-and-assert", &all, l)));
    rep.absorb(par_cases(&asmp, |s, l| judge_sw(s, "asm-block-and-assert-unoptimised", &all, false, l)));
    // a constant that is the last thing to change: its two alternatives differ in kind or width only (the same number
    // as an 8- and a 16-bit string, booleans, a sized and an unsized integer), emitted from a bank of its own so that
    // nothing else moves with it; the label it reads learns its place through a chain of 0..3 constants
    {
        let alts = [
            ("utf16be(\"A\")", "utf8(\"A\")", "#d msg"),
            ("\"\\0A\"", "\"A\"", "#d msg"),
            ("true", "false", "#d8 msg ? 0xaa : 0xbb"),
            ("0x0041", "0x41", "#d msg"),
            ("0x41", "65", "#d8 msg"),
            ("65", "0x41", "#d msg`8"),
            ("utf8(\"AB\")", "utf16le(\"\u{4241}\")", "#d msg"),
            ("0x0041", "0x41", "#d msg ? 0x1 : 0x2"),
        ];
        let mut progs: Vec<String> = vec![];
        for (a, b, use_) in alts {
            for chain in 0..=3usize {
                for swap in [false, true] {
                    for (decl_first, noemit) in [(false, false), (true, false), (false, true), (true, true)] {
                        let (x, y) = if swap { (b, a) } else { (a, b) };
                        let mut t = String::from("#bankdef hdr  { #addr 0x00, #size 0x04, #outp 0 }\n#bankdef body { #addr 0x10, #size 0x20, #outp 8 * 0x04 }\n#bank hdr\n");
                        // a constant kept out of the symbol listing is a constant like any other
                        let decl = format!("{}msg = tgt > 0x15 ? {} : {}\n", if noemit { "#const(noemit) " } else { "" }, x, y);
                        t += use_;
                        t += "\n#bank body\n";
                        if decl_first {
                            t += &decl;
                        }
                        for k in (1..=chain).rev() {
                            t += &format!("e{} = e{}\n", k, k - 1);
                        }
                        t += "e0 = s + 7\ns:\n";
                        if !decl_first {
                            t += &decl;
                        }
                        t += &format!("#res e{}\ntgt:\n#d8 0xff\n", chain);
                        progs.push(t);
                    }
                }
            }
        }
        rep.absorb(par_cases(&progs, |s, l| judge(s, "late-constant-of-another-kind", &all, l)));
        rep.absorb(par_cases(&progs, |s, l| judge_sw(s, "late-constant-of-another-kind-unoptimised", &all, false, l)));
    }
    rep.extra("budgets", json!(budgets));
    rep.assumptions = vec!["the implementation is compared with itself across budgets; no fixed point is predicted".into()];
    rep.require_class("outcome-depends-on-budget");
    rep.require_class("always-ok");
    rep.require_class("always-fail");
    rep
}

pub fn replay(ctx: &Ctx, case: &serde_json::Value) -> i32 {
    super::replay_with(ctx, case, |case, l| {
        let src = case["program"].as_str().unwrap_or("");
        let budgets: Vec<usize> = case["budgets"].as_array().map(|a| a.iter().filter_map(|x| x.as_u64().map(|v| v as usize)).collect()).unwrap_or_else(|| vec![1, 2, 3, 10]);
        let mut l2 = Local::new();
        judge_sw(src, "replay", &budgets, case["optimisations"].as_bool().unwrap_or(true), &mut l2);
        for v in l2.violations {
            println!("{}: {}", v.key, v.what);
            l.violation(v);
        }
    })
}
