//! `ifworld` — reference interpreter for conditional assembly (DESIGN §3.6), written from the
//! statement of C16 and not from customasm's resolver.
//!
//! A *world* is the list of items currently visible (everything that is not inside an undecided
//! `#if` chain). The interpreter repeats until nothing changes:
//!   1. every visible constant whose definition mentions only already-known constants becomes
//!      known; a command-line define of that (full) name REPLACES the definition;
//!   2. every visible `#if` chain whose conditions can be decided left to right from known
//!      constants is spliced: exactly the first true arm (or the `#else` arm, or nothing) takes
//!      the chain's place.
//! Afterwards: an undecided chain is an error; a define that names no visible *constant* is an
//! error; a non-boolean condition is an error; code that mentions a name that is not visible is an
//! error. What the statement does not determine is `Unspec` (no verdict):
//!   * two visible declarations of one name;
//!   * a leftover item that a *lazy* evaluator (`false && unknown`) could have decided;
//!   * a chain decided by a true arm whose LATER conditions are not decidable booleans;
//!   * cyclic constants, booleans / out-of-range values reaching a `#d8`.
//! Every marker / use emits exactly one byte, so addresses of labels are byte counts.
use crate::refx::{self, BinOp, RErr, RVal, E, Z};
use crate::stats::fnv;
use std::collections::{BTreeMap, HashMap};

#[derive(Clone, Debug, PartialEq, Eq, Hash)]
pub enum Item {
    /// `#d8 0xkk`
    Marker(u8),
    /// `name:` (level 0)
    Label(String),
    /// `name = expr` (level 0)
    Const(String, E),
    /// `.name = expr` directly after the level-0 symbol `parent` (full name `parent.name`)
    Sub(String, String, E),
    /// `#d8 name` — live code that mentions a symbol
    Use(String),
    /// `#if c0 {..} #elif c1 {..} .. [#else {..}]`
    If(Vec<(E, Vec<Item>)>, Option<Vec<Item>>),
    /// `#fn name(x) => x + 1` — a declared name that is neither a constant nor a label
    Func(String),
}

pub fn render(items: &[Item], ind: usize, out: &mut String) {
    let pad = " ".repeat(ind);
    for it in items {
        match it {
            Item::Marker(k) => out.push_str(&format!("{}#d8 0x{:02x}\n", pad, k)),
            Item::Label(n) => out.push_str(&format!("{}{}:\n", pad, n)),
            Item::Const(n, e) => out.push_str(&format!("{}{} = {}\n", pad, n, e.print(false))),
            Item::Sub(_, n, e) => out.push_str(&format!("{}.{} = {}\n", pad, n, e.print(false))),
            Item::Use(n) => out.push_str(&format!("{}#d8 {}\n", pad, n)),
            Item::Func(n) => out.push_str(&format!("{}#fn {}(x) => x + 1\n", pad, n)),
            Item::If(chain, els) => {
                for (i, (c, body)) in chain.iter().enumerate() {
                    out.push_str(&format!("{}{} {}\n{}{{\n", pad, if i == 0 { "#if" } else { "#elif" }, c.print(false), pad));
                    render(body, ind + 2, out);
                    out.push_str(&format!("{}}}\n", pad));
                }
                if let Some(body) = els {
                    out.push_str(&format!("{}#else\n{}{{\n", pad, pad));
                    render(body, ind + 2, out);
                    out.push_str(&format!("{}}}\n", pad));
                }
            }
        }
    }
}

pub fn text_of(items: &[Item]) -> String {
    let mut s = String::new();
    render(items, 0, &mut s);
    s
}

pub fn vars(e: &E, out: &mut Vec<String>) {
    match e {
        E::Num(_) | E::Bool(_) | E::Str(_) => {}
        E::Var(n) => {
            if !out.contains(n) {
                out.push(n.clone())
            }
        }
        E::Un(_, a) => vars(a, out),
        E::Bin(_, a, b) | E::Short(a, b) => {
            vars(a, out);
            vars(b, out)
        }
        E::Tern(a, b, c) | E::Slice(a, b, c) => {
            vars(a, out);
            vars(b, out);
            vars(c, out)
        }
        E::Call(_, args) | E::Block(args) => args.iter().for_each(|a| vars(a, out)),
    }
}

enum Ev {
    NotReady,
    Val(RVal),
    Err(#[allow(dead_code)] &'static str),
    Unspec(&'static str),
}

fn eval_strict(e: &E, known: &HashMap<String, RVal>) -> Ev {
    let mut vs = vec![];
    vars(e, &mut vs);
    if vs.iter().any(|v| !known.contains_key(v)) {
        return Ev::NotReady;
    }
    let env = refx::Env { vars: known.clone(), placeholder: false };
    match refx::eval(e, &env) {
        Ok(v) => Ev::Val(v),
        Err(RErr::Error(m)) => Ev::Err(m),
        Err(RErr::Unspec(m)) => Ev::Unspec(m),
        Err(RErr::Constraint) => Ev::Err("assertion failed"),
    }
}

/// The laziest plausible evaluator: is there ANY reading under which `e` has a value although
/// some of its names are unknown? (`false && ?`, `? && false`, `true || ?`, a decided ternary.)
fn lazily_decidable(e: &E, known: &HashMap<String, RVal>) -> Option<RVal> {
    match e {
        E::Bin(op @ (BinOp::LAnd | BinOp::LOr), a, b) => {
            let x = lazily_decidable(a, known);
            let y = lazily_decidable(b, known);
            let absorbing = *op == BinOp::LOr;
            if x == Some(RVal::Bool(absorbing)) || y == Some(RVal::Bool(absorbing)) {
                return Some(RVal::Bool(absorbing));
            }
            match (x, y) {
                (Some(RVal::Bool(_)), Some(RVal::Bool(_))) => Some(RVal::Bool(!absorbing)),
                _ => None,
            }
        }
        E::Tern(c, a, b) => match lazily_decidable(c, known) {
            Some(RVal::Bool(true)) => lazily_decidable(a, known),
            Some(RVal::Bool(false)) => lazily_decidable(b, known),
            Some(_) => None,
            None => {
                let x = lazily_decidable(a, known);
                if x.is_some() && x == lazily_decidable(b, known) {
                    x
                } else {
                    None
                }
            }
        },
        _ => match eval_strict(e, known) {
            Ev::Val(v) => Some(v),
            _ => None,
        },
    }
}

#[derive(Clone, Debug, PartialEq, Eq)]
pub enum Verdict {
    /// bytes emitted in order, visible integer symbols (full name -> decimal value)
    Ok { bytes: Vec<u8>, symbols: BTreeMap<String, String> },
    Error(&'static str),
    Unspec(&'static str),
}

#[derive(Clone, Debug)]
pub struct Outcome {
    pub verdict: Verdict,
    /// digests of the worlds passed through (initial world, after every change)
    pub states: Vec<u64>,
    pub splices: u64,
    /// a chain was decided by a condition that mentions a constant
    pub decided_by_constant: bool,
    /// a define replaced a visible constant's definition
    pub define_applied: bool,
    /// a constant declared inside an arm fed a condition that is textually earlier / later
    pub rounds: u64,
}

fn digest(world: &[Item], known: &HashMap<String, RVal>) -> u64 {
    let mut k: Vec<String> = known.iter().map(|(n, v)| format!("{}={:?}", n, v)).collect();
    k.sort();
    fnv(&(world, k))
}

/// every name declared anywhere in the text (visible or not): (full name, is constant)
pub fn declared_anywhere(items: &[Item], out: &mut Vec<(String, bool)>) {
    for it in items {
        match it {
            Item::Label(n) | Item::Func(n) => out.push((n.clone(), false)),
            Item::Const(n, _) => out.push((n.clone(), true)),
            Item::Sub(p, n, _) => out.push((format!("{}.{}", p, n), true)),
            Item::If(chain, els) => {
                for (_, b) in chain {
                    declared_anywhere(b, out);
                }
                if let Some(b) = els {
                    declared_anywhere(b, out);
                }
            }
            _ => {}
        }
    }
}

enum Decision {
    Arm(usize),
    Else,
    Stuck,
    Err(&'static str),
    Unspec(&'static str),
}

fn decide(chain: &[(E, Vec<Item>)], known: &HashMap<String, RVal>) -> Decision {
    for (i, (c, _)) in chain.iter().enumerate() {
        match eval_strict(c, known) {
            Ev::NotReady => return Decision::Stuck,
            Ev::Val(RVal::Bool(true)) => return Decision::Arm(i),
            Ev::Val(RVal::Bool(false)) => {}
            Ev::Val(_) => return Decision::Err("condition-not-boolean"),
            Ev::Err(_) => return Decision::Err("condition-evaluation-error"),
            Ev::Unspec(m) => return Decision::Unspec(m),
        }
    }
    Decision::Else
}

pub fn ifworld(prog: &[Item], defines: &[(String, RVal)]) -> Outcome {
    let mut world: Vec<Item> = prog.to_vec();
    let mut known: HashMap<String, RVal> = HashMap::new();
    let mut out = Outcome { verdict: Verdict::Unspec("unfinished"), states: vec![], splices: 0, decided_by_constant: false, define_applied: false, rounds: 0 };
    let mut tail_conds: Vec<E> = vec![];
    out.states.push(digest(&world, &known));
    macro_rules! done {
        ($v:expr) => {{
            out.verdict = $v;
            return out;
        }};
    }

    loop {
        let mut changed = false;
        out.rounds += 1;
        // 1. constants
        let mut newly = false;
        for it in &world {
            let (name, e) = match it {
                Item::Const(n, e) => (n.clone(), e),
                Item::Sub(p, n, e) => (format!("{}.{}", p, n), e),
                _ => continue,
            };
            if known.contains_key(&name) {
                continue;
            }
            if let Some((_, v)) = defines.iter().find(|(n, _)| *n == name) {
                known.insert(name, v.clone());
                out.define_applied = true;
                newly = true;
                continue;
            }
            match eval_strict(e, &known) {
                Ev::NotReady => {}
                Ev::Val(v) => {
                    known.insert(name, v);
                    newly = true;
                }
                Ev::Err(_) => done!(Verdict::Error("constant-evaluation-error")),
                Ev::Unspec(m) => done!(Verdict::Unspec(m)),
            }
        }
        if newly {
            changed = true;
            out.states.push(digest(&world, &known));
        }
        // 2. chains
        let mut i = 0;
        while i < world.len() {
            let Item::If(chain, els) = &world[i] else {
                i += 1;
                continue;
            };
            let content = match decide(chain, &known) {
                Decision::Stuck => {
                    i += 1;
                    continue;
                }
                Decision::Err(m) => done!(Verdict::Error(m)),
                Decision::Unspec(m) => done!(Verdict::Unspec(m)),
                Decision::Arm(k) => {
                    for (c, _) in &chain[..=k] {
                        let mut vs = vec![];
                        vars(c, &mut vs);
                        out.decided_by_constant |= !vs.is_empty();
                    }
                    for (c, _) in &chain[k + 1..] {
                        tail_conds.push(c.clone());
                    }
                    chain[k].1.clone()
                }
                Decision::Else => {
                    for (c, _) in chain.iter() {
                        let mut vs = vec![];
                        vars(c, &mut vs);
                        out.decided_by_constant |= !vs.is_empty();
                    }
                    els.clone().unwrap_or_default()
                }
            };
            world.splice(i..=i, content);
            out.splices += 1;
            changed = true;
            out.states.push(digest(&world, &known));
            // do not advance: the spliced content may start with a chain that is decidable now
        }
        if !changed {
            break;
        }
    }

    // leftovers
    let stuck: Vec<&E> = world
        .iter()
        .filter_map(|it| match it {
            Item::If(chain, _) => chain.iter().map(|(c, _)| c).find(|c| matches!(eval_strict(c, &known), Ev::NotReady)),
            _ => None,
        })
        .collect();
    let any_leftover = world.iter().any(|it| matches!(it, Item::If(..)));
    if any_leftover {
        for c in &stuck {
            if lazily_decidable(c, &known).is_some() {
                done!(Verdict::Unspec("a lazy evaluator could decide the leftover condition"));
            }
        }
        for it in &world {
            let (name, e) = match it {
                Item::Const(n, e) => (n.clone(), e),
                Item::Sub(p, n, e) => (format!("{}.{}", p, n), e),
                _ => continue,
            };
            if !known.contains_key(&name) && lazily_decidable(e, &known).is_some() {
                done!(Verdict::Unspec("a lazy evaluator could resolve a constant the leftover condition may depend on"));
            }
        }
        done!(Verdict::Error("undecidable-condition"));
    }

    // visible declarations
    let mut declared: Vec<(String, bool)> = vec![];
    declared_anywhere(&world, &mut declared); // no chains left: all visible
    for (i, (n, _)) in declared.iter().enumerate() {
        if declared[..i].iter().any(|(m, _)| m == n) {
            done!(Verdict::Unspec("one name declared twice among the visible items"));
        }
    }
    for (i, it) in world.iter().enumerate() {
        if let Item::Sub(p, _, _) = it {
            // lexical scoping: the parent is the last level-0 symbol before it in the selected world
            // (a child of a child, `..name`: the nearest earlier declaration that is not a sibling under the same parent
            // must be that parent itself, a one-dot constant)
            let ok = world[..i].iter().rev().find_map(|w| match w {
                Item::Label(q) | Item::Const(q, _) => Some(q == p),
                Item::Sub(pp, n, _) if pp == p => {
                    let _ = n;
                    None
                }
                Item::Sub(pp, n, _) => Some(format!("{}.{}", pp, n) == *p),
                _ => None,
            }) == Some(true);
            if !ok {
                done!(Verdict::Unspec("local constant not directly under its parent"));
            }
        }
    }

    // defines must name a visible constant
    let mut anywhere = vec![];
    declared_anywhere(prog, &mut anywhere);
    let mut define_reason: Option<&'static str> = None;
    let rank = |r: &str| match r {
        "define-names-undeclared" => 3,
        "define-names-dead-arm-only" => 2,
        _ => 1,
    };
    for (n, _) in defines {
        let r = match declared.iter().find(|(m, _)| m == n) {
            Some((_, true)) => continue,
            Some((_, false)) => "define-names-label",
            None => {
                if anywhere.iter().any(|(m, _)| m == n) {
                    "define-names-dead-arm-only"
                } else {
                    "define-names-undeclared"
                }
            }
        };
        if define_reason.map(|d| rank(d) < rank(r)).unwrap_or(true) {
            define_reason = Some(r);
        }
    }

    // main pass: addresses, remaining constants, uses
    let mut env = known.clone();
    let mut addr: i64 = 0;
    for it in &world {
        match it {
            Item::Marker(_) | Item::Use(_) => addr += 1,
            Item::Label(n) => {
                env.insert(n.clone(), RVal::Int(Z::from(addr), None));
            }
            _ => {}
        }
    }
    loop {
        let mut progress = false;
        for it in &world {
            let (name, e) = match it {
                Item::Const(n, e) => (n.clone(), e),
                Item::Sub(p, n, e) => (format!("{}.{}", p, n), e),
                _ => continue,
            };
            if env.contains_key(&name) {
                continue;
            }
            match eval_strict(e, &env) {
                Ev::NotReady => {}
                Ev::Val(v) => {
                    env.insert(name, v);
                    progress = true;
                }
                Ev::Err(_) => done!(Verdict::Error("constant-evaluation-error")),
                Ev::Unspec(m) => done!(Verdict::Unspec(m)),
            }
        }
        if !progress {
            break;
        }
    }
    let mut cyclic = false;
    for it in &world {
        let (name, e) = match it {
            Item::Const(n, e) => (n.clone(), e),
            Item::Sub(p, n, e) => (format!("{}.{}", p, n), e),
            _ => continue,
        };
        if env.contains_key(&name) {
            continue;
        }
        let mut vs = vec![];
        vars(e, &mut vs);
        if vs.iter().any(|v| !declared.iter().any(|(m, _)| m == v)) {
            done!(Verdict::Error("live-code-mentions-invisible-name"));
        }
        cyclic = true;
    }
    let mut bytes = vec![];
    let mut unspec_use: Option<&'static str> = None;
    for it in &world {
        match it {
            Item::Marker(k) => bytes.push(*k),
            Item::Use(n) => {
                if !declared.iter().any(|(m, _)| m == n) {
                    done!(Verdict::Error("live-code-mentions-invisible-name"));
                }
                match env.get(n) {
                    Some(RVal::Int(z, sz)) if *z >= Z::from(-128) && *z <= Z::from(255) && sz.map(|s| s <= 8).unwrap_or(true) => {
                        let v: i64 = i64::try_from(z).unwrap();
                        bytes.push((v & 0xff) as u8);
                    }
                    Some(_) => unspec_use = Some("a boolean or an out-of-range value reaches #d8 (C04's business)"),
                    None => unspec_use = Some("cyclic constant"),
                }
            }
            _ => {}
        }
    }
    if let Some(r) = define_reason {
        done!(Verdict::Error(r));
    }
    if cyclic {
        done!(Verdict::Unspec("cyclic constant"));
    }
    if let Some(m) = unspec_use {
        done!(Verdict::Unspec(m));
    }
    for c in &tail_conds {
        if !matches!(eval_strict(c, &known), Ev::Val(RVal::Bool(_))) {
            done!(Verdict::Unspec("a condition AFTER the selected arm is not a decidable boolean"));
        }
    }
    let mut symbols = BTreeMap::new();
    for (n, _) in &declared {
        if let Some(RVal::Int(z, _)) = env.get(n) {
            symbols.insert(n.clone(), z.to_string());
        }
    }
    done!(Verdict::Ok { bytes, symbols });
}
