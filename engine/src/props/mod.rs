//! One module per property: alphabet, bound, oracle wiring.
use crate::stats::{Ctx, Report};

pub mod c01;
pub mod c02;
pub mod c03;
pub mod c03_iso;
pub mod c04;
pub mod c05;
pub mod c06;
pub mod c07;
pub mod c08;
pub mod c09;
pub mod c10;
pub mod c11;
pub mod c11_decoders;
pub mod c12;
pub mod c12_parse;
pub mod c13;
pub mod c14;
pub mod c14_model;
pub mod c15;
pub mod c16;
pub mod c16_extra;
pub mod c17;
pub mod c18;
pub mod c18_cli;
pub mod c19;
pub mod c16_model;

pub struct Prop {
    pub id: &'static str,
    pub run: fn(&Ctx) -> Report,
    /// re-judge one recorded case; returns the process exit code (1 = violation reproduced)
    pub replay: fn(&Ctx, &serde_json::Value) -> i32,
}

pub fn all() -> Vec<Prop> {
    vec![
        Prop { id: "C01", run: c01::run, replay: c01::replay },
        Prop { id: "C02", run: c02::run, replay: c02::replay },
        Prop { id: "C03", run: c03::run, replay: c03::replay },
        Prop { id: "C04", run: c04::run, replay: c04::replay },
        Prop { id: "C05", run: c05::run, replay: c05::replay },
        Prop { id: "C06", run: c06::run, replay: c06::replay },
        Prop { id: "C07", run: c07::run, replay: c07::replay },
        Prop { id: "C08", run: c08::run, replay: c08::replay },
        Prop { id: "C09", run: c09::run, replay: c09::replay },
        Prop { id: "C10", run: c10::run, replay: c10::replay },
        Prop { id: "C11", run: c11::run, replay: c11::replay },
        Prop { id: "C12", run: c12::run, replay: c12::replay },
        Prop { id: "C13", run: c13::run, replay: c13::replay },
        Prop { id: "C14", run: c14::run, replay: c14::replay },
        Prop { id: "C15", run: c15::run, replay: c15::replay },
        Prop { id: "C16", run: c16::run, replay: c16::replay },
        Prop { id: "C17", run: c17::run, replay: c17::replay },
        Prop { id: "C18", run: c18::run, replay: c18::replay },
        Prop { id: "C19", run: c19::run, replay: c19::replay },
    ]
}

pub fn find(id: &str) -> Option<Prop> {
    all().into_iter().find(|p| p.id == id)
}

/// Generic replay helper: print what a re-run observes; `judge` returns violations for the case.
pub fn replay_with(ctx: &Ctx, case: &serde_json::Value, judge: impl Fn(&serde_json::Value, &mut crate::stats::Local)) -> i32 {
    let mut l = crate::stats::Local::new();
    judge(case, &mut l);
    // determinism: judge twice, same number of violations
    let mut l2 = crate::stats::Local::new();
    judge(case, &mut l2);
    if l.violations.len() != l2.violations.len() {
        eprintln!("replay is not deterministic ({} vs {} violations)", l.violations.len(), l2.violations.len());
        return 2;
    }
    if l.violations.is_empty() {
        println!("replay: case no longer violates {}", ctx.id);
        0
    } else {
        for v in &l.violations {
            println!("replay: VIOLATION property={} [{}] {}", v.property, v.key, v.what);
            println!("{}", serde_json::to_string_pretty(&v.case).unwrap());
        }
        1
    }
}
