//! C17 — asm blocks and user functions mean what their expansion means.
//! Macro rules over all pairs (thorough: triples) of base instructions x operand sources x local
//! label positions x parameter typing x call arguments x surrounding programs, each compared with
//! the hand-inlined program (real vs real, and the reference assembler on the inlined program);
//! user functions compared with their substituted bodies; recursion depth sweeps.
use super::c01;
use super::c05;
use crate::refasm::*;
use crate::refx::{self, Env, E};
use crate::run::{self, Opts};
use crate::stats::*;
use serde_json::json;

pub const ID: &str = "C17";

fn base_rules() -> Vec<RuleSrc> {
    vec![
        RuleSrc::new("nop", "0x00"),
        RuleSrc::new("ld {x: u8}", "0x10 @ x"),
        RuleSrc::new("ldw {x: u16}", "0x20 @ x"),
        RuleSrc::new("jr {x}", "0x30 @ (x - $)`8"),
        RuleSrc::new("jp {x}", "0x40 @ le(x`16)"),
        RuleSrc::new("st {x}", "0x50 @ x[7:0]"),
        RuleSrc::new("lds {s: srcx}", "0x60 @ 0x0 @ s"),
        RuleSrc::new("{x: u8} !", "0x90 @ x"),
    ]
}

/// operands with an expression parameter of their own (immediate / absolute)
fn srcx_def() -> RuleDefSrc {
    RuleDefSrc { name: Some("srcx".into()), sub: true, rules: vec![RuleSrc::new("#{v: u8}", "0x1 @ v"), RuleSrc::new("{v: u8}", "0x2 @ v")] }
}

const MNEMONICS: [&str; 5] = ["ld", "ldw", "jr", "jp", "st"];
const OPERANDS: [&str; 7] = ["{p}", "{q}", "5", "l", "G", "H", "$"];

/// inner instruction forms: `nop` + every mnemonic x operand source
fn inner_forms() -> Vec<String> {
    let mut v = vec!["nop".to_string()];
    for m in MNEMONICS {
        for o in OPERANDS {
            v.push(format!("{} {}", m, o));
        }
    }
    // through a sub-rule with its own expression parameter
    for o in ["#l", "#{p}", "l", "#G", "#$"] {
        v.push(format!("lds {}", o));
    }
    // a substitution as the very first token of the line, and two substitutions next to each other
    v.push("{p} !".to_string());
    v.push("ld {p}{q}".to_string());
    // the substituted text next to an operator: the argument's TOKENS are spliced in, not its value
    v.push("ld {q} * 2".to_string());
    v.push("ld 2 * {q}".to_string());
    v
}

#[derive(Clone)]
struct MacroCase {
    body: Vec<String>,
    /// position of `l:` inside the block (0..=len), if any inner form uses `l`
    label_pos: usize,
    typed: bool,
    args: (&'static str, &'static str),
    prefix: &'static [&'static str],
    suffix: &'static [&'static str],
    nest: usize,
    /// assemble inside a bank whose address unit is 4 bits (labels and `$` count nibbles)
    unit4: bool,
}

const ARGS: [(&str, &str); 5] = [("1", "2"), ("G", "H"), ("$", "1 + 2"), ("H - G", "0x0f"), ("300", "2")];
const PREFIXES: [&[&str]; 3] = [&[], &["nop"], &["ld 7", "nop"]];
const SUFFIXES: [&[&str]; 2] = [&[], &["ldw H"]];

fn uses_l(body: &[String]) -> bool {
    body.iter().any(|b| b.ends_with(" l") || b.ends_with("#l"))
}

fn render_macro(c: &MacroCase) -> String {
    let mut s = srcx_def().render();
    s += "#ruledef\n{\n";
    for r in base_rules() {
        s += &format!("    {} => {}\n", r.pattern, r.prod);
    }
    let (p, q) = if c.typed { ("{p: u8}", "{q: u8}") } else { ("{p}", "{q}") };
    let mut lines: Vec<String> = vec![];
    for (i, b) in c.body.iter().enumerate() {
        if uses_l(&c.body) && i == c.label_pos {
            lines.push("l:".into());
        }
        lines.push(b.clone());
    }
    if uses_l(&c.body) && c.label_pos >= c.body.len() {
        lines.push("l:".into());
    }
    s += &format!("    m0 {}, {} => asm {{\n        {}\n    }}\n", p, q, lines.join("\n        "));
    // nesting: m1 calls m0, m2 calls m1 (arguments passed through textually)
    for n in 1..=c.nest {
        s += &format!("    m{} {{p}}, {{q}} => asm {{ m{} {{p}}, {{q}} }}\n", n, n - 1);
    }
    s += "}\n";
    if c.unit4 {
        s += "#bankdef n { bits = 4, addr = 0, outp = 0 }\n";
    }
    s += "G:\n";
    for x in c.prefix {
        s += x;
        s += "\n";
    }
    s += &format!("m{} {}, {}\n", c.nest, c.args.0, c.args.1);
    for x in c.suffix {
        s += x;
        s += "\n";
    }
    s += "H:\n#d8 0xff\n";
    s
}

fn inlined_prog(c: &MacroCase) -> Prog {
    let mut items = vec![];
    if c.unit4 {
        items.push(Item::Bankdef(BankSrc { name: "n".into(), bits: Some(4), addr: Some(0), size: None, outp: Some(0), fill: false, labelalign: None }));
    }
    items.push(Item::Label("G".into()));
    for x in c.prefix {
        match x.strip_suffix(':') {
            Some(name) => items.push(Item::Label(name.to_string())),
            None => items.push(Item::Instr(x.to_string())),
        }
    }
    let sub = |b: &str| -> String { b.replace("{p}", c.args.0).replace("{q}", c.args.1).replace(" l", " zl_0").replace("#l", "#zl_0") };
    for (i, b) in c.body.iter().enumerate() {
        if uses_l(&c.body) && i == c.label_pos {
            items.push(Item::Label("zl_0".into()));
        }
        items.push(Item::Instr(sub(b)));
    }
    if uses_l(&c.body) && c.label_pos >= c.body.len() {
        items.push(Item::Label("zl_0".into()));
    }
    for x in c.suffix {
        items.push(Item::Instr(x.to_string()));
    }
    items.push(Item::Label("H".into()));
    items.push(Item::Data(Some(8), vec!["0xff".into()]));
    Prog { ruledefs: vec![srcx_def(), RuleDefSrc { name: None, sub: false, rules: base_rules() }], items }
}

fn judge_macro(c: &MacroCase, l: &mut Local) {
    let msrc = render_macro(c);
    let inl = inlined_prog(c);
    let isrc = inl.render();
    let opts = Opts::iters(10);
    l.eval();
    let mo = run::assemble_str(&msrc, &opts);
    l.eval();
    let io = run::assemble_str(&isrc, &opts);
    let r = assemble(&inl);
    // typed parameters add a range check at the call site that the inlined program does not have
    let typed_may_reject = c.typed;
    let mut bad: Option<(String, &'static str)> = None;
    if mo.panicked.is_some() {
        bad = Some(("C17:panic".into(), "panic in the macro program"));
    } else if c01::disagreement(&io, &r).is_some() {
        // the inlined program itself disagrees with the reference: C01's business, no verdict here
        l.count("inlined_program_disagrees_with_reference_left_to_C01", 1);
        if std::env::var("C17_DEBUG").is_ok() {
            eprintln!("DISAGREE {:?}: {} || ref: {} || real: {}", c01::disagreement(&io, &r), isrc[isrc.find("G:").unwrap_or(0)..].replace('\n', " / "), c01::ref_summary(&r), io.summary());
        }
        return;
    } else if io.success() {
        if mo.success() {
            if mo.bits != io.bits {
                bad = Some(("C17:macro-bits-differ-from-inlined".into(), "the macro call assembles to other bits than the inlined block"));
            }
        } else if !(typed_may_reject && mo.failure()) {
            // classify the known deviation (DESIGN §7 #14): a forward GLOBAL label used inside the block
            let fwd_global = c.body.iter().any(|b| b.ends_with(" H")) || c.args.0.contains('H') && c.body.iter().any(|b| b.contains("{p}")) || c.args.1.contains('H') && c.body.iter().any(|b| b.contains("{q}"));
            let key = if fwd_global { "C17:forward-global-label-inside-asm-block" } else { "C17:macro-rejected-but-inlined-assembles" };
            bad = Some((key.into(), "the inlined block assembles but the macro call is rejected"));
        }
    } else if io.failure() && mo.ok {
        bad = Some(("C17:macro-assembles-but-inlined-rejected".into(), "the macro call assembles although the inlined block is rejected"));
    }
    l.traces_validated += 1;
    l.nontrivial(&msrc);
    l.class(if io.success() { "inlined-ok" } else { "inlined-rejected" });
    if mo.success() && uses_l(&c.body) {
        l.class("macro-with-local-label-ok");
    }
    if let Some((key, what)) = bad {
        l.violation(Violation {
            property: ID,
            key,
            what: format!("{}: {}", what, msrc.replace('\n', " / ")),
            case: json!({"family": "macro", "program": msrc, "inlined": isrc, "expected": io.summary(), "observed": mo.summary()}),
        });
    }
    l.sample(|| json!({"family": "macro", "program": msrc, "inlined": isrc}));
}

// ---- text inside the block that is not ASCII ----------------------------------------------------------------
// The block is taken from the rule body as TEXT: strings and comments inside it may hold multi-byte characters, and the
// block still ends at its own closing brace, however many blanks stand before it.

const NA_LINES: [&str; 6] = ["str \"\u{e9}\u{2192}\", {n}", "str \"\u{fc}\", {n} ; \u{e9}\u{2192}\u{1f600}", "nop ;* \u{e9}\u{2192} *;", "nop", "str \"a\u{1f600}\", 2", ";* \u{e9}\u{e9}\u{e9}\u{e9} *; str \"z\", {n}"];
const NA_CLOSINGS: [&str; 5] = ["\n    }", " }", "}", "  }", " ;* \u{2192}\u{2192} *; }"];
const NA_ARGS: [&str; 3] = ["7", "G", "H - G"];

fn judge_nonascii_macro(seq: &[usize], closing: usize, arg: usize, l: &mut Local) {
    let close = NA_CLOSINGS[closing];
    let last = NA_LINES[*seq.last().unwrap()];
    if !close.starts_with('\n') && last.contains(" ; ") {
        return; // a line comment would swallow the brace
    }
    let rules = "    nop => 0x00\n    str {s}, {n: u8} => s @ n\n";
    let mut m = format!("#ruledef\n{{\n{}    m {{n}} => asm {{\n", rules);
    let mut inl = format!("#ruledef\n{{\n{}}}\nG:\nnop\n", rules);
    for (i, x) in seq.iter().enumerate() {
        m += "        ";
        m += NA_LINES[*x];
        if i + 1 < seq.len() {
            m += "\n";
        }
        inl += &NA_LINES[*x].replace("{n}", NA_ARGS[arg]);
        inl += "\n";
    }
    m += close;
    m += "\n}\nG:\nnop\n";
    m += &format!("m {}\n", NA_ARGS[arg]);
    m += "H:\n#d8 0xff\n";
    inl += "H:\n#d8 0xff\n";
    let opts = Opts::iters(10);
    l.eval();
    let mo = run::assemble_str(&m, &opts);
    l.eval();
    let io = run::assemble_str(&inl, &opts);
    l.nontrivial(&m);
    l.traces_validated += 1;
    if !io.success() {
        l.class("non-ascii-inlined-not-ok");
        l.unspecified += 1;
        return;
    }
    l.class("non-ascii-inlined-ok");
    let bad = if mo.panicked.is_some() {
        Some(("C17:panic", "panic in the macro program"))
    } else if !mo.success() {
        Some(("C17:macro-rejected-but-inlined-assembles", "the inlined block assembles but the macro call is rejected"))
    } else if mo.bits != io.bits {
        Some(("C17:macro-bits-differ-from-inlined", "the macro call assembles to other bits than the inlined block"))
    } else {
        None
    };
    if let Some((key, what)) = bad {
        l.violation(Violation {
            property: ID,
            key: key.into(),
            what: format!("{}: {}", what, m.replace('\n', " / ")),
            case: json!({"family": "macro-non-ascii", "program": m, "inlined": inl, "expected": io.summary(), "observed": mo.summary()}),
        });
    }
}

// ---- inner instructions whose whole encoding is a negative sized value ---------------------------------------
// `db {x: s8} => x` with a negative argument: the block's value is the inner encodings joined bit by bit.

const NEG_LINES: [&str; 5] = ["op {a}", "db {b}", "dw {b}", "nop", "db {a}"];
const NEG_ARGS: [(&str, &str); 5] = [("0x22", "-2"), ("1", "-128"), ("5", "3"), ("0", "-1"), ("-1", "0x7f")];

fn judge_negative_encoding_macro(seq: &[usize], arg: usize, l: &mut Local) {
    let rules = "    nop => 0x00\n    op {a} => 0x10 @ a`8\n    db {x: s8} => x\n    dw {x: i16} => x\n";
    let (a, b) = NEG_ARGS[arg];
    let mut m = format!("#ruledef\n{{\n{}    pair {{a}}, {{b}} => asm {{\n", rules);
    let mut inl = format!("#ruledef\n{{\n{}}}\nG:\nnop\n", rules);
    for x in seq {
        m += "        ";
        m += NEG_LINES[*x];
        m += "\n";
        inl += &NEG_LINES[*x].replace("{a}", a).replace("{b}", b);
        inl += "\n";
    }
    m += &format!("    }}\n}}\nG:\nnop\npair {}, {}\nH:\n#d8 0xff\n", a, b);
    inl += "H:\n#d8 0xff\n";
    let opts = Opts::iters(10);
    l.eval();
    let mo = run::assemble_str(&m, &opts);
    l.eval();
    let io = run::assemble_str(&inl, &opts);
    l.nontrivial(&m);
    l.traces_validated += 1;
    l.class(if io.success() { "negative-encoding-inlined-ok" } else { "negative-encoding-inlined-rejected" });
    let bad = if mo.panicked.is_some() {
        Some(("C17:panic", "panic in the macro program"))
    } else if io.success() && !mo.success() {
        Some(("C17:macro-rejected-but-inlined-assembles", "the inlined block assembles but the macro call is rejected"))
    } else if io.success() && mo.bits != io.bits {
        Some(("C17:macro-bits-differ-from-inlined", "the macro call assembles to other bits than the inlined block"))
    } else if io.failure() && mo.ok {
        Some(("C17:macro-assembles-but-inlined-rejected", "the macro call assembles although the inlined block is rejected"))
    } else {
        None
    };
    if let Some((key, what)) = bad {
        l.violation(Violation {
            property: ID,
            key: key.into(),
            what: format!("{}: {}", what, m.replace('\n', " / ")),
            case: json!({"family": "macro-negative-encoding", "program": m, "inlined": inl, "expected": io.summary(), "observed": mo.summary()}),
        });
    }
}

// ---- value-dependent inner instructions: certificate by search (DESIGN §4 C17) -------------------------

fn cascade_rules() -> Vec<RuleSrc> {
    let mut r = base_rules();
    r.push(RuleSrc::new("jmp {a}", "{ assert(a < 4), 0xa @ a`4 }"));
    r.push(RuleSrc::new("jmp {a}", "0xb0 @ a`8"));
    r
}

const CASCADE_FORMS: [&str; 9] = ["nop", "ld {p}", "jmp {p}", "jmp {q}", "jmp l", "jmp G", "jmp H", "jmp $", "jr l"];

/// The inner label values are not observable, so nothing is predicted: every assignment of a
/// candidate size (8 or 16 bits) to each inner `jmp` is tried on the hand-inlined program; the macro
/// result is accepted iff some assignment is self-consistent (every instruction re-selects exactly
/// that size as its unique smallest encoding) and reproduces the emitted bits exactly.
fn judge_cascade(body: &[String], label_pos: usize, args: (&'static str, &'static str), prefix: &'static [&'static str], budget: usize, l: &mut Local) {
    let c = MacroCase { body: body.to_vec(), label_pos, typed: false, args, prefix, suffix: SUFFIXES[0], nest: 0, unit4: false };
    let msrc = render_macro(&c).replace("    nop => 0x00\n", "    nop => 0x00\n    jmp {a} => { assert(a < 4), 0xa @ a`4 }\n    jmp {a} => 0xb0 @ a`8\n");
    let mut inl = inlined_prog(&c);
    inl.ruledefs = vec![srcx_def(), RuleDefSrc { name: None, sub: false, rules: cascade_rules() }];
    l.eval();
    let mo = run::assemble_str(&msrc, &Opts::iters(budget));
    l.nontrivial(&(&msrc, budget));
    if mo.panicked.is_some() {
        l.violation(Violation { property: ID, key: "C17:panic".into(), what: format!("panic: {}", msrc.replace('\n', " / ")), case: json!({"family": "cascade-macro", "program": msrc, "observed": mo.summary()}) });
        return;
    }
    if !mo.success() {
        l.class(if mo.failure() { "cascade-macro-not-converged-or-rejected" } else { "cascade-macro-unclean" });
        if !mo.failure() {
            l.violation(Violation { property: ID, key: "C17:unclean-outcome".into(), what: "neither clean success nor clean failure".into(), case: json!({"family": "cascade-macro", "program": msrc, "observed": mo.summary()}) });
        }
        return;
    }
    l.class("cascade-macro-ok");
    // instruction items of the inlined program and which of them are value-dependent
    let instrs: Vec<&String> = inl.items.iter().filter_map(|i| if let Item::Instr(s) = i { Some(s) } else { None }).collect();
    let fixed_size = |s: &str| -> Option<usize> {
        if s.starts_with("jmp ") {
            None
        } else if s == "nop" {
            Some(8)
        } else if s.starts_with("ldw ") || s.starts_with("jp ") || s.starts_with("lds ") {
            Some(24)
        } else {
            Some(16)
        }
    };
    let free: Vec<usize> = instrs.iter().enumerate().filter(|(_, s)| fixed_size(s).is_none()).map(|(i, _)| i).collect();
    let mut certified = false;
    let mut tried = 0;
    for mask in 0u32..(1 << free.len()) {
        let mut sizes: Vec<usize> = instrs.iter().map(|s| fixed_size(s).unwrap_or(8)).collect();
        for (k, fi) in free.iter().enumerate() {
            sizes[*fi] = if mask & (1 << k) != 0 { 16 } else { 8 };
        }
        tried += 1;
        match assemble_with(&inl, Some(&sizes)) {
            RefOut::Ok(ok) => {
                if ok.bits == mo.bits {
                    certified = true;
                    break;
                }
            }
            RefOut::Unspec(_) => {
                l.unspecified += 1;
                return;
            }
            RefOut::Error(_) => {}
        }
    }
    l.traces_validated += 1;
    l.count("size_assignments_tried", tried);
    if !certified {
        l.violation(Violation {
            property: ID,
            key: "C17:macro-result-is-not-a-consistent-solution-of-the-inlined-program".into(),
            what: format!("no self-consistent size assignment of the inlined block reproduces the macro's bits [iters={}]: {}", budget, msrc.replace('\n', " / ")),
            case: json!({"family": "cascade-macro", "program": msrc, "inlined": inl.render(), "budget": budget, "observed": mo.summary()}),
        });
    }
}

// ---- typed forward references across macro calls ---------------------------------------------------------
// A macro call has no size before it resolves, so a label behind it is first under-estimated; a narrow typed
// parameter that reads that label is in range early and out of range in the end (or the reverse). The macro
// program must behave like the inlined one: rejected when the final value does not fit (no fallback rule), or a
// self-consistent choice between the narrow and the wide form (fallback rule present).

const TA_ITEMS: [&str; 5] = ["ldn T", "far", "nop", "ldw T", "farp T"];

fn ta_source(seq: &[usize], label_at: usize, fallback: bool) -> (String, Prog) {
    let mut rules = vec![RuleSrc::new("nop", "0x00"), RuleSrc::new("ldn {x: u2}", "0b101010 @ x")];
    if fallback {
        rules.push(RuleSrc::new("ldn {x: u8}", "0xb0 @ x"));
    }
    rules.push(RuleSrc::new("ldw {x: u16}", "0x20 @ x"));
    let mut s = String::from("#ruledef\n{\n");
    for r in &rules {
        s += &format!("    {} => {}\n", r.pattern, r.prod);
    }
    s += "    far => asm {\n        nop\n        nop\n        nop\n    }\n    farp {p} => asm {\n        ldw {p}\n        nop\n    }\n}\n";
    let mut items = vec![];
    for (i, x) in seq.iter().enumerate() {
        if i == label_at {
            s += "T:\n";
            items.push(Item::Label("T".into()));
        }
        let it = TA_ITEMS[*x];
        s += it;
        s += "\n";
        match it {
            "far" => {
                for _ in 0..3 {
                    items.push(Item::Instr("nop".into()));
                }
            }
            "farp T" => {
                items.push(Item::Instr("ldw T".into()));
                items.push(Item::Instr("nop".into()));
            }
            _ => items.push(Item::Instr(it.into())),
        }
    }
    if label_at >= seq.len() {
        s += "T:\n";
        items.push(Item::Label("T".into()));
    }
    s += "#d8 0xff\n";
    items.push(Item::Data(Some(8), vec!["0xff".into()]));
    (s, Prog { ruledefs: vec![RuleDefSrc { name: None, sub: false, rules }], items })
}

fn judge_typed_across(seq: &[usize], label_at: usize, fallback: bool, budget: usize, l: &mut Local) {
    let (msrc, inl) = ta_source(seq, label_at, fallback);
    let isrc = inl.render();
    l.eval();
    let mo = run::assemble_str(&msrc, &Opts::iters(budget));
    l.nontrivial(&(&msrc, budget));
    let viol = |l: &mut Local, key: &str, what: &str, expected: String| {
        l.violation(Violation {
            property: ID,
            key: key.into(),
            what: format!("{} [iters={}]: {}", what, budget, msrc.replace('\n', " / ")),
            case: json!({"family": "typed-across-macro", "program": msrc, "inlined": isrc, "budget": budget, "expected": expected, "observed": mo.summary()}),
        });
    };
    if mo.panicked.is_some() {
        viol(l, "C17:panic", "panic in the macro program", String::new());
        return;
    }
    if !mo.success() && !mo.failure() {
        viol(l, "C17:unclean-outcome", "neither clean success nor clean failure", String::new());
        return;
    }
    if !fallback {
        // size-static inlined program: one layout, decided by the reference and by the subject itself
        l.eval();
        let io = run::assemble_str(&isrc, &Opts::iters(budget));
        let r = assemble(&inl);
        if c01::disagreement(&io, &r).is_some() {
            l.count("inlined_program_disagrees_with_reference_left_to_C01", 1);
            return;
        }
        l.traces_validated += 1;
        l.class(if io.success() { "typed-across-inlined-ok" } else { "typed-across-inlined-rejected" });
        if io.failure() && mo.ok {
            viol(l, "C17:macro-assembles-but-inlined-rejected", "the program with macro calls assembles although the inlined program is rejected", io.summary().to_string());
        } else if io.success() && mo.success() && mo.bits != io.bits {
            viol(l, "C17:macro-bits-differ-from-inlined", "the program with macro calls assembles to other bits than the inlined one", io.summary().to_string());
        } else if io.success() && mo.failure() && budget >= 10 {
            viol(l, "C17:macro-rejected-but-inlined-assembles", "the inlined program assembles but the program with macro calls is rejected", io.summary().to_string());
        }
        return;
    }
    // fallback rule present: `ldn T` is 8 or 16 bits depending on T; a success must be a consistent solution
    if !mo.success() {
        l.class("typed-across-fallback-not-converged-or-rejected");
        return;
    }
    l.class("typed-across-fallback-ok");
    let instrs: Vec<&String> = inl.items.iter().filter_map(|i| if let Item::Instr(s) = i { Some(s) } else { None }).collect();
    let fixed = |s: &str| -> Option<usize> {
        match s {
            "nop" => Some(8),
            "ldw T" => Some(24),
            _ => None,
        }
    };
    let free: Vec<usize> = instrs.iter().enumerate().filter(|(_, s)| fixed(s).is_none()).map(|(i, _)| i).collect();
    let mut certified = false;
    for mask in 0u32..(1 << free.len()) {
        let mut sizes: Vec<usize> = instrs.iter().map(|s| fixed(s).unwrap_or(8)).collect();
        for (k, fi) in free.iter().enumerate() {
            sizes[*fi] = if mask & (1 << k) != 0 { 16 } else { 8 };
        }
        match assemble_with(&inl, Some(&sizes)) {
            RefOut::Ok(ok) => {
                if ok.bits == mo.bits {
                    certified = true;
                    break;
                }
            }
            RefOut::Unspec(_) => {
                l.unspecified += 1;
                return;
            }
            RefOut::Error(_) => {}
        }
    }
    l.traces_validated += 1;
    if !certified {
        viol(l, "C17:macro-result-is-not-a-consistent-solution-of-the-inlined-program", "no self-consistent choice of narrow/wide forms in the inlined program reproduces the bits of the program with macro calls", String::new());
    }
}

// ---- functions --------------------------------------------------------------------------------------

fn fn_trees() -> Vec<E> {
    // depth-1 trees over parameters a, b and literals
    let leaves = vec![E::var("a"), E::var("b"), E::int(1), E::int(2), E::num("0x0f"), E::Bool(true)];
    let mut v = vec![];
    use refx::{BinOp, UnOp, ALL_BIN};
    for op in [UnOp::Neg, UnOp::Not] {
        for a in &leaves {
            v.push(E::un(op, a.clone()));
        }
    }
    for op in ALL_BIN {
        for a in &leaves {
            for b in &leaves {
                v.push(E::bin(op, a.clone(), b.clone()));
            }
        }
    }
    for a in &leaves {
        for b in &leaves {
            v.push(E::Tern(Box::new(E::bin(BinOp::Lt, a.clone(), b.clone())), Box::new(a.clone()), Box::new(b.clone())));
            v.push(E::Slice(Box::new(a.clone()), Box::new(E::int(5)), Box::new(b.clone())));
            v.push(E::Short(Box::new(a.clone()), Box::new(E::int(4))));
        }
    }
    // depth 2 with both parameters
    for op1 in [BinOp::Add, BinOp::Mul, BinOp::Sub, BinOp::Shl, BinOp::And] {
        for op2 in [BinOp::Add, BinOp::Sub, BinOp::Mul, BinOp::Concat] {
            v.push(E::bin(op2, E::bin(op1, E::var("a"), E::var("b")), E::var("a")));
            v.push(E::bin(op2, E::var("b"), E::bin(op1, E::var("b"), E::var("a"))));
        }
    }
    v
}

const FN_ARGS: [(&str, &str); 5] = [("3", "-2"), ("0", "7"), ("0x10", "0b11"), ("1 + 2", "k"), ("-1", "-1")];

fn subst(e: &E, a: &E, b: &E) -> E {
    match e {
        E::Var(n) if n == "a" => a.clone(),
        E::Var(n) if n == "b" => b.clone(),
        E::Num(_) | E::Bool(_) | E::Str(_) | E::Var(_) => e.clone(),
        E::Un(o, x) => E::Un(*o, Box::new(subst(x, a, b))),
        E::Bin(o, x, y) => E::Bin(*o, Box::new(subst(x, a, b)), Box::new(subst(y, a, b))),
        E::Tern(x, y, z) => E::Tern(Box::new(subst(x, a, b)), Box::new(subst(y, a, b)), Box::new(subst(z, a, b))),
        E::Slice(x, y, z) => E::Slice(Box::new(subst(x, a, b)), Box::new(subst(y, a, b)), Box::new(subst(z, a, b))),
        E::Short(x, y) => E::Short(Box::new(subst(x, a, b)), Box::new(subst(y, a, b))),
        E::Call(f, args) => E::Call(f.clone(), args.iter().map(|x| subst(x, a, b)).collect()),
        E::Block(args) => E::Block(args.iter().map(|x| subst(x, a, b)).collect()),
    }
}

fn judge_fn(tree: &E, args: (&str, &str), l: &mut Local) {
    let a = crate::refparse::parse_all(args.0).unwrap();
    let b = crate::refparse::parse_all(args.1).unwrap();
    let body = tree.print(false);
    let direct = subst(tree, &a, &b);
    let fsrc = format!("k = 4\n#fn f(a, b) => {}\nx = f({}, {})\n", body, args.0, args.1);
    let dsrc = format!("k = 4\nx = {}\n", direct.print(false));
    let mut env = Env::new();
    env.set("k", refx::RVal::Int(refx::Z::from(4), None));
    let expected = refx::eval(&direct, &env);
    l.eval();
    let fo = run::assemble_str(&fsrc, &Opts::default());
    l.eval();
    let d_o = run::assemble_str(&dsrc, &Opts::default());
    let val = |o: &run::Obs| o.symbols.iter().find(|s| s.0 == "x").map(|s| s.1.clone());
    l.nontrivial(&fsrc);
    l.class("function");
    let bad = if fo.panicked.is_some() {
        Some("panic")
    } else if fo.success() != d_o.success() {
        Some("a call to a user function succeeds/fails differently from its substituted body")
    } else if fo.success() && val(&fo) != val(&d_o) {
        Some("a call to a user function does not equal its body with the arguments bound")
    } else {
        // and both agree with the reference evaluator where it is defined
        match &expected {
            Ok(refx::RVal::Int(z, _)) if fo.success() => (val(&fo) != Some(format!("0x{:x}", z))).then_some("function value differs from the reference evaluator"),
            Err(refx::RErr::Error(_)) if fo.success() => Some("ill-defined function body yields a value"),
            _ => None,
        }
    };
    l.traces_validated += 1;
    if let Some(b) = bad {
        l.violation(Violation {
            property: ID,
            key: format!("C17:function:{}", b),
            what: format!("{}: {}", b, fsrc.replace('\n', " / ")),
            case: json!({"family": "function", "program": fsrc, "inlined": dsrc, "expected": d_o.summary(), "observed": fo.summary(), "reference": format!("{:?}", expected)}),
        });
    }
    let _ = c05::ID;
}

/// functions whose bodies depend on the position or on labels, called from rule productions that sit
/// behind an instruction whose size shrinks after the first pass: call == body with arguments bound
fn fn_in_rules_cases() -> Vec<(String, String)> {
    let head = "#ruledef\n{\n    jmp {a} => { assert(a < 4), 0xa @ a`4 }\n    jmp {a} => 0xb0 @ a`8\n    nop => 0x00\n";
    // `ldk`: the rule has a parameter named like the global constant the function body reads
    let with_fn = "    pos => 0xaa @ here()`8\n    dist {t} => 0xbb @ d(t)`8\n    far => 0xcc @ lab()`8\n    ldk {k: u8}, {v: u8} => 0xa0 @ k @ addk(v)`8\n    ldf {x} => 0x10 @ fit8(x)\n    ldf {x} => 0x20 @ x`16\n}\n#fn fit8(v) => { assert(v >= 0 && v < 0x100), v`8 }\n#fn here() => $\n#fn d(t) => $ - t\n#fn lab() => E\n#fn addk(v) => v + k\nk = 0x10\n";
    let inlined = "    pos => 0xaa @ ($)`8\n    dist {t} => 0xbb @ ($ - t)`8\n    far => 0xcc @ (E)`8\n    ldk {k2: u8}, {v: u8} => 0xa0 @ k2 @ (v + k)`8\n    ldf {x} => 0x10 @ { assert(x >= 0 && x < 0x100), x`8 }\n    ldf {x} => 0x20 @ x`16\n}\nk = 0x10\n";
    let items = ["jmp E", "jmp 2", "pos", "dist E", "dist 0", "far", "nop", "#d8 here()|#d8 $", "E:", "ldk 1, 2", "ldf 0x1234", "ldf 5"];
    let k = items.len() as u64;
    let mut out = vec![];
    for i in 0..seq_count(k, 4) {
        let seq = seq_decode(i, k, 4);
        if seq.is_empty() || seq.iter().filter(|x| items[**x] == "E:").count() > 1 {
            continue;
        }
        let has_e = seq.iter().any(|x| items[*x] == "E:");
        let mut a = String::new();
        let mut b = String::new();
        for s in &seq {
            let it = items[*s];
            let (x, y) = match it.split_once('|') {
                Some((x, y)) => (x, y),
                None => (it, it),
            };
            a += x;
            a += "\n";
            b += y;
            b += "\n";
        }
        let tail = if has_e { "#d8 0xff\n" } else { "E:\n#d8 0xff\n" };
        out.push((format!("{}{}{}{}", head, with_fn, a, tail), format!("{}{}{}{}", head, inlined, b, tail)));
    }
    out
}

fn judge_fn_in_rules(c: &(String, String), l: &mut Local) {
    let o = Opts::default();
    l.eval();
    let f = run::assemble_str(&c.0, &o);
    l.eval();
    let i = run::assemble_str(&c.1, &o);
    l.nontrivial(&c.0);
    l.class("function-in-rule-production");
    let bad = if f.panicked.is_some() {
        Some("panic")
    } else if f.success() != i.success() {
        Some("function calls in productions succeed/fail differently from their bodies")
    } else if f.success() && f.bits != i.bits {
        Some("function calls in productions do not equal their bodies evaluated in place")
    } else {
        None
    };
    l.traces_validated += 1;
    if let Some(b) = bad {
        l.violation(Violation { property: ID, key: format!("C17:function-in-production:{}", b), what: format!("{}: {}", b, c.0.replace('\n', " / ")), case: json!({"family": "function-in-production", "program": c.0, "inlined": c.1, "expected": i.summary(), "observed": f.summary()}) });
    }
}

/// asm blocks inside user functions: the block sees the FUNCTION's arguments, whatever the calling rule's parameters
/// are called (expected bytes written down by hand)
fn judge_fn_with_asm(l: &mut Local) {
    let cases: Vec<(&str, Vec<u8>)> = vec![
        ("#ruledef\n{\n    emit {x: u8} => x\n    pair {v: u8} => twice(v + 1)\n}\n#fn twice(v) => asm { emit {v} } @ asm { emit {v} }\npair 4\n", vec![5, 5]),
        ("#ruledef\n{\n    emit {x: u8} => x\n    pair {w: u8} => twice(w + 1)\n}\n#fn twice(v) => asm { emit {v} } @ asm { emit {v} }\npair 4\n", vec![5, 5]),
        ("#ruledef\n{\n    emit {x: u8} => x\n    pair {v: u8} => both(v, v + 2)\n}\n#fn both(a, v) => asm { emit {a} } @ asm { emit {v} }\npair 4\n", vec![4, 6]),
        ("#ruledef\n{\n    emit {x: u8} => x\n}\n#fn twice(v) => asm { emit {v} } @ asm { emit {v} }\n#d twice(7)\nk = twice(8)\n#d k\n", vec![7, 7, 8, 8]),
    ];
    for (src, want) in cases {
        l.eval();
        l.nontrivial(&src);
        l.class("function-with-asm-block");
        let o = run::assemble_str(src, &Opts::default());
        let bits: String = want.iter().map(|b| format!("{:08b}", b)).collect();
        l.traces_validated += 1;
        if o.panicked.is_some() || !o.success() || o.bits != bits {
            l.violation(Violation { property: ID, key: "C17:function-with-asm-block".into(), what: format!("a function whose body contains asm blocks does not equal its body with the arguments bound: {} (expected {:02x?})", src.replace('\n', " / "), want), case: json!({"family": "function-with-asm", "program": src, "expected_bytes": want, "observed": o.summary()}) });
        }
    }
}

fn judge_recursion(l: &mut Local) {
    // f(n) = n == 0 ? 0 : f(n-1) + 1 : value n or a clean error; once an error, always an error
    let mut failed_at: Option<usize> = None;
    for n in 1..=40usize {
        let src = format!("#fn f(n) => n == 0 ? 0 : f(n - 1) + 1\nx = f({})\n", n);
        l.eval();
        let o = run::assemble_str(&src, &Opts::default());
        l.nontrivial(&src);
        let v = o.symbols.iter().find(|s| s.0 == "x").map(|s| s.1.clone());
        let bad = if o.panicked.is_some() {
            Some("panic")
        } else if o.success() {
            if failed_at.is_some() {
                Some("recursion succeeds at a depth above one that already failed")
            } else if v != Some(format!("0x{:x}", n)) {
                Some("wrong value from a recursive function")
            } else {
                l.class("recursion-ok");
                None
            }
        } else if o.failure() {
            l.class("recursion-limit-error");
            failed_at.get_or_insert(n);
            None
        } else {
            Some("unclean outcome")
        };
        if let Some(b) = bad {
            l.violation(Violation { property: ID, key: format!("C17:recursion:{}", b), what: format!("{} at depth {}", b, n), case: json!({"family": "recursion", "program": src, "observed": o.summary()}) });
        }
    }
    // unbounded recursion through a function and through an asm rule are errors, not crashes
    // (cycles entered from a data element or a constant are C19's: they run there in a process of their own, where a
    // missing limit costs one case and not this engine)
    for src in ["#fn f(n) => f(n + 1)\nx = f(0)\n", "#ruledef\n{\n    spin {x} => asm { spin {x} + 1 }\n}\nspin 0\n", "#ruledef\n{\n    ping => 0x11 @ asm { pong }\n    pong => 0x22 @ asm { ping }\n}\nping\n"] {
        l.eval();
        let o = run::assemble_str(src, &Opts::default());
        l.nontrivial(src);
        if !o.failure() {
            l.violation(Violation { property: ID, key: "C17:unbounded-recursion-not-an-error".into(), what: format!("unbounded recursion is not a clean error: {}", src.replace('\n', " / ")), case: json!({"family": "recursion", "program": src, "observed": o.summary()}) });
        } else {
            l.class("unbounded-recursion-error");
        }
    }
}

pub fn run(ctx: &Ctx) -> Report {
    let mut rep = Report::new(
        "exploration",
        "macro rules `m0 {p}, {q} => asm { i1 / i2 [/ i3] }` over every pair (thorough: every triple from a 16-form subset) of inner instruction forms (6 base rules x operand in {argument p, argument q, literal, block-local label, backward global, forward global, $}) x every position of the local label x untyped/typed parameters x 4 argument pairs x 3 prefixes x 2 suffixes x nesting depth 0..2, each compared with the hand-inlined program (bits identical; the inlined program is size-static and itself checked against the reference assembler); programs of <= 4 (thorough 6) items over {narrow typed forward reference `ldn T` (u2, with and without a u8 fallback rule), parameterless and parameterised macro calls, nop, ldw T} x every position of `T:` x budgets 3/10/30 against the inlined program (rejected alike / identical bits without the fallback; a self-consistent narrow/wide choice with it); user functions: every depth<=1 tree (and selected depth-2 trees) over parameters a, b as `#fn f(a,b)` x 5 argument pairs compared with the substituted expression and the reference evaluator; recursion depth 1..40 and unbounded recursion. Non-trivial = every generated program; distinct by text.",
    );
    let forms = inner_forms();
    let nf = forms.len() as u64;
    // pairs
    let radices = [nf, nf, 3, 2, ARGS.len() as u64, PREFIXES.len() as u64, SUFFIXES.len() as u64];
    let total = product(&radices);
    rep.absorb(par_run(total, |i, l| {
        let d = decode(i, &radices);
        let body = vec![forms[d[0] as usize].clone(), forms[d[1] as usize].clone()];
        if !uses_l(&body) && d[2] != 0 {
            return;
        }
        let c = MacroCase { body, label_pos: d[2] as usize, typed: d[3] == 1, args: ARGS[d[4] as usize], prefix: PREFIXES[d[5] as usize], suffix: SUFFIXES[d[6] as usize], nest: 0, unit4: false };
        judge_macro(&c, l);
    }));
    // the pairs that declare a block-local label, once more inside a bank with a 4-bit address unit
    rep.absorb(par_run(total, |i, l| {
        let d = decode(i, &radices);
        let body = vec![forms[d[0] as usize].clone(), forms[d[1] as usize].clone()];
        if !uses_l(&body) || d[5] != 0 || d[6] != 0 {
            return;
        }
        let c = MacroCase { body, label_pos: d[2] as usize, typed: d[3] == 1, args: ARGS[d[4] as usize], prefix: PREFIXES[1], suffix: SUFFIXES[0], nest: 0, unit4: true };
        judge_macro(&c, l);
    }));
    // arguments that name a symbol relative to the caller's label scope (`.loc`), for the pairs without a block label
    // (an inlined block label would change the scope of what follows it)
    const LOCAL_PREFIX: &[&str] = &[".loc:", "nop"];
    rep.absorb(par_run(nf * nf * 2 * 3, |i, l| {
        let d = decode(i, &[nf, nf, 2, 3]);
        let body = vec![forms[d[0] as usize].clone(), forms[d[1] as usize].clone()];
        // (a line that BEGINS with the substituted text would read `.loc ...` as a declaration once it is inlined by
        // hand: that is an ambiguity of the inlined text, not of the block)
        if uses_l(&body) || body.iter().any(|b| b.starts_with("{p}")) {
            return;
        }
        let c = MacroCase { body, label_pos: 0, typed: d[2] == 1, args: [(".loc", "2"), ("G.loc", ".loc"), (".loc + 1", "H - .loc")][d[3] as usize], prefix: LOCAL_PREFIX, suffix: SUFFIXES[0], nest: 0, unit4: false };
        judge_macro(&c, l);
    }));
    // nesting 1..2 on a sub-grid
    let radices_n = [nf, nf, 2, ARGS.len() as u64, 2];
    rep.absorb(par_run(product(&radices_n), |i, l| {
        let d = decode(i, &radices_n);
        let body = vec![forms[d[0] as usize].clone(), forms[d[1] as usize].clone()];
        let c = MacroCase { label_pos: if uses_l(&body) { 1 } else { 0 }, body, typed: false, args: ARGS[d[3] as usize], prefix: PREFIXES[d[2] as usize], suffix: SUFFIXES[0], nest: 1 + d[4] as usize, unit4: false };
        judge_macro(&c, l);
    }));
    if ctx.thorough {
        let sub: Vec<String> = forms.iter().filter(|f| *f == "nop" || f.starts_with("ld ") || f.starts_with("jr ") || (f.starts_with("jp ") && (f.ends_with("l") || f.ends_with("$")))).cloned().collect();
        let ns = sub.len() as u64;
        let radices3 = [ns, ns, ns, 4, 2, ARGS.len() as u64, 2];
        rep.absorb(par_run(product(&radices3), |i, l| {
            let d = decode(i, &radices3);
            let body = vec![sub[d[0] as usize].clone(), sub[d[1] as usize].clone(), sub[d[2] as usize].clone()];
            if !uses_l(&body) && d[3] != 0 {
                return;
            }
            let c = MacroCase { body, label_pos: d[3] as usize, typed: d[4] == 1, args: ARGS[d[5] as usize], prefix: PREFIXES[d[6] as usize], suffix: SUFFIXES[0], nest: 0, unit4: false };
            judge_macro(&c, l);
        }));
    }
    // value-dependent inner instructions: certificate by search
    let nc = CASCADE_FORMS.len() as u64;
    let blen: u32 = if ctx.thorough { 3 } else { 2 };
    let nbody = nc.pow(blen);
    let budgets = [3usize, 10, 30];
    let radices_c = [nbody, (blen as u64) + 1, ARGS.len() as u64 - 1, PREFIXES.len() as u64, budgets.len() as u64];
    rep.absorb(par_run(product(&radices_c), |i, l| {
        let d = decode(i, &radices_c);
        let mut bi = d[0];
        let mut body = vec![];
        for _ in 0..blen {
            body.push(CASCADE_FORMS[(bi % nc) as usize].to_string());
            bi /= nc;
        }
        if !uses_l(&body) && d[1] != 0 {
            return;
        }
        judge_cascade(&body, d[1] as usize, ARGS[d[2] as usize], PREFIXES[d[3] as usize], budgets[d[4] as usize], l);
    }));
    // typed forward references across macro calls
    let ta_len: u32 = if ctx.thorough { 6 } else { 4 };
    let nta = seq_count(TA_ITEMS.len() as u64, ta_len);
    let ta_budgets = [3usize, 10, 30];
    let radices_t = [nta, ta_len as u64 + 1, 2, ta_budgets.len() as u64];
    rep.absorb(par_run(product(&radices_t), |i, l| {
        let d = decode(i, &radices_t);
        let seq = seq_decode(d[0], TA_ITEMS.len() as u64, ta_len);
        if seq.is_empty() || d[1] as usize > seq.len() || !seq.iter().any(|x| TA_ITEMS[*x].starts_with("far")) {
            return;
        }
        judge_typed_across(&seq, d[1] as usize, d[2] == 1, ta_budgets[d[3] as usize], l);
    }));
    // non-ASCII text inside the block
    {
        let kn = NA_LINES.len() as u64;
        let per = seq_count(kn, 2);
        rep.absorb(par_run(per * NA_CLOSINGS.len() as u64 * NA_ARGS.len() as u64, |i, l| {
            let d = decode(i, &[per, NA_CLOSINGS.len() as u64, NA_ARGS.len() as u64]);
            let seq = seq_decode(d[0], kn, 2);
            if seq.is_empty() {
                return;
            }
            judge_nonascii_macro(&seq, d[1] as usize, d[2] as usize, l);
        }));
    }
    // inner encodings that are negative sized values
    {
        let kn = NEG_LINES.len() as u64;
        let per = seq_count(kn, 3);
        rep.absorb(par_run(per * NEG_ARGS.len() as u64, |i, l| {
            let d = decode(i, &[per, NEG_ARGS.len() as u64]);
            let seq = seq_decode(d[0], kn, 3);
            if seq.is_empty() {
                return;
            }
            judge_negative_encoding_macro(&seq, d[1] as usize, l);
        }));
    }
    // functions
    let trees = fn_trees();
    let nt = trees.len() as u64;
    rep.absorb(par_run(nt * FN_ARGS.len() as u64, |i, l| {
        let d = decode(i, &[FN_ARGS.len() as u64, nt]);
        judge_fn(&trees[d[1] as usize], FN_ARGS[d[0] as usize], l);
    }));
    let fir = fn_in_rules_cases();
    rep.absorb(par_cases(&fir, judge_fn_in_rules));
    let mut l = Local::new();
    judge_fn_with_asm(&mut l);
    judge_recursion(&mut l);
    rep.absorb(l);
    rep.extra("inner_forms", json!(nf));
    rep.extra("function_trees", json!(nt));
    rep.assumptions = vec!["arguments are substituted textually into asm blocks (the repository's expr_asm tests pin this); typed parameters may additionally reject an out-of-range argument at the call site".into(), "outer programs use a dot-local label only together with blocks that declare no label of their own, because an inlined block label would change the scope".into()];
    for c in ["inlined-ok", "inlined-rejected", "macro-with-local-label-ok", "cascade-macro-ok", "typed-across-inlined-ok", "typed-across-inlined-rejected", "typed-across-fallback-ok", "non-ascii-inlined-ok", "function", "recursion-ok", "recursion-limit-error", "unbounded-recursion-error"] {
        rep.require_class(c);
    }
    rep
}

pub fn replay(ctx: &Ctx, case: &serde_json::Value) -> i32 {
    super::replay_with(ctx, case, |case, l| {
        let o = Opts::iters(30);
        let a = run::assemble_str(case["program"].as_str().unwrap_or(""), &o);
        println!("program:\n{}\n-> {}", case["program"].as_str().unwrap_or(""), a.summary());
        if let Some(i) = case["inlined"].as_str() {
            let b = run::assemble_str(i, &o);
            println!("inlined:\n{}\n-> {}", i, b.summary());
            let same = if case["family"] == "function" { a.success() == b.success() && a.symbols.iter().find(|s| s.0 == "x") == b.symbols.iter().find(|s| s.0 == "x") } else { a.success() == b.success() && a.bits == b.bits };
            if !same || a.panicked.is_some() {
                l.violation(Violation { property: ID, key: "replay".into(), what: "still differs from the inlined form".into(), case: case.clone() });
            }
        } else if !a.failure() && case["family"] == "recursion" {
            l.violation(Violation { property: ID, key: "replay".into(), what: "still not a clean error".into(), case: case.clone() });
        }
    })
}
