//! C08 — the two optimisation switches never change any result.
//! Every program of the C01/C02 generators and the repository's corpus under the 4 switch
//! combinations x budgets; oracle: identical (success, bits, symbol values).
use super::{c01, c02};
use crate::corpus;
use crate::refasm::*;
use crate::run::{self, Opts};
use crate::stats::*;
use serde_json::json;

pub const ID: &str = "C08";

type Rec = (String, String, Vec<(String, String)>);

fn record(obs: &run::Obs) -> Rec {
    if obs.panicked.is_some() {
        ("panic".into(), String::new(), vec![])
    } else if obs.success() {
        ("success".into(), obs.bits.clone(), obs.symbols.clone())
    } else if obs.failure() {
        ("failure".into(), String::new(), vec![])
    } else {
        ("unclean".into(), obs.bits.clone(), vec![])
    }
}

fn rec_summary(r: &Rec) -> serde_json::Value {
    json!({"outcome": r.0, "hex": run::bits_to_hex(&r.1), "bits_len": r.1.len(), "symbols": r.2})
}

pub fn judge_files(files: &[(String, Vec<u8>)], root: &str, label: &str, family: &str, key_hint: Option<&str>, budgets: &[usize], l: &mut Local) {
    judge_files_def(files, root, label, family, key_hint, budgets, &[], l)
}

pub fn judge_files_def(files: &[(String, Vec<u8>)], root: &str, label: &str, family: &str, key_hint: Option<&str>, budgets: &[usize], defines: &[(String, run::DefVal)], l: &mut Local) {
    let mut fired = false;
    for b in budgets {
        let mut recs = vec![];
        for (os, om) in c02::SWITCHES {
            l.eval();
            let obs = run::assemble_files(files, &[root], &Opts { iters: *b, opt_static: os, opt_matcher: om, defines: defines.to_vec() });
            recs.push(record(&obs));
        }
        if recs.iter().any(|r| r.0 == "success") {
            fired = true;
        }
        for k in 1..4 {
            if recs[k] != recs[0] {
                let key = match key_hint {
                    Some(h) => h.to_string(),
                    None => {
                        // The unoptimised resolver needs one confirming pass more than the optimised one for
                        // statically known items: with the static optimisation off the same program may need a
                        // larger budget. Classified separately (input-side: outcome rows, not messages) iff the
                        // matcher switch makes no difference, every static-on run succeeds, every static-off run
                        // fails cleanly, and the static-off run at budget 30 reproduces the static-on result.
                        let only_static = recs[2] == recs[0] && recs[3] == recs[1];
                        let on_ok = recs[0].0 == "success";
                        let off_fail = recs[1].0 == "failure";
                        let converges_later = only_static && on_ok && off_fail && {
                            let o = run::assemble_files(files, &[root], &Opts { iters: 30, opt_static: false, opt_matcher: true, defines: defines.to_vec() });
                            record(&o) == recs[0]
                        };
                        if converges_later {
                            "C08:static-off-needs-a-larger-budget".to_string()
                        } else {
                            format!("{}:switch-{}", family, if recs[1] != recs[0] { "static" } else if recs[2] != recs[0] { "matcher" } else { "both" })
                        }
                    }
                };
                l.violation(Violation {
                    property: ID,
                    key,
                    what: format!("results differ between switch combinations at budget {}: {}", b, label),
                    case: json!({"family": family, "root": root, "files": files.iter().filter(|f| !f.0.starts_with("<std>")).map(|f| json!([f.0, String::from_utf8_lossy(&f.1)])).collect::<Vec<_>>(), "budget": b, "defines": defines.iter().map(|(n, v)| format!("{}={:?}", n, v)).collect::<Vec<_>>(),
                        "observed": {"static+matcher": rec_summary(&recs[0]), "matcher only": rec_summary(&recs[1]), "static only": rec_summary(&recs[2]), "none": rec_summary(&recs[3])}}),
                });
                break;
            }
        }
        l.traces_validated += 1;
    }
    if fired {
        l.nontrivial(&(label, family));
    }
    l.class(family);
}

pub fn judge_src(src: &str, family: &str, key_hint: Option<&str>, budgets: &[usize], l: &mut Local) {
    let files = vec![("main.asm".to_string(), src.as_bytes().to_vec())];
    judge_files(&files, "main.asm", &src.replace('\n', " / "), family, key_hint, budgets, l);
    l.sample(|| json!({"family": family, "program": src}));
}

/// input-side classification of the known matcher divergence (DESIGN §7 #1): the line puts blanks
/// between two characters that are adjacent literals in a rule pattern
fn blank_split_key(prog: &Prog) -> Option<&'static str> {
    match assemble(prog) {
        RefOut::Unspec(s) if s.starts_with("blanks between characters") => Some("C08:blank-between-adjacent-pattern-literals"),
        _ => None,
    }
}

pub fn run(ctx: &Ctx) -> Report {
    let mut rep = Report::new(
        "exploration",
        "differential execution under the four combinations of --debug-no-optimize-static / --debug-no-optimize-matcher x budgets {1,3,10,30}: C01 rule sets of 1..2 templates x every pool line, C01 item sequences, all C02 value-dependent families, the skeleton chains, and every file of the repository's test corpus and examples; identical (success, bits, symbols) demanded. Non-trivial = program that assembles under at least one configuration; distinct by program text.",
    );
    let budgets = [1usize, 3, 10, 30];
    let pool = c01::pool();
    let mut lines: Vec<String> = vec![];
    for tp in &pool {
        for ln in c01::lines_of(tp, false) {
            if !lines.contains(&ln) {
                lines.push(ln);
            }
        }
    }
    lines.extend(c01::extra_lines());
    let nl = lines.len() as u64;
    let np = pool.len() as u64;
    let one_budget = [10usize];
    // command-line defines under the four switch combinations: the override must reach every use (operand, data, a
    // constant derived from it, a condition) whichever way constants are resolved
    {
        let head = "#ruledef\n{\n    ld {x: u8} => 0x55 @ x\n}\n";
        let decl = ["val = 5\n", "val = 5\nother = val + 1\n", "other = val + 1\nval = 5\n"];
        let uses = ["ld val\n", "#d8 val\n", "#d8 other\n", "#if val == 7\n{\n#d8 0xaa\n}\n#else\n{\n#d8 0xbb\n}\n", "ld val\n#if val == 7\n{\n#d8 0xaa\n}\nlab:\n#d8 lab\n"];
        let defs: Vec<Vec<(String, run::DefVal)>> = vec![
            vec![],
            vec![("val".into(), run::DefVal::Int(7))],
            vec![("val".into(), run::DefVal::Int(5))],
            vec![("val".into(), run::DefVal::Int(0x10))],
            vec![("other".into(), run::DefVal::Int(9))],
            vec![("val".into(), run::DefVal::Int(7)), ("other".into(), run::DefVal::Int(9))],
        ];
        let mut cases: Vec<(String, usize)> = vec![];
        for (di, d) in decl.iter().enumerate() {
            for u in uses {
                if u.contains("other") && di == 0 {
                    continue;
                }
                for decl_first in [true, false] {
                    let src = if decl_first { format!("{}{}{}", head, d, u) } else { format!("{}{}{}", head, u, d) };
                    for k in 0..defs.len() {
                        if defs[k].iter().any(|(n, _)| n == "other") && di == 0 {
                            continue;
                        }
                        cases.push((src.clone(), k));
                    }
                }
            }
        }
        rep.absorb(par_cases(&cases, |(src, k), l| {
            let files = vec![("main.asm".to_string(), src.as_bytes().to_vec())];
            judge_files_def(&files, "main.asm", &format!("{} [defines {:?}]", src.replace('\n', " / "), defs[*k].iter().map(|(n, v)| format!("{}={:?}", n, v)).collect::<Vec<_>>()), "defines", None, &budgets, &defs[*k], l);
        }));
    }
    // F1 singles at all budgets
    rep.absorb(par_run(np * nl, |i, l| {
        let d = decode(i, &[nl, np]);
        let prog = c01::f1_prog(&[&pool[d[1] as usize]], &lines[d[0] as usize]);
        judge_src(&prog.render(), "C01-F1-1", blank_split_key(&prog), &budgets, l);
    }));
    // F1 pairs (one block and split blocks) at the default budget (thorough: all budgets)
    let mut pairs = vec![];
    for a in 0..pool.len() {
        for b in (a + 1)..pool.len() {
            pairs.push((a, b));
        }
    }
    let npairs = pairs.len() as u64;
    let pb: &[usize] = if ctx.thorough { &budgets } else { &one_budget };
    if ctx.thorough {
        rep.absorb(par_run(npairs * nl, |i, l| {
            let d = decode(i, &[nl, npairs]);
            let (a, b) = pairs[d[1] as usize];
            for split in [false, true] {
                let prog = c01::f1_prog_blocks(&[&pool[a], &pool[b]], &lines[d[0] as usize], split);
                judge_src(&prog.render(), "C01-F1-2", blank_split_key(&prog), pb, l);
            }
        }));
    } else {
        // quick: every pair x the lines either of its two rules produces (thorough: every line of the pool)
        let own: Vec<Vec<String>> = pool.iter().map(|tp| c01::lines_of(tp, false)).collect();
        rep.absorb(par_run(npairs, |i, l| {
            let (a, b) = pairs[i as usize];
            for ln in own[a].iter().chain(own[b].iter()) {
                for split in [false, true] {
                    let prog = c01::f1_prog_blocks(&[&pool[a], &pool[b]], ln, split);
                    judge_src(&prog.render(), "C01-F1-2", blank_split_key(&prog), pb, l);
                }
            }
        }));
    }
    // F2 sequences
    let items = c01::f2_items();
    let k = items.len() as u64;
    let maxlen = if ctx.thorough { 3 } else { 2 };
    rep.absorb(par_run(seq_count(k, maxlen), |i, l| {
        let seq = seq_decode(i, k, maxlen);
        judge_src(&c01::f2_prog(&seq, &items, false).render(), "C01-F2", None, &budgets, l);
    }));
    // C02 families
    for f in c02::families() {
        let k = f.items.len() as u64;
        let maxlen = f.maxlen(ctx.thorough);
        let fam: &'static str = f.name;
        rep.absorb(par_run(seq_count(k, maxlen), |i, l| {
            let seq = seq_decode(i, k, maxlen);
            judge_src(&c02::prog_of(&f, &seq).render(), fam, None, &budgets, l);
        }));
    }
    let grid: Vec<(usize, bool)> = (0..=12).flat_map(|n| [(n, false), (n, true)]).collect();
    let all_budgets: Vec<usize> = (1..=30).collect();
    rep.absorb(par_cases(&grid, |(n, osc), l| judge_src(&c02::chain_prog(*n, *osc).render(), "skeleton-chain", None, &all_budgets, l)));
    let sp = c02::scope_parent_progs();
    rep.absorb(par_cases(&sp, |p, l| judge_src(&p.render(), "scope-parent-directed", None, &budgets, l)));
    let lb = c02::late_bool_progs();
    rep.absorb(par_cases(&lb, |p, l| judge_src(&p.render(), "late-boolean-directed", None, &budgets, l)));
    // user functions whose body reads the current address: a call with literal arguments is not a statically known value
    {
        let head = "#fn rel(a) => a - $\n#fn here() => $\n#ruledef\n{\n    nop => 0x00\n    ld {a} => { assert(a < 5), 0x11 }\n    ld {a} => 0x1104\n    br {a} => 0x40 @ rel(a)`8\n    jmp {a: u8} => 0xc0 @ a\n    pad {n} => n > 0 ? 0x0000 : 0x00\n    at => 0x70 @ here()`8\n}\n";
        let alpha = ["ld far", "br 0x10", "jmp here()", "pad far", "#d8 rel(0x20)", "k1 = here()\n#d8 k1", "nop", "at"];
        let ka = alpha.len() as u64;
        let maxlen = if ctx.thorough { 4 } else { 3 };
        let per = seq_count(ka, maxlen);
        rep.absorb(par_run(per * (maxlen as u64 + 1), |i, l| {
            let d = decode(i, &[per, maxlen as u64 + 1]);
            let seq = seq_decode(d[0], ka, maxlen);
            let lp = d[1] as usize;
            if lp > seq.len() || seq.is_empty() {
                return;
            }
            let mut src = head.to_string();
            for (k, x) in seq.iter().enumerate() {
                if k == lp {
                    src += "far:\n";
                }
                src += alpha[*x];
                src += "\n";
            }
            if lp == seq.len() {
                src += "far:\n";
            }
            judge_src(&src, "function-reading-the-address", None, &budgets, l);
        }));
    }
    // expressions with one part that is known at once and one that is not, behind an instruction that shrinks: a
    // conditional with a literal arm and a label arm, a slice whose width is computed from a label
    {
        let head = "#ruledef\n{\n    nop => 0x00\n    jb {a} => { assert(a < 5), 0xa @ a`4 }\n    jb {a} => 0xb0 @ a`8\n    ld {x} => 0x20 @ x`8\n    pad {n}, {x} => x`(n * 8)\n}\nALT = false\nYES = true\n";
        let alpha = ["jb far", "back:", "ld ALT ? 0 : back", "#d8 false ? 0 : far", "#d8 YES ? back : 1", "pad back, 0xee", "k2 = ALT ? 1 : far\n#d8 k2", "nop", "ld YES ? far : 0"];
        let ka = alpha.len() as u64;
        let maxlen = if ctx.thorough { 4 } else { 3 };
        rep.absorb(par_run(seq_count(ka, maxlen), |i, l| {
            let seq = seq_decode(i, ka, maxlen);
            if seq.is_empty() || seq.iter().filter(|x| alpha[**x] == "back:").count() > 1 {
                return;
            }
            let mut src = head.to_string();
            for x in &seq {
                src += alpha[*x];
                src += "\n";
            }
            src += "far:\n#d8 0xff\n";
            judge_src(&src, "partly-static-expression", None, &budgets, l);
        }));
    }
    // constants whose value comes from a file: flagged as statically known, yet not available before the first full pass
    // when they are declared after their use
    {
        let rulesets = [
            "    ld {v} => 0xeeee @ v`8\n    ld {v} => limit`8 @ v`8\n",
            "    ld {v} => limit`8 @ v`8\n",
            "    ld {v} => { assert(limit > 0x20), 0xee @ v`8 }\n    ld {v} => 0xdddd @ v`8\n",
            "    ld {v} => 0xee @ v`8\n    ld {v} => { assert(limit == 0x10), 0xd @ v`4 }\n",
        ];
        let decls = [
            "limit = incbin(\"f.bin\")\n",
            "limit = incbinstr(\"b.txt\")\n",
            "limit = inchexstr(\"h.txt\")\n",
            "limit = incbin(\"f.bin\") + 0\n",
            "limit = base\nbase = incbin(\"f.bin\")\n",
            "base = incbin(\"f.bin\")\nlimit = base\n",
            "limit = 0x10\n",
        ];
        let uses = ["ld 5\n", "ld 5\nl:\n#d8 l\n", "#d8 limit\n", "ld limit\n", "x = limit + 1\n#d8 x\n"];
        let mut cases: Vec<String> = vec![];
        for r in rulesets {
            for d in decls {
                for u in uses {
                    let head = format!("#ruledef\n{{\n{}}}\n", r);
                    cases.push(format!("{}{}{}", head, d, u));
                    cases.push(format!("{}{}{}", head, u, d));
                }
            }
        }
        rep.absorb(par_cases(&cases, |src, l| {
            let files = vec![
                ("main.asm".to_string(), src.as_bytes().to_vec()),
                ("f.bin".to_string(), vec![0x10u8]),
                ("b.txt".to_string(), b"00010000".to_vec()),
                ("h.txt".to_string(), b"10".to_vec()),
            ];
            judge_files(&files, "main.asm", &src.replace('\n', " / "), "file-valued-constant", None, &budgets, l);
        }));
    }
    // corpus
    let cases = corpus::load(&ctx.repo);
    rep.extra("corpus_files", json!(cases.len()));
    rep.absorb(par_cases(&cases, |c, l| {
        // the repository's own tests pin `h a l t` => "no match" under the default switches
        let hint = if c.id == "rule_simple/err_whitespace.asm" || c.id == "rule_simple/err_punctuation_whitespace.asm" { Some("C08:blank-between-adjacent-pattern-literals") } else { None };
        judge_files(&c.files, &c.root, &c.id, "corpus", hint, &budgets, l);
        l.sample(|| json!({"family": "corpus", "file": c.id}));
    }));
    if cases.len() < 400 {
        rep.machinery_error = Some(format!("corpus not found under {} ({} files)", ctx.repo, cases.len()));
    }
    rep.assumptions = vec!["message texts are not compared (the statement says the same programs fail, not with the same message)".into()];
    for c in ["C01-F1-1", "C01-F1-2", "C01-F2", "assert-2-sizes", "corpus", "skeleton-chain"] {
        rep.require_class(c);
    }
    rep
}

pub fn replay(ctx: &Ctx, case: &serde_json::Value) -> i32 {
    super::replay_with(ctx, case, |case, l| {
        let files: Vec<(String, Vec<u8>)> = case["files"].as_array().map(|a| a.iter().map(|f| (f[0].as_str().unwrap_or("").to_string(), f[1].as_str().unwrap_or("").as_bytes().to_vec())).collect()).unwrap_or_default();
        let mut all = files.clone();
        all.extend(corpus::std_files(&ctx.repo));
        let root = case["root"].as_str().unwrap_or("main.asm");
        let b = case["budget"].as_u64().unwrap_or(10) as usize;
        let mut l2 = Local::new();
        judge_files(&all, root, "replay", "replay", Some("replay"), &[b], &mut l2);
        for v in l2.violations {
            println!("{}", serde_json::to_string_pretty(&v.case["observed"]).unwrap());
            l.violation(v);
        }
    })
}
