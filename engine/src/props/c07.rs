//! C07 — instruction matching ignores case, extra spacing, comments and rule order.
//! Base cases from the C01 generators (size-static, reference-defined); all renderings enumerated;
//! oracle: every rendering has the same success/failure and bits as its base (real vs real).
use super::c01;
use crate::refasm::*;
use crate::refparse::{self, Tk};
use crate::run::{self, Opts};
use crate::stats::*;
use serde_json::json;

pub const ID: &str = "C07";

fn outcome(obs: &run::Obs) -> (String, String) {
    if obs.panicked.is_some() {
        ("panic".into(), String::new())
    } else if obs.success() {
        ("success".into(), obs.bits.clone())
    } else if obs.failure() {
        ("failure".into(), String::new())
    } else {
        ("unclean".into(), obs.bits.clone())
    }
}

/// case masks for a set of letter positions: all 2^k for k<=4, else lower / UPPER / aLtErNaTe
fn masks(k: usize) -> Vec<Vec<bool>> {
    if k == 0 {
        return vec![];
    }
    if k <= 4 {
        (1..(1u32 << k)).map(|m| (0..k).map(|i| m & (1 << i) != 0).collect()).collect()
    } else {
        vec![vec![true; k], (0..k).map(|i| i % 2 == 1).collect(), (0..k).map(|i| i % 2 == 0).collect()]
    }
}

fn recase_at(line: &str, positions: &[usize], mask: &[bool]) -> String {
    let mut b: Vec<u8> = line.as_bytes().to_vec();
    for (p, up) in positions.iter().zip(mask) {
        if *up {
            b[*p] = b[*p].to_ascii_uppercase();
        }
    }
    String::from_utf8(b).unwrap()
}

/// recase the literal characters of a rule pattern (everything outside `{...}`)
fn recase_pattern(p: &str, style: usize) -> String {
    let mut out = String::new();
    let mut depth = 0;
    let mut n = 0;
    for c in p.chars() {
        if c == '{' {
            depth += 1;
        }
        if depth == 0 && c.is_ascii_alphabetic() {
            let up = match style {
                0 => true,
                _ => n % 2 == 0,
            };
            out.push(if up { c.to_ascii_uppercase() } else { c });
            n += 1;
        } else {
            out.push(c);
        }
        if c == '}' {
            depth -= 1;
        }
    }
    out
}

const INSERTS: [&str; 6] = [" ", "\t", "  ", " ;* c *; ", " ;** c* **; ", " ;* a ;* b ;* c *; b *; a *; "];

/// byte offsets of the token boundaries of an instruction line (between two non-blank tokens,
/// or inside existing blanks), where a blank may be added
fn boundaries(line: &str) -> Vec<usize> {
    let toks = refparse::tokenize(line);
    let mut v = vec![];
    for i in 1..toks.len() {
        if matches!(toks[i].tk, Tk::Ws) {
            continue;
        }
        v.push(toks[i].start);
    }
    v
}

fn insert_at(line: &str, at: &[usize], what: &str) -> String {
    let mut out = String::new();
    for (i, c) in line.char_indices() {
        if at.contains(&i) {
            out.push_str(what);
        }
        out.push(c);
    }
    out
}

struct Base {
    prog: Prog,
    /// index of the instruction item to re-render
    instr: usize,
    family: &'static str,
}

fn with_line(p: &Prog, idx: usize, line: String) -> Prog {
    let mut q = p.clone();
    q.items[idx] = Item::Instr(line);
    q
}

/// rules (block, index) that survive the reference matcher for instruction item `idx`
fn ref_survivors(p: &Prog, idx: usize) -> Vec<(usize, usize)> {
    let Item::Instr(line) = &p.items[idx] else { return vec![] };
    let defs: Vec<RDef> = p.ruledefs.iter().map(|d| RDef { name: d.name.clone(), sub: d.sub, rules: d.rules.iter().filter_map(|r| parse_rule(r).ok()).collect() }).collect();
    let mut m = Matcher { defs: &defs, unmodelled: None, lax_match_seen: false };
    let mut v: Vec<(usize, usize)> = m.match_line(line).iter().map(|x| (x.def, x.rule)).collect();
    v.sort();
    v.dedup();
    v
}

fn compare(base_src: &str, base_out: &(String, String), variant: &Prog, what: &str, family: &str, l: &mut Local) {
    let src = variant.render();
    if src == base_src {
        return;
    }
    l.eval();
    l.nontrivial(&src);
    let obs = run::assemble_str(&src, &Opts::iters(30));
    let out = outcome(&obs);
    if out != *base_out {
        // input-side classification of the known divergence (DESIGN §7 #1)
        let key = match assemble(variant) {
            RefOut::Unspec(s) if s.starts_with("blanks between characters") => "C07:blank-between-adjacent-pattern-literals".to_string(),
            _ => format!("C07:{}", what),
        };
        l.violation(Violation {
            property: ID,
            key,
            what: format!("{} changes the result: {}", what, src.replace('\n', " / ")),
            case: json!({"family": family, "rendering": what, "base": base_src, "variant": src, "expected": {"outcome": base_out.0, "hex": run::bits_to_hex(&base_out.1)}, "observed": obs.summary()}),
        });
    }
    l.class(what);
}

// ---- sub-rules nested two levels, the inner one with an empty alternative --------------------------------------
// `add {a: operand}, {b: operand}` with `operand = {r: reg} {s: shift}` and `shift = {} | lsl | lsr`: every way of writing
// the blanks of a line gives the result of the plain spelling.

const NESTED_ISA: &str = "#subruledef reg\n{\n    r0 => 0x0\n    r1 => 0x1\n    r2 => 0x2\n    r3 => 0x3\n}\n#subruledef shift\n{\n    {} => 0x0\n    lsl => 0x1\n    lsr => 0x2\n}\n#subruledef operand\n{\n    {r: reg} {s: shift} => r @ s\n}\n#ruledef\n{\n    add {a: operand}, {b: operand} => 0xa @ a @ b\n    ld {a: operand}, {imm: u8} => 0xb @ a @ imm\n    neg {a: operand} => 0xc @ a\n}\n";

fn judge_nested_subrule_line(line: &str, l: &mut Local) {
    let base_src = format!("{}{}\n", NESTED_ISA, line);
    l.eval();
    let base = run::assemble_str(&base_src, &Opts::iters(30));
    let base_out = outcome(&base);
    l.nontrivial(&base_src);
    l.class(if base.success() { "nested-subrule-base-ok" } else { "nested-subrule-base-rejected" });
    let bs = boundaries(line);
    let mut variants: Vec<(String, &'static str)> = vec![];
    for ins in INSERTS {
        for p in &bs {
            variants.push((insert_at(line, &[*p], ins), "extra-blank-at-token-boundary"));
        }
        if bs.len() > 1 {
            variants.push((insert_at(line, &bs, ins), "extra-blank-at-every-token-boundary"));
        }
    }
    variants.push((format!("  \t{}", line), "leading-blanks"));
    variants.push((format!("{} ; c", line), "trailing-comment"));
    // letters of the pattern in upper case (numbers keep their spelling: `0X7F` is not a literal)
    let upper: String = refparse::tokenize(line).iter().map(|t| if matches!(t.tk, refparse::Tk::Num(_)) { line[t.start..t.end].to_string() } else { line[t.start..t.end].to_ascii_uppercase() }).collect();
    variants.push((upper, "upper-case"));
    for (v, what) in variants {
        let src = format!("{}{}\n", NESTED_ISA, v);
        l.eval();
        let obs = run::assemble_str(&src, &Opts::iters(30));
        l.class(what);
        if outcome(&obs) != base_out {
            l.violation(Violation {
                property: ID,
                key: format!("C07:nested-subrules:{}", what),
                what: format!("{} changes the result: `{}` against `{}`", what, v, line),
                case: json!({"family": "nested-subrules", "rendering": what, "base": base_src, "variant": src, "expected": {"outcome": base_out.0, "hex": run::bits_to_hex(&base_out.1)}, "observed": obs.summary()}),
            });
        }
    }
}

fn judge(b: &Base, thorough: bool, l: &mut Local) {
    let r = assemble(&b.prog);
    let ok = match &r {
        RefOut::Unspec(_) => {
            l.unspecified += 1;
            return;
        }
        RefOut::Ok(ok) => Some(ok),
        RefOut::Error(_) => None,
    };
    let base_src = b.prog.render();
    l.eval();
    let base_obs = run::assemble_str(&base_src, &Opts::iters(30));
    let base_out = outcome(&base_obs);
    // the base itself must agree with the reference (C01's claim; otherwise no metamorphic verdict)
    if let Some(kind) = c01::disagreement(&base_obs, &r) {
        if b.family == "literal-vs-expression" {
            // here the base itself is the claim: the name is declared as a symbol AND spelled literally by a pattern;
            // the literal reading must win
            l.violation(Violation {
                property: ID,
                key: "C07:literal-spelling-does-not-take-precedence".into(),
                what: format!("{}: a symbol is named like a literal the pattern spells, the result is not that of the literal reading: {}", kind, base_src.replace('\n', " / ")),
                case: json!({"family": b.family, "variant": "base", "program": base_src, "expected": c01::ref_summary(&r), "observed": base_obs.summary()}),
            });
            return;
        }
        l.count("base_disagrees_with_reference_left_to_C01", 1);
        return;
    }
    l.traces_validated += 1;
    let Item::Instr(line) = &b.prog.items[b.instr] else { return };
    let line = line.trim().to_string();

    // 1. letter case of the mnemonic and literal operands (characters matched by literal pattern parts)
    if let Some(ok) = ok {
        if let Some((_, d, ru)) = ok.chosen.iter().find(|c| c.0 == b.instr) {
            // recompute the chosen match to get the literal positions
            let defs: Vec<RDef> = b.prog.ruledefs.iter().map(|d| RDef { name: d.name.clone(), sub: d.sub, rules: d.rules.iter().filter_map(|r| parse_rule(r).ok()).collect() }).collect();
            let mut m = Matcher { defs: &defs, unmodelled: None, lax_match_seen: false };
            let ms = m.match_line(&line);
            if let Some(mm) = ms.iter().find(|x| x.def == *d && x.rule == *ru) {
                let letters: Vec<usize> = mm.exact_pos.iter().copied().filter(|p| line.as_bytes()[*p].is_ascii_lowercase()).collect();
                for mask in masks(letters.len()) {
                    let v = with_line(&b.prog, b.instr, recase_at(&line, &letters, &mask));
                    compare(&base_src, &base_out, &v, "letter-case-of-instruction", b.family, l);
                }
            }
        }
        // 2. letter case of the rule text
        for style in 0..2 {
            let mut v = b.prog.clone();
            for d in &mut v.ruledefs {
                if d.sub && style == 1 {
                    continue;
                }
                for ru in &mut d.rules {
                    ru.pattern = recase_pattern(&ru.pattern, style);
                }
            }
            compare(&base_src, &base_out, &v, "letter-case-of-rule-text", b.family, l);
        }
    }
    // 3. blanks / tabs / comments at token boundaries, one boundary at a time and all at once.
    //    Only for lines that already carry every blank the patterns require: a line that matches no
    //    rule may legitimately start to match when a blank is added where a pattern demands one
    //    (`ld a,0` against `ld {r}, {x}`), which is not an *additional* blank in the property's sense.
    let no_match_base = matches!(&r, RefOut::Error(e) if e.starts_with("no match"));
    let bs = if no_match_base { vec![] } else { boundaries(&line) };
    // A blank is *additional* only if no pattern needed it: when the set of rules the reference matcher
    // lets survive changes (a blank supplied where some rule's pattern requires one), the rendering is
    // outside the property and carries no verdict.
    let base_surv = ref_survivors(&b.prog, b.instr);
    for ins in INSERTS {
        for p in &bs {
            let v = with_line(&b.prog, b.instr, insert_at(&line, &[*p], ins));
            if ref_survivors(&v, b.instr) != base_surv {
                l.unspecified += 1;
                continue;
            }
            compare(&base_src, &base_out, &v, "extra-blank-at-token-boundary", b.family, l);
        }
        if bs.len() > 1 {
            let v = with_line(&b.prog, b.instr, insert_at(&line, &bs, ins));
            if ref_survivors(&v, b.instr) != base_surv {
                l.unspecified += 1;
                continue;
            }
            compare(&base_src, &base_out, &v, "extra-blank-at-every-token-boundary", b.family, l);
        }
    }
    for tail in [" ; c", "\t;* c *;", "   ", " ;* c **;", " ;***;", " ;* a ;* b ;**; b *; a *;"] {
        let v = with_line(&b.prog, b.instr, format!("{}{}", line, tail));
        compare(&base_src, &base_out, &v, "trailing-comment", b.family, l);
    }
    let v = with_line(&b.prog, b.instr, format!("  \t{}", line));
    compare(&base_src, &base_out, &v, "leading-blanks", b.family, l);
    // a block comment in front of the mnemonic, on the instruction's own line
    for head in [";* c *; ", "  ;* c *;", ";** c **;\t"] {
        let v = with_line(&b.prog, b.instr, format!("{}{}", head, line));
        compare(&base_src, &base_out, &v, "leading-comment", b.family, l);
    }

    // 4. rule order and partition into blocks
    let top: Vec<usize> = b.prog.ruledefs.iter().enumerate().filter(|(_, d)| !d.sub).map(|(i, _)| i).collect();
    let all_rules: Vec<RuleSrc> = top.iter().flat_map(|i| b.prog.ruledefs[*i].rules.clone()).collect();
    let subs: Vec<RuleDefSrc> = b.prog.ruledefs.iter().filter(|d| d.sub).cloned().collect();
    if all_rules.len() >= 2 && all_rules.len() <= 4 {
        for perm in permutations(all_rules.len()) {
            let rules: Vec<RuleSrc> = perm.iter().map(|i| all_rules[*i].clone()).collect();
            // one block
            let mut v = b.prog.clone();
            v.ruledefs = subs.clone();
            v.ruledefs.push(RuleDefSrc { name: None, sub: false, rules: rules.clone() });
            compare(&base_src, &base_out, &v, "rule-order", b.family, l);
            // every split point into two blocks, and one block per rule (named and anonymous)
            for cut in 1..rules.len() {
                let mut v = b.prog.clone();
                v.ruledefs = subs.clone();
                v.ruledefs.push(RuleDefSrc { name: Some("first".into()), sub: false, rules: rules[..cut].to_vec() });
                v.ruledefs.push(RuleDefSrc { name: None, sub: false, rules: rules[cut..].to_vec() });
                compare(&base_src, &base_out, &v, "rule-partition", b.family, l);
            }
            if thorough || perm[0] == 0 {
                let mut v = b.prog.clone();
                v.ruledefs = subs.clone();
                for (k, ru) in rules.iter().enumerate() {
                    v.ruledefs.push(RuleDefSrc { name: if k % 2 == 1 { Some(format!("b{}", k)) } else { None }, sub: false, rules: vec![ru.clone()] });
                }
                compare(&base_src, &base_out, &v, "rule-partition", b.family, l);
            }
        }
        // sub-rule blocks after the rules that use them (declaration order of blocks)
        if !subs.is_empty() {
            let mut v = b.prog.clone();
            v.ruledefs = vec![RuleDefSrc { name: None, sub: false, rules: all_rules.clone() }];
            v.ruledefs.extend(subs.clone());
            compare(&base_src, &base_out, &v, "rule-partition", b.family, l);
        }
    }
    // 5. consistent label renaming (only symbol references: inside the argument extents of the
    //    chosen match, never characters the pattern spells literally)
    let ren = |s: &str| -> String {
        let toks = refparse::tokenize(s);
        let mut out = String::new();
        for t in toks {
            let piece = &s[t.start..t.end];
            match &t.tk {
                Tk::Ident(n) if n == "A" => out.push_str("Q_first"),
                Tk::Ident(n) if n == "B" => out.push_str("zz9"),
                Tk::Ident(n) if n == "k" => out.push_str("Konst"),
                _ => out.push_str(piece),
            }
        }
        out
    };
    fn extents(args: &[Arg], out: &mut Vec<(usize, usize)>) {
        for a in args {
            match a {
                Arg::Expr { start, end, .. } => out.push((*start, *end)),
                Arg::Nested { args, .. } => extents(args, out),
            }
        }
    }
    let mut renamed_line: Option<String> = None;
    if let Some(ok) = ok {
        if let Some((_, d, ru)) = ok.chosen.iter().find(|c| c.0 == b.instr) {
            let defs: Vec<RDef> = b.prog.ruledefs.iter().map(|d| RDef { name: d.name.clone(), sub: d.sub, rules: d.rules.iter().filter_map(|r| parse_rule(r).ok()).collect() }).collect();
            let mut m = Matcher { defs: &defs, unmodelled: None, lax_match_seen: false };
            if let Some(mm) = m.match_line(&line).iter().find(|x| x.def == *d && x.rule == *ru) {
                let mut ex = vec![];
                extents(&mm.args, &mut ex);
                ex.sort();
                let mut out = String::new();
                let mut pos = 0;
                for (s0, e0) in ex {
                    if s0 < pos {
                        continue;
                    }
                    out.push_str(&line[pos..s0]);
                    out.push_str(&ren(&line[s0..e0]));
                    pos = e0;
                }
                out.push_str(&line[pos..]);
                renamed_line = Some(out);
            }
        }
    }
    let Some(renamed_line) = renamed_line else { return };
    let mut v = b.prog.clone();
    for (idx, it) in v.items.iter_mut().enumerate() {
        let new = match &*it {
            Item::Instr(_) if idx == b.instr => Item::Instr(renamed_line.clone()),
            Item::Instr(s) => Item::Instr(s.clone()),
            Item::Label(s) => Item::Label(ren(s)),
            Item::Const(n, e) => Item::Const(ren(n), ren(e)),
            Item::Data(w, es) => Item::Data(*w, es.iter().map(|e| ren(e)).collect()),
            o => o.clone(),
        };
        *it = new;
    }
    compare(&base_src, &base_out, &v, "label-renaming", b.family, l);
    l.sample(|| json!({"family": b.family, "base": base_src, "base_outcome": base_out.0}));
}

pub fn run(ctx: &Ctx) -> Report {
    let mut rep = Report::new(
        "exploration",
        "metamorphic: base programs = C01 rule sets of 1..2 (thorough 3) templates x every pool line whose outcome the reference defines; renderings, all enumerated: case masks on the characters the pattern spells literally (all 2^k for k<=4 letters, else UPPER/alternating), upper/alternating case of the rule text, {blank, tab, two blanks, blank+block comment+blank} at each token boundary one at a time and all at once, trailing comments, leading blanks, a block comment in front of the mnemonic, all permutations of the rules, all splits into two blocks and one block per rule (named/anonymous), sub-rule blocks after their users, one consistent label renaming, literal-vs-expression pairs with the name also declared as a symbol. Each rendering must reproduce the base's success/failure and bits. Non-trivial = every rendering that differs textually from its base; distinct by text.",
    );
    let pool = c01::pool();
    let mut lines: Vec<String> = vec![];
    for tp in &pool {
        for ln in c01::lines_of(tp, false) {
            if !lines.contains(&ln) {
                lines.push(ln);
            }
        }
    }
    let nl = lines.len() as u64;
    let np = pool.len() as u64;
    // two-level sub-rules with an empty alternative (directed; compared with the plain spelling of the same line)
    {
        let ops = ["r1", "r2 lsl", "r3 lsr", "r0"];
        let mut nl2: Vec<String> = vec![];
        for a in ops {
            nl2.push(format!("neg {}", a));
            nl2.push(format!("ld {}, 0x7f", a));
            for b in ops {
                nl2.push(format!("add {}, {}", a, b));
            }
        }
        nl2.push("add r1 r2".into());
        nl2.push("add r1 lsl lsr, r2".into());
        rep.absorb(par_cases(&nl2, |ln, l| judge_nested_subrule_line(ln, l)));
    }
    // singles
    rep.absorb(par_run(np * nl, |i, l| {
        let d = decode(i, &[nl, np]);
        let prog = c01::f1_prog(&[&pool[d[1] as usize]], &lines[d[0] as usize]);
        judge(&Base { prog, instr: 3, family: "F1-1" }, ctx.thorough, l);
    }));
    // pairs: only lines produced by one of the two rules (others are plain no-match cases)
    let mut pairs = vec![];
    for a in 0..pool.len() {
        for b in (a + 1)..pool.len() {
            pairs.push((a, b));
        }
    }
    let own: Vec<Vec<String>> = pool.iter().map(|tp| c01::lines_of(tp, false)).collect();
    let npairs = pairs.len() as u64;
    rep.absorb(par_run(npairs, |i, l| {
        let (a, b) = pairs[i as usize];
        for ln in own[a].iter().chain(own[b].iter()) {
            let prog = c01::f1_prog(&[&pool[a], &pool[b]], ln);
            judge(&Base { prog, instr: 3, family: "F1-2" }, ctx.thorough, l);
        }
    }));
    if ctx.thorough {
        let mut triples = vec![];
        for a in 0..pool.len() {
            for b in (a + 1)..pool.len() {
                for c in (b + 1)..pool.len() {
                    triples.push((a, b, c));
                }
            }
        }
        rep.absorb(par_cases(&triples, |(a, b, c), l| {
            for ln in own[*a].iter().chain(own[*b].iter()).chain(own[*c].iter()).step_by(3) {
                let prog = c01::f1_prog(&[&pool[*a], &pool[*b], &pool[*c]], ln);
                judge(&Base { prog, instr: 3, family: "F1-3" }, true, l);
            }
        }));
    }
    // literal-versus-expression with the literal's name also declared as a symbol
    let lit_pairs: Vec<(usize, usize)> = pairs.iter().copied().filter(|(a, b)| pool[*a].rule.pattern == "ld a" || pool[*b].rule.pattern == "ld a" || pool[*a].rule.pattern.contains(", a") || pool[*b].rule.pattern.contains(", a")).collect();
    rep.absorb(par_cases(&lit_pairs, |(a, b), l| {
        for ln in own[*a].iter().chain(own[*b].iter()) {
            let mut prog = c01::f1_prog(&[&pool[*a], &pool[*b]], ln);
            prog.items.insert(0, Item::Const("a".into(), "9".into()));
            judge(&Base { prog, instr: 4, family: "literal-vs-expression" }, ctx.thorough, l);
        }
    }));
    // the same for single templates whose operands are sub-rules with literal alternatives (`a`, `r1`, `b`)
    let shadow: Vec<usize> = (0..pool.len()).filter(|i| pool[*i].needs_reg).collect();
    rep.absorb(par_cases(&shadow, |a, l| {
        for ln in own[*a].iter() {
            let mut prog = c01::f1_prog(&[&pool[*a]], ln);
            let at = prog.items.iter().position(|i| matches!(i, Item::Instr(_))).unwrap_or(0);
            for (n, v) in [("a", "0x55"), ("r1", "0x66"), ("b", "0x77")] {
                prog.items.insert(0, Item::Const(n.into(), v.into()));
            }
            judge(&Base { prog, instr: at + 3, family: "literal-vs-expression" }, ctx.thorough, l);
        }
    }));
    rep.assumptions = vec!["blanks are only added at token boundaries; removing a blank the pattern requires is outside the property".into(), "bases the reference cannot decide (value-dependent sizes etc.) are skipped and counted".into()];
    for c in ["letter-case-of-instruction", "letter-case-of-rule-text", "extra-blank-at-token-boundary", "extra-blank-at-every-token-boundary", "trailing-comment", "rule-order", "rule-partition", "label-renaming"] {
        rep.require_class(c);
    }
    rep
}

pub fn replay(ctx: &Ctx, case: &serde_json::Value) -> i32 {
    if case["variant"] == "base" {
        // a direct claim (literal precedence): the program against the reference verdict recorded with it
        return c01::replay(ctx, case);
    }
    super::replay_with(ctx, case, |case, l| {
        let base = run::assemble_str(case["base"].as_str().unwrap_or(""), &Opts::iters(30));
        let var = run::assemble_str(case["variant"].as_str().unwrap_or(""), &Opts::iters(30));
        println!("base:\n{}\n-> {}\nvariant:\n{}\n-> {}", case["base"].as_str().unwrap_or(""), base.summary(), case["variant"].as_str().unwrap_or(""), var.summary());
        if outcome(&base) != outcome(&var) {
            l.violation(Violation { property: ID, key: "replay".into(), what: "rendering still changes the result".into(), case: case.clone() });
        }
    })
}
