//! C15 — symbols resolve lexically and independently of declaration order.
//! (a) all label-declaration sequences over {a, b} x dot-levels with one probe of every reference
//! shape at every position; (b) constant chains in all permutations with probes at every position;
//! (c) an address-free constant moved to every position. Oracle: the scoping model of refasm.
use super::c01;
use crate::refasm::*;
use crate::run::{self, Opts};
use crate::stats::*;
use serde_json::json;

pub const ID: &str = "C15";

const DECLS: [&str; 8] = ["a", "b", ".a", ".b", "..a", "..b", "...a", "...b"];
const PATHS: [&str; 6] = ["a", "b", "a.a", "a.b", "b.a", "a.a.b"];

fn probes() -> Vec<String> {
    let mut v = vec![];
    for level in 0..=3 {
        for p in PATHS {
            v.push(format!("{}{}", ".".repeat(level), p));
        }
    }
    v
}

/// labels each followed by one pad byte (so every label has its own address); probe = `#d8 <ref>`
fn tree_prog(seq: &[usize], probe_at: usize, probe: &str) -> Prog {
    let mut items = vec![];
    for (i, d) in seq.iter().enumerate() {
        if i == probe_at {
            items.push(Item::Data(Some(8), vec![probe.to_string()]));
        }
        items.push(Item::Label(DECLS[*d].to_string()));
        items.push(Item::Data(Some(8), vec!["0xee".into()]));
    }
    if probe_at >= seq.len() {
        items.push(Item::Data(Some(8), vec![probe.to_string()]));
    }
    Prog { ruledefs: vec![], items }
}

fn const_chain() -> Vec<Item> {
    vec![
        Item::Const("c1".into(), "1".into()),
        Item::Const("c2".into(), "c1 + 1".into()),
        Item::Const("c3".into(), "c2 * 2".into()),
        Item::Const("c4".into(), "c3 + c1".into()),
    ]
}

pub fn run(ctx: &Ctx) -> Report {
    let mut rep = Report::new(
        "model_checking",
        "(a) every sequence of label declarations of length <= n over {a, b} at dot-levels 0..3 (including skipped levels and duplicates) x every position x every reference shape (dot-level 0..3 x path in {a, b, a.a, a.b, b.a, a.a.b}); (b) chains of 2..4 constants in all permutations, mixed with a label, probed at every position, also nested constants; (c) an address-free constant inserted at every position of every tree that does not separate a global label from its locals; compared (success, bits = address of the bound declaration, symbol table) with an independent scoping model. Non-trivial = reference-defined and emitting or rejected; distinct by program text.",
    );
    let opts = Opts::iters(30);
    let pr = probes();
    let np = pr.len() as u64;
    // (a)
    let ndecl: u64 = if ctx.thorough { 8 } else { 6 };
    let maxlen: u32 = if ctx.thorough { 6 } else { 4 };
    let nseq = seq_count(ndecl, maxlen);
    let total = nseq * (maxlen as u64 + 1) * np;
    rep.absorb(par_run(total, |i, l| {
        let d = decode(i, &[np, maxlen as u64 + 1, nseq]);
        let seq = seq_decode(d[2], ndecl, maxlen);
        let at = d[1] as usize;
        if at > seq.len() {
            return;
        }
        let prog = tree_prog(&seq, at, &pr[d[0] as usize]);
        c01::judge_prog_for(ID, &prog, "label-tree", &opts, l);
    }));
    // (b) constant chains
    let chain = const_chain();
    let mut cases: Vec<Prog> = vec![];
    for n in 2..=4usize {
        for perm in permutations(n) {
            for probe_at in 0..=n {
                for label_at in 0..=n {
                    for probe in ["c1", "c2", "c3", "c4", "c2 + L"] {
                        let mut items: Vec<Item> = vec![];
                        for (k, pi) in perm.iter().enumerate() {
                            if k == probe_at {
                                items.push(Item::Data(Some(8), vec![probe.to_string()]));
                            }
                            if k == label_at {
                                items.push(Item::Label("L".into()));
                                items.push(Item::Data(Some(8), vec!["0xee".into()]));
                            }
                            items.push(chain[*pi].clone());
                        }
                        if probe_at == n {
                            items.push(Item::Data(Some(8), vec![probe.to_string()]));
                        }
                        if label_at == n {
                            items.push(Item::Label("L".into()));
                        }
                        cases.push(Prog { ruledefs: vec![], items });
                    }
                }
            }
        }
    }
    // constants that depend on labels, nested constants, cycles, self reference
    for extra in [
        vec![Item::Const("k".into(), "L + 1".into()), Item::Data(Some(8), vec!["k".into()]), Item::Label("L".into())],
        vec![Item::Label("L".into()), Item::Const(".k".into(), "5".into()), Item::Data(Some(8), vec![".k".into(), "L.k".into()])],
        vec![Item::Label("L".into()), Item::Const(".k".into(), "5".into()), Item::Label("M".into()), Item::Data(Some(8), vec!["L.k".into()]), Item::Data(Some(8), vec![".k".into()])],
        vec![Item::Const("x".into(), "y".into()), Item::Const("y".into(), "x".into()), Item::Data(Some(8), vec!["x".into()])],
        vec![Item::Const("x".into(), "x + 1".into()), Item::Data(Some(8), vec!["x".into()])],
        vec![Item::Const("x".into(), "1".into()), Item::Const("x".into(), "2".into())],
        vec![Item::Label("x".into()), Item::Const("x".into(), "2".into())],
        vec![Item::Const("g".into(), "1".into()), Item::Label(".l".into()), Item::Data(Some(8), vec!["g.l".into()])],
    ] {
        cases.push(Prog { ruledefs: vec![], items: extra });
    }
    rep.absorb(par_cases(&cases, |p, l| c01::judge_prog_for(ID, p, "constants", &opts, l)));

    // (b2) long chains of address-free constants, users before definitions and definitions first, feeding data and
    //      an `#if`, under small and default budgets: the order of declaration must not matter
    let mut long_cases: Vec<(String, Vec<u8>, usize)> = vec![];
    for n in [2usize, 3, 4, 6, 8, 12, 16, 24, 40] {
        for users_first in [true, false] {
            for with_if in [false, true] {
                let mut lines: Vec<String> = (1..n).map(|i| format!("c{} = c{} + 1", i, i + 1)).collect();
                lines.push(format!("c{} = 1", n));
                if !users_first {
                    lines.reverse();
                }
                let mut src = String::new();
                let mut expect = vec![n as u8];
                let use_text = if with_if {
                    expect.push(0x55);
                    format!("#d8 c1\n#if c1 == {}\n{{\n#d8 0x55\n}}\n", n)
                } else {
                    "#d8 c1\n".to_string()
                };
                for placement in 0..2 {
                    src.clear();
                    if placement == 0 {
                        src += &use_text;
                    }
                    src += &lines.join("\n");
                    src += "\n";
                    if placement == 1 {
                        src += &use_text;
                    }
                    for budget in [2usize, 3, 10] {
                        long_cases.push((src.clone(), expect.clone(), budget));
                    }
                }
            }
        }
    }
    rep.absorb(par_cases(&long_cases, |(src, expect, budget), l| {
        l.eval();
        l.nontrivial(&(src, budget));
        l.class("long-constant-chain");
        let obs = run::assemble_str(src, &Opts::iters(*budget));
        let want: String = expect.iter().map(|b| format!("{:08b}", b)).collect();
        if !(obs.success() && obs.bits == want) {
            l.violation(Violation {
                property: ID,
                key: "C15:long-constant-chain-depends-on-declaration-order-or-budget".into(),
                what: format!("[iters={}] {}", budget, src.replace('\n', " / ").chars().take(200).collect::<String>()),
                case: json!({"family": "long-chain", "program": src, "opts": Opts::iters(*budget).to_json(), "expected": {"ok": true, "hex": run::bits_to_hex(&want), "bits_len": want.len()}, "observed": obs.summary()}),
            });
        }
    }));

    // (c) moving an address-free constant (differential, real vs real)
    let ndecl_c: u64 = 6;
    let maxlen_c: u32 = if ctx.thorough { 5 } else { 3 };
    let nseq_c = seq_count(ndecl_c, maxlen_c);
    rep.absorb(par_run(nseq_c * np, |i, l| {
        let d = decode(i, &[np, nseq_c]);
        let seq = seq_decode(d[1], ndecl_c, maxlen_c);
        let base = tree_prog(&seq, seq.len(), &pr[d[0] as usize]);
        let base_src = base.render();
        l.eval();
        let bo = run::assemble_str(&base_src, &opts);
        for pos in 0..=base.items.len() {
            // Unspecified zone: the constant would sit between a global label and a later local
            // declaration/reference of that global's scope
            let later_local_before_next_global = {
                let mut hit = false;
                for it in &base.items[pos..] {
                    match it {
                        Item::Label(n) if !n.starts_with('.') => break,
                        Item::Label(_) => {
                            hit = true;
                            break;
                        }
                        Item::Data(_, es) if es.iter().any(|e| e.starts_with('.')) => {
                            hit = true;
                            break;
                        }
                        _ => {}
                    }
                }
                hit
            };
            if later_local_before_next_global {
                l.unspecified += 1;
                continue;
            }
            let mut v = base.clone();
            v.items.insert(pos, Item::Const("q".into(), "5 * 3".into()));
            let src = v.render();
            l.eval();
            l.nontrivial(&src);
            l.class("moved-constant");
            let vo = run::assemble_str(&src, &opts);
            let same = bo.success() == vo.success() && bo.failure() == vo.failure() && bo.bits == vo.bits && bo.panicked.is_none() == vo.panicked.is_none() && {
                let strip: Vec<_> = vo.symbols.iter().filter(|s| s.0 != "q").cloned().collect();
                strip == bo.symbols
            };
            if !same {
                l.violation(Violation {
                    property: ID,
                    key: "C15:moving-an-address-free-constant-changes-the-result".into(),
                    what: format!("constant inserted at item {}: {}", pos, src.replace('\n', " / ")),
                    case: json!({"family": "moved-constant", "base": base_src, "program": src, "expected": bo.summary(), "observed": vo.summary()}),
                });
            }
        }
    }));
    // (d) the same label trees with some declarations wrapped in `#if true { ... }`: exactly the
    //     first true arm contributes its content, so scoping must be that of the unwrapped program
    let ndecl_d: u64 = 6;
    let maxlen_d: u32 = 3;
    let nseq_d = seq_count(ndecl_d, maxlen_d);
    rep.absorb(par_run(nseq_d * np, |i, l| {
        let d = decode(i, &[np, nseq_d]);
        let seq = seq_decode(d[1], ndecl_d, maxlen_d);
        if seq.is_empty() {
            return;
        }
        let probe = &pr[d[0] as usize];
        let base = tree_prog(&seq, seq.len(), probe);
        let r = assemble(&base);
        if let RefOut::Unspec(_) = r {
            return;
        }
        for mask in 1u32..(1 << seq.len()) {
            // render: label k (and its pad byte) wrapped iff bit k of mask
            let mut src = String::new();
            let mut wraps_global = false;
            for (k, dcl) in seq.iter().enumerate() {
                let body = format!("{}:\n#d8 0xee\n", DECLS[*dcl]);
                if mask & (1 << k) != 0 {
                    if !DECLS[*dcl].starts_with('.') {
                        wraps_global = true;
                    }
                    src += &format!("#if true\n{{\n{}}}\n", body);
                } else {
                    src += &body;
                }
            }
            src += &format!("#d8 {}\n", probe);
            // input-side classification of a known deviation: a declaration D (dot-level k) inside an arm is
            // followed, outside that arm and before any declaration of level <= k, by a declaration or
            // reference of level > k (which must resolve through D)
            let level = |n: &str| n.chars().take_while(|c| *c == '.').count();
            let mut scopes_follower = false;
            for (k, dcl) in seq.iter().enumerate() {
                if mask & (1 << k) == 0 {
                    continue;
                }
                let lk = level(DECLS[*dcl]);
                let mut still_current = true;
                for later in &seq[k + 1..] {
                    let ll = level(DECLS[*later]);
                    if ll > lk {
                        scopes_follower = true;
                    }
                    if ll <= lk {
                        still_current = false;
                        break;
                    }
                }
                if still_current && level(probe) > lk {
                    scopes_follower = true;
                }
            }
            let _ = wraps_global;
            l.eval();
            l.nontrivial(&src);
            l.class("declaration-inside-if-arm");
            let obs = run::assemble_str(&src, &opts);
            if let Some(kind) = c01::disagreement(&obs, &r) {
                l.violation(Violation {
                    property: ID,
                    key: if scopes_follower { "C15:declaration-inside-if-arm-does-not-open-scope-for-what-follows".into() } else { format!("if-wrapped:{}", kind) },
                    what: format!("{}: {}", kind, src.replace('\n', " / ")),
                    case: json!({"family": "if-wrapped", "program": src, "opts": opts.to_json(), "expected": c01::ref_summary(&r), "observed": obs.summary()}),
                });
            }
        }
    }));
    // (e) names that look special but are ordinary names where they stand: nested labels named like built-in
    //     functions or `pc`, case variants of the reserved words, a rule parameter that shares its first path segment
    //     with a nested label. Expected bytes are written down by hand (addresses 0..3).
    {
        let mut cases: Vec<(String, Option<Vec<u8>>)> = vec![];
        for name in ["pc", "incbin", "incbinstr", "inchexstr", "le", "sizeof", "strlen", "utf8", "ascii", "assert", "TRUE", "False", "Asm", "x"] {
            cases.push((format!("#d8 0xee\nregs:\n#d8 0xdd\n.{n}:\n#d8 .{n}, regs.{n}\n", n = name), Some(vec![0xee, 0xdd, 2, 2])));
            cases.push((format!("#d8 0xee\nregs:\n#d8 .{n}, regs.{n}\n.{n}:\n", n = name), Some(vec![0xee, 3, 3])));
        }
        for name in ["TRUE", "False", "ASM", "Asm", "tRuE", "fALSE"] {
            cases.push((format!("{n} = 5\n#d8 {n}\n", n = name), Some(vec![5])));
            cases.push((format!("#d8 {n}\n{n} = 5\n", n = name), Some(vec![5])));
            cases.push((format!("#d8 0xee\n{n}:\n#d8 {n}\n", n = name), Some(vec![0xee, 1])));
            cases.push((format!("#d8 {n}\n", n = name), None));
            cases.push((format!("#if {n}\n{{\n#d8 1\n}}\n#else\n{{\n#d8 2\n}}\n", n = name), None));
        }
        for name in ["sizeof", "le", "strlen", "incbin", "utf8"] {
            cases.push((format!("#d8 0xee\n{n}:\n.x:\n#d8 {n}.x\n", n = name), Some(vec![0xee, 1])));
        }
        // used before declared = used after declared, also when the use is the condition of a conditional, and when
        // a constant or a reservation is the ONLY thing that waits for a later label
        cases.push(("#d8 (x > 5 ? 1 : 2)\n#d8 0xaa\nx:\n".to_string(), Some(vec![2, 0xaa])));
        cases.push(("x:\n#d8 (x > 5 ? 1 : 2)\n#d8 0xaa\n".to_string(), Some(vec![2, 0xaa])));
        cases.push(("y = x > 5 ? 1 : 2\n#d8 y\nx = 7\n".to_string(), Some(vec![1])));
        cases.push(("x = 7\ny = x > 5 ? 1 : 2\n#d8 y\n".to_string(), Some(vec![1])));
        cases.push(("start:\n#d8 1, 2, 3\nlen = end - start\nend:\n".to_string(), Some(vec![1, 2, 3])));
        cases.push(("start:\n#d8 1, 2, 3\nend:\nlen = end - start\n".to_string(), Some(vec![1, 2, 3])));
        cases.push(("#d8 0xaa\n#res end - 3\n#d8 0xbb\n#addr 6\nend:\n".to_string(), Some(vec![0xaa, 0, 0, 0, 0xbb])));
        cases.push(("len = end - start\nstart:\n#d8 1, 2, 3\nend:\n#d8 len\n".to_string(), Some(vec![1, 2, 3, 3])));
        // a top-level constant is the parent of the locals that follow it, just like a label (tests/symbol_constant_simple)
        cases.push(("K = 0\n.w = 1\n#d8 .w\n".to_string(), Some(vec![1])));
        cases.push(("g:\n.v = 0x11\nK = 0\n.v = 0x22\n#d8 .v\n#d8 g.v, K.v\n".to_string(), Some(vec![0x22, 0x11, 0x22])));
        cases.push(("#ruledef\n{\n    ld {x: u8} => 0x10 @ x\n}\ng:\n.v = 0x11\nK = 0\n.v = 0x22\nld .v\n#d8 .v\n".to_string(), Some(vec![0x10, 0x22, 0x22])));
        cases.push(("g:\n.m = 1\n..v = 0x22\n#d8 ..v\nh:\n.m = 2\n..v = 0x33\n#d8 ..v, g.m.v\n".to_string(), Some(vec![0x22, 0x33, 0x22])));
        cases.push(("#ruledef\n{\n    ld {data: u8} => 0x01 @ data @ data.end`8\n}\ndata:\n#d8 1, 2, 3\n.end:\nld 0x55\n".to_string(), Some(vec![1, 2, 3, 1, 0x55, 3])));
        cases.push(("#ruledef\n{\n    ld {data: u8} => 0x01 @ data @ data.end`8\n}\nld 0x55\ndata:\n#d8 1, 2, 3\n.end:\n".to_string(), Some(vec![1, 0x55, 6, 1, 2, 3])));
        rep.absorb(par_cases(&cases, |(src, want), l| {
            l.eval();
            l.nontrivial(src);
            l.class("special-looking-names");
            let obs = run::assemble_str(src, &opts);
            let bad = if obs.panicked.is_some() {
                Some("panic")
            } else {
                match want {
                    Some(bytes) => {
                        let bits: String = bytes.iter().map(|b| format!("{:08b}", b)).collect();
                        if !obs.success() {
                            Some("valid program rejected")
                        } else if obs.bits != bits {
                            Some("a name resolves to something else than the declaration its dot-level and path determine")
                        } else {
                            None
                        }
                    }
                    None => (!obs.failure()).then_some("reference to an undeclared name accepted"),
                }
            };
            l.traces_validated += 1;
            if let Some(b) = bad {
                l.violation(Violation {
                    property: ID,
                    key: format!("special-names:{}", b),
                    what: format!("{}: {}", b, src.replace('\n', " / ")),
                    case: json!({"family": "special-names", "program": src, "opts": opts.to_json(), "expected": match want { Some(b) => json!({"ok": true, "hex": b.iter().map(|x| format!("{:02x}", x)).collect::<String>(), "bits_len": b.len() * 8}), None => json!({"error": "undeclared name"}) }, "observed": obs.summary()}),
                });
            }
        }));
    }
    // (f) dotted names in the fields of a bank definition: if the assembler accepts such a field at all, the name is the
    //     child its dots say (never the global of the same last name); a reference that skips a level is an error
    {
        // (field text, Some(address) = the only address a success may give / None = must be rejected, success required)
        let cases: Vec<(&str, Option<u8>, bool)> = vec![
            ("base", Some(0x40), true),
            (".base", Some(0x80), false),
            ("cfg.base", Some(0x80), true),
            ("..cfg.base", None, false),
            ("..base", None, false),
            (".base + 1", Some(0x81), false),
        ];
        let mut loc = Local::new();
        for (field, want, required) in &cases {
            for decl_after in [false, true] {
                let consts = "base = 0x40\ncfg = 0\n.base = 0x80\n";
                let bank = format!("#bankdef b\n{{\n    #addr {}\n    #outp 0\n}}\nhere:\n#d8 here\n", field);
                // the constants before the definition, with `cfg` as the scope at that point (the order matters for
                // the dotted forms only in this direction)
                if decl_after {
                    continue;
                }
                let src = format!("{}{}", consts, bank);
                loc.eval();
                loc.nontrivial(&src);
                loc.class("dotted-name-in-a-bank-field");
                let obs = run::assemble_str(&src, &opts);
                let bad = if obs.panicked.is_some() {
                    Some("panic")
                } else if obs.success() {
                    match want {
                        Some(a) if obs.bits == format!("{:08b}", a) => None,
                        Some(_) => Some("a name resolves to something else than the declaration its dot-level and path determine"),
                        None => Some("a reference that skips a nesting level is accepted"),
                    }
                } else if *required {
                    Some("valid program rejected")
                } else if !obs.failure() {
                    Some("neither clean success nor clean failure")
                } else {
                    None
                };
                loc.traces_validated += 1;
                if let Some(b) = bad {
                    loc.violation(Violation {
                        property: ID,
                        key: format!("bank-field-names:{}", b),
                        what: format!("{}: {}", b, src.replace('\n', " / ")),
                        case: json!({"family": "special-names", "program": src, "opts": opts.to_json(), "expected": match want { Some(a) => json!({"ok": true, "hex": format!("{:02x}", a), "bits_len": 8, "or": if *required { "nothing else" } else { "an error" }}), None => json!({"error": "reference skips a nesting level"}) }, "observed": obs.summary()}),
                    });
                }
            }
        }
        rep.absorb(loc);
    }
    rep.assumptions = vec!["a level-0 constant opens a new scope for following locals in this assembler; positions where that matters are Unspecified for the moved-constant family".into()];
    for c in ["ref-success", "ref-error:undefined symbol", "ref-error:duplicate symbol", "ref-error:declaration skips a nesting level", "ref-error:cyclic constant definition", "moved-constant"] {
        rep.require_class(c);
    }
    rep
}

pub fn replay(ctx: &Ctx, case: &serde_json::Value) -> i32 {
    if case["family"] == "moved-constant" {
        return super::replay_with(ctx, case, |case, l| {
            let o = Opts::iters(30);
            let b = run::assemble_str(case["base"].as_str().unwrap_or(""), &o);
            let v = run::assemble_str(case["program"].as_str().unwrap_or(""), &o);
            println!("base -> {}\nwith constant -> {}", b.summary(), v.summary());
            if b.bits != v.bits || b.success() != v.success() {
                l.violation(Violation { property: ID, key: "replay".into(), what: "still differs".into(), case: case.clone() });
            }
        });
    }
    c01::replay(ctx, case)
}
