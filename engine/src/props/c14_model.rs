//! Reference models for C14, written from the property statement and the maintainers' own
//! expectations (src/test/file_navigation.rs, tests/include_directory/ok_path_normalization.asm,
//! tests/once, tests/include_recursive, tests/incbin*, tests/inchexstr) — never from the code.
//!
//! * `navigate`   — component-wise path model with an explicit definedness domain
//! * `confinement`— model-independent safety predicate on a result of the real function
//! * `expand`     — DFS expansion of an include graph with an inclusion stack and a `#once` set
//! * `slice`      — which units an inclusion function must return
use std::collections::BTreeSet;

// ------------------------------------------------------------------------------------------------
// paths

#[derive(Clone, Debug, PartialEq, Eq)]
pub enum Nav {
    /// must succeed with exactly this normal form
    Ok(String),
    /// must be rejected
    Err,
    /// the statement and the maintainers' tests do not determine the answer: no verdict
    Unspecified(&'static str),
}

#[derive(Clone, Copy, PartialEq, Eq, Debug)]
enum CurClass {
    /// `main.asm`, `sub/main.asm`: plain relative, the directory part is in normal form
    Plain,
    /// `./main.asm`: relative, spelled with a leading `.`
    Dot,
    /// `/abs/p/main.asm`
    Abs,
    /// `<std>/cpu/x.asm`: a file of the built-in library
    Std,
}

pub const STD_PREFIX: &str = "<std>/";

fn special(c: &str) -> bool {
    c.is_empty() || c == "." || c == ".."
}

/// The name `rel` denotes when written inside the file `cur`.
///
/// Rules and where they come from:
/// * relative to the directory of the containing file; `.` dropped; `..` pops one component; popping
///   past the start is an error; both slash styles equivalent; result in `/` form (statement);
/// * empty components (doubled / trailing separators) are dropped and a leading separator means
///   "from the project root" when the current file is a plain relative one
///   (tests/include_directory/ok_path_normalization.asm: `././code///code1.asm`, `/code/code1.asm/`,
///   `.\code\\code1.asm`);
/// * a path that names no file at all (``, `.`, `sub/..` from the root directory) is an error
///   (file_navigation.rs: `""` and `"."` are `Err` for every current file);
/// * the directory part of the current file is kept verbatim in the result
///   (file_navigation.rs: `./main.asm` + `sibling.asm` = `./sibling.asm`, `/folder/inner.asm` + `../outer.asm` = `/outer.asm`);
/// * `<std>/name` (forward slash, ordinary components) names the library file of that name.
///
/// Unspecified: `..` that would pop the `.`, the root `/` or the `<std>` marker of the *current* file (the
/// maintainers' tests let it pop, the statement says such a path leaves the directory: conflict, no verdict);
/// a leading separator with a current file that is not plain relative; `<std>/` followed by special
/// components or backslashes; `<std>\` (the prefix spelled with a backslash).
pub fn navigate(cur: &str, rel: &str) -> Nav {
    if let Some(rest) = rel.strip_prefix(STD_PREFIX) {
        let plain = !rest.is_empty() && !rest.contains('\\') && rest.split('/').all(|c| !special(c));
        return if plain { Nav::Ok(rel.to_string()) } else { Nav::Unspecified("std prefix followed by special components") };
    }
    let slash = rel.replace('\\', "/");
    if slash.starts_with(STD_PREFIX) {
        return Nav::Unspecified("std prefix spelled with a backslash");
    }
    let cur_slash = cur.replace('\\', "/");
    let mut base: Vec<&str> = cur_slash.split('/').collect();
    base.pop();
    let class = match base.first() {
        Some(&"") => CurClass::Abs,
        Some(&"<std>") => CurClass::Std,
        Some(&".") => CurClass::Dot,
        _ => CurClass::Plain,
    };
    let floor = if class == CurClass::Plain { 0 } else { 1 };
    if base.iter().skip(floor).any(|c| special(c)) {
        return Nav::Unspecified("current file name is not in normal form");
    }
    let leading = slash.starts_with('/');
    let comps: Vec<&str> = slash.split('/').filter(|c| !c.is_empty() && *c != ".").collect();
    if comps.is_empty() {
        return Nav::Err;
    }
    let mut stack: Vec<&str>;
    let floor = if leading {
        if class != CurClass::Plain {
            return Nav::Unspecified("leading separator inside a file that is not plain relative");
        }
        stack = vec![];
        0
    } else {
        stack = base;
        floor
    };
    for c in comps {
        if c == ".." {
            if stack.len() > floor {
                stack.pop();
            } else if class == CurClass::Plain {
                return Nav::Err;
            } else {
                return Nav::Unspecified("`..` reaches the root marker of the current file");
            }
        } else {
            stack.push(c);
        }
    }
    if stack.len() == floor {
        // names the root directory itself
        return if class == CurClass::Std { Nav::Unspecified("names the library root") } else { Nav::Err };
    }
    Nav::Ok(stack.join("/"))
}

pub fn cur_is_relative(cur: &str) -> bool {
    !(cur.starts_with('/') || cur.starts_with('\\') || cur.starts_with(STD_PREFIX))
}

/// Model-independent safety predicate (returns what is wrong).
/// * `<std>/…` (literal prefix): an Ok result still starts with `<std>/` and never climbs above it;
/// * relative current file: an Ok result is non-empty, has no leading `/`, no `..` component, no backslash.
pub fn confinement(cur: &str, rel: &str, res: &Result<String, ()>) -> Option<&'static str> {
    let Ok(r) = res else { return None };
    if rel.starts_with(STD_PREFIX) {
        if !r.starts_with(STD_PREFIX) {
            return Some("a <std>/ path resolved to a name outside <std>/");
        }
        let mut depth: i64 = 0;
        for c in r[STD_PREFIX.len()..].split(|ch| ch == '/' || ch == '\\') {
            match c {
                "" | "." => {}
                ".." => {
                    depth -= 1;
                    if depth < 0 {
                        return Some("a <std>/ path climbs above <std>/ (`..` kept in the result)");
                    }
                }
                _ => depth += 1,
            }
        }
        return None;
    }
    if cur_is_relative(cur) {
        if r.is_empty() {
            return Some("empty result");
        }
        if r.starts_with('/') {
            return Some("relative current file, absolute result");
        }
        if r.split('/').any(|c| c == "..") {
            return Some("`..` component in the result");
        }
        if r.contains('\\') {
            return Some("backslash in the result");
        }
    }
    None
}

/// Lexical normalisation of an OS path (used to classify paths seen in a system-call trace).
pub fn lexical_abs(cwd: &str, p: &str) -> String {
    let full = if p.starts_with('/') { p.to_string() } else { format!("{}/{}", cwd, p) };
    let mut st: Vec<&str> = vec![];
    for c in full.split('/') {
        match c {
            "" | "." => {}
            ".." => {
                st.pop();
            }
            _ => st.push(c),
        }
    }
    format!("/{}", st.join("/"))
}

// ------------------------------------------------------------------------------------------------
// include graphs

#[derive(Clone, Debug, PartialEq, Eq, Hash)]
pub struct Graph {
    /// includes[f] = ordered targets of file f (file 0 is the root)
    pub includes: Vec<Vec<usize>>,
    pub once: Vec<bool>,
}

#[derive(Clone, Debug, PartialEq, Eq)]
pub enum Outcome {
    /// assembly must succeed with exactly `markers`
    Complete,
    /// a cycle of inclusions not broken by `#once`: must be reported as an error
    Cycle,
}

#[derive(Clone, Debug)]
pub struct Expansion {
    /// (file, position) of every marker byte in emission order
    pub markers: Vec<(usize, usize)>,
    pub outcome: Outcome,
    /// some inclusion re-entered a file that is still on the inclusion stack but says `#once`:
    /// the statement does not say whether that is "a cycle" (error) or "once" (skip); both accepted
    pub guarded_cycle: bool,
    /// canonical (stack, once-set) configurations passed through
    pub states: Vec<(Vec<usize>, Vec<usize>)>,
    /// include steps taken
    pub transitions: u64,
    /// some file spliced more than once / some include skipped because of #once
    pub repeated: bool,
    pub skipped: bool,
}

pub fn marker(f: usize, pos: usize) -> u8 {
    (((f + 1) << 4) | (pos + 1)) as u8
}

pub fn expand(g: &Graph) -> Expansion {
    let mut e = Expansion { markers: vec![], outcome: Outcome::Complete, guarded_cycle: false, states: vec![], transitions: 0, repeated: false, skipped: false };
    let mut stack = vec![];
    let mut once_done = BTreeSet::new();
    let mut spliced = vec![0usize; g.includes.len()];
    if visit(g, 0, &mut stack, &mut once_done, &mut spliced, &mut e).is_err() {
        e.outcome = Outcome::Cycle;
    }
    e
}

fn snapshot(stack: &[usize], once_done: &BTreeSet<usize>, e: &mut Expansion) {
    e.states.push((stack.to_vec(), once_done.iter().copied().collect()));
}

fn visit(g: &Graph, f: usize, stack: &mut Vec<usize>, once_done: &mut BTreeSet<usize>, spliced: &mut Vec<usize>, e: &mut Expansion) -> Result<(), ()> {
    if g.once[f] {
        once_done.insert(f);
    }
    spliced[f] += 1;
    if spliced[f] > 1 {
        e.repeated = true;
    }
    stack.push(f);
    snapshot(stack, once_done, e);
    for (pos, &t) in g.includes[f].iter().enumerate() {
        e.markers.push((f, pos));
        e.transitions += 1;
        if once_done.contains(&t) {
            // already spliced (or being spliced) and it says #once: nothing is spliced here
            e.skipped = true;
            if stack.contains(&t) {
                e.guarded_cycle = true;
            }
            continue;
        }
        if stack.contains(&t) {
            return Err(());
        }
        visit(g, t, stack, once_done, spliced, e)?;
        snapshot(stack, once_done, e);
    }
    e.markers.push((f, g.includes[f].len()));
    stack.pop();
    Ok(())
}

// ------------------------------------------------------------------------------------------------
// inclusion functions

#[derive(Clone, Debug, PartialEq, Eq)]
pub enum Slice {
    /// must return exactly units[a..b] (b > a)
    Range(usize, usize),
    /// the range lies (partly) past the end of the file: must be rejected
    Reject,
    /// zero-length result: emission not determined (must not crash)
    Unspecified(&'static str),
}

/// `len` units in the file, `start` (0 when absent), optional `length`.
/// `start == len` with no length is pinned as an error by tests/incbin/err_start_after_eof.asm
/// (and the incbinstr / inchexstr twins) for non-empty files.
pub fn slice(len: usize, start: usize, length: Option<usize>) -> Slice {
    match length {
        None => {
            if start > len {
                Slice::Reject
            } else if start == len {
                if len == 0 {
                    Slice::Unspecified("whole of an empty file")
                } else {
                    Slice::Reject
                }
            } else {
                Slice::Range(start, len)
            }
        }
        Some(n) => {
            if start + n > len {
                Slice::Reject
            } else if n == 0 {
                Slice::Unspecified("zero-length range inside the file")
            } else {
                Slice::Range(start, start + n)
            }
        }
    }
}
