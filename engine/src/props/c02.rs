//! C02 — a successful result is a genuine fixed point, never a stale guess.
//! Programs with value-dependent encodings x iteration budgets x both optimisation switches;
//! oracle: the certificate (DESIGN §3.5) evaluated on whatever state the assembler claims.
use crate::refasm::*;
use crate::run::{self, Obs, Opts};
use crate::stats::*;
use serde_json::json;

pub const ID: &str = "C02";

pub struct Family {
    pub name: &'static str,
    pub rules: Vec<RuleSrc>,
    pub items: Vec<Item>,
}

impl Family {
    /// bound on the sequence length per tier
    pub fn maxlen(&self, thorough: bool) -> u32 {
        // quick bound per family; thorough = one item longer where the alphabet is small (<= 9 items)
        let quick: u32 = match self.name {
            "frozen-constant-body" | "symbol-named-like-a-parameter" | "subrule-operand" | "constant-size-flips-with-a-label" | "data-in-range-only-after-shrinking" => 4,
            "global-constant-named-like-a-parameter" => 5,
            "late-flipping-boolean-constant" => 5,
            _ => 3,
        };
        if !thorough {
            quick
        } else if self.items.len() <= 9 {
            quick + 1
        } else {
            4
        }
    }
}

fn common_items() -> Vec<Item> {
    vec![
        Item::Instr("jmp A".into()),
        Item::Instr("jmp B".into()),
        Item::Instr("jmp $ + 3".into()),
        Item::Label("A".into()),
        Item::Label("B".into()),
        Item::Data(Some(8), vec!["A".into()]),
        Item::Data(Some(8), vec!["B - A".into()]),
        Item::Const("k".into(), "B - A".into()),
        Item::Instr("jmp k".into()),
        Item::Data(Some(8), vec!["0".into()]),
        Item::Data(Some(16), vec!["0".into()]),
        Item::Res("1".into()),
        Item::Align("16".into()),
        Item::Instr("nop".into()),
        Item::Instr("ld B".into()),
        Item::Instr("st A".into()),
        Item::Data(Some(8), vec!["A[7:0]".into()]),
        // a boolean constant that depends on a label, and a use of it
        Item::Const("far".into(), "B > 2".into()),
        Item::Data(Some(8), vec!["far ? 0xaa : 0xbb".into()]),
    ]
}

pub fn families() -> Vec<Family> {
    let fixed = vec![RuleSrc::new("nop", "0x00"), RuleSrc::new("ld {x: u8}", "0x7e @ x"), RuleSrc::new("st {x}", "0x7f @ x[7:0]")];
    let with = |mut v: Vec<RuleSrc>| {
        v.extend(fixed.clone());
        v
    };
    vec![
        Family { name: "assert-2-sizes", rules: with(vec![RuleSrc::new("jmp {a}", "{ assert(a < 4), 0xa @ a`4 }"), RuleSrc::new("jmp {a}", "0xb0 @ a`8")]), items: common_items() },
        Family {
            name: "assert-3-sizes",
            rules: with(vec![RuleSrc::new("jmp {a}", "{ assert(a < 3), 0xa @ a`4 }"), RuleSrc::new("jmp {a}", "{ assert(a < 6), 0xc0 @ a`8 }"), RuleSrc::new("jmp {a}", "0xd000 @ a`8")]),
            items: common_items(),
        },
        Family { name: "typed-width", rules: with(vec![RuleSrc::new("jmp {a: u2}", "0xe @ 0b00 @ a"), RuleSrc::new("jmp {a: u8}", "0xf0 @ a")]), items: common_items() },
        Family {
            name: "pc-relative",
            rules: with(vec![RuleSrc::new("jmp {a}", "{ assert(a - $ < 3), assert(a - $ > -3), 0x3 @ (a - $)`4 }"), RuleSrc::new("jmp {a}", "0x40 @ (a - $)`8")]),
            items: common_items(),
        },
        Family {
            // a pc-relative short form competing with an absolute (address-independent) long form, literal targets
            name: "relative-short-absolute-long",
            rules: with(vec![RuleSrc::new("jmp {a}", "{ assert(a - $ < 3), assert(a - $ > -3), 0x3 @ (a - $)`4 }"), RuleSrc::new("jmp {a}", "0x40 @ a`8"), RuleSrc::new("jb {a}", "{ assert(a < 4), 0xa @ a`4 }"), RuleSrc::new("jb {a}", "0xb0 @ a`8")]),
            items: vec![
                Item::Instr("jb B".into()),
                Item::Instr("jb A".into()),
                Item::Instr("jmp 2".into()),
                Item::Instr("jmp 4".into()),
                Item::Instr("jmp 0".into()),
                Item::Instr("jmp B".into()),
                Item::Label("A".into()),
                Item::Label("B".into()),
                Item::Data(Some(8), vec!["0".into()]),
                Item::Data(Some(16), vec!["0".into()]),
                Item::Instr("nop".into()),
                Item::Instr("st A".into()),
            ],
        },
        Family {
            // a constant-bodied short form (`far`) behind a cascading instruction (`jb`): the value the assert
            // sees in the first pass is not the final one
            name: "frozen-constant-body",
            rules: vec![RuleSrc::new("jb {a}", "{ assert(a < 5), 0xa @ a`4 }"), RuleSrc::new("jb {a}", "0xb0 @ a`8"), RuleSrc::new("far {t}", "{ assert(t < 2), 0xaa }"), RuleSrc::new("far {t}", "0xbbbb"), RuleSrc::new("nop", "0x00")],
            items: vec![
                Item::Instr("jb B".into()),
                Item::Instr("jb A".into()),
                Item::Instr("far A".into()),
                Item::Instr("far B".into()),
                Item::Label("A".into()),
                Item::Label("B".into()),
                Item::Data(Some(8), vec!["0".into()]),
                Item::Instr("nop".into()),
            ],
        },
        Family {
            // a boolean constant that depends on a label which settles late, used before its definition
            name: "late-flipping-boolean-constant",
            rules: vec![RuleSrc::new("jb {a}", "{ assert(a < 4), 0xa @ a`4 }"), RuleSrc::new("jb {a}", "0xb0 @ a`8"), RuleSrc::new("nop", "0x00")],
            items: vec![
                Item::Data(Some(8), vec!["far ? 0xaa : 0xbb".into()]),
                Item::Const("far".into(), "B > 3".into()),
                Item::Instr("jb B".into()),
                Item::Instr("jb A".into()),
                Item::Label("A".into()),
                Item::Label("B".into()),
                Item::Instr("nop".into()),
            ],
        },
        Family {
            // operands that go through a sub-rule with its own expression parameter, behind a cascading instruction
            name: "subrule-operand",
            rules: vec![RuleSrc::new("jb {a}", "{ assert(a < 5), 0xa @ a`4 }"), RuleSrc::new("jb {a}", "0xb0 @ a`8"), RuleSrc::new("lx {s: ind}", "0x3 @ s"), RuleSrc::new("nop", "0x00")],
            items: vec![
                Item::Instr("jb B".into()),
                Item::Instr("jb A".into()),
                Item::Instr("lx [A]".into()),
                Item::Instr("lx [B]".into()),
                Item::Instr("lx [$]".into()),
                Item::Instr("lx #A".into()),
                // parameterless alternatives whose production reads an address
                Item::Instr("lx toA".into()),
                Item::Instr("lx here".into()),
                Item::Label("A".into()),
                Item::Label("B".into()),
                Item::Instr("nop".into()),
            ],
        },
        Family {
            // a symbol that has the same name as a parameter of the rule used on the same line
            name: "symbol-named-like-a-parameter",
            rules: vec![RuleSrc::new("jb {a}", "{ assert(a < 6), 0xa @ a`4 }"), RuleSrc::new("jb {a}", "0xb0 @ a`8"), RuleSrc::new("mov {x}, {y}", "0x10 @ x`8 @ y`8"), RuleSrc::new("nop", "0x00")],
            items: vec![
                Item::Instr("jb B".into()),
                Item::Instr("jb x".into()),
                Item::Instr("mov 5, x".into()),
                Item::Instr("mov x, 5".into()),
                Item::Instr("mov y, x".into()),
                Item::Label("x".into()),
                Item::Label("y".into()),
                Item::Label("B".into()),
                Item::Instr("nop".into()),
            ],
        },
        Family {
            // layout directives that read labels which themselves settle late
            name: "label-dependent-layout-directives",
            rules: vec![RuleSrc::new("jb {a}", "{ assert(a < 6), 0xa @ a`4 }"), RuleSrc::new("jb {a}", "0xb0 @ a`8"), RuleSrc::new("nop", "0x00"), RuleSrc::new("ld {x: u8}", "0x7e @ x")],
            items: vec![
                Item::Instr("jb B".into()),
                Item::Instr("jb A".into()),
                Item::Res("B - A".into()),
                Item::Align("(B - A) * 8".into()),
                Item::Addr("A + 3".into()),
                Item::Instr("ld B".into()),
                Item::Label("A".into()),
                Item::Label("B".into()),
                Item::Instr("nop".into()),
            ],
        },
        Family {
            // a constant whose VALUE stays the same while its SIZE flips with a late-settling label: the instruction that
            // concatenates it changes length although "nothing changed" numerically
            name: "constant-size-flips-with-a-label",
            rules: vec![RuleSrc::new("ld {v}", "0x10 @ v"), RuleSrc::new("nop", "0x00")],
            items: vec![
                Item::Instr("ld x".into()),
                Item::Instr("ld y".into()),
                Item::Const("x".into(), "flag ? 0x05`8 : 0x05`16".into()),
                Item::Const("y".into(), "x".into()),
                Item::Const("flag".into(), "L >= 2".into()),
                Item::Label("L".into()),
                Item::Instr("nop".into()),
            ],
        },
        Family {
            // a candidate whose width cannot be read off its production without evaluating it (a conditional with branches
            // of different width) next to a really smaller candidate of static width: "smallest" means the real size
            name: "candidate-of-non-static-width",
            rules: with(vec![RuleSrc::new("jmp {a: u8}", "0x73 @ a"), RuleSrc::new("jmp {a}", "a < 0x1000 ? 0xa0 @ a`16 : 0xb0 @ a`24")]),
            items: common_items(),
        },
        Family {
            // data whose value is only in range once an over-estimated instruction between two labels has shrunk
            // (guess 256 / -129, final 255 / -128): a range check on a guess must not be final
            name: "data-in-range-only-after-shrinking",
            rules: vec![RuleSrc::new("jb {a}", "{ assert(a < 6), 0xa @ a`4 }"), RuleSrc::new("jb {a}", "0xb0 @ a`8"), RuleSrc::new("nop", "0x00")],
            items: vec![
                Item::Label("A".into()),
                Item::Instr("jb B".into()),
                Item::Label("B".into()),
                Item::Data(Some(8), vec!["254 + (B - A)".into()]),
                Item::Data(Some(8), vec!["(A - B) - 127".into()]),
                Item::Instr("nop".into()),
            ],
        },
        Family {
            // a global literal constant that has the NAME of a rule parameter, while the argument bound to that parameter
            // is a label that settles late
            name: "global-constant-named-like-a-parameter",
            rules: vec![RuleSrc::new("jb {a}", "{ assert(a < 6), 0xa @ a`4 }"), RuleSrc::new("jb {a}", "0xb0 @ a`8"), RuleSrc::new("ld {x}", "0x7e @ x`8"), RuleSrc::new("nop", "0x00")],
            items: vec![
                Item::Const("x".into(), "1".into()),
                Item::Instr("jb E".into()),
                Item::Label("L".into()),
                Item::Instr("ld L".into()),
                Item::Instr("ld 5".into()),
                Item::Label("E".into()),
                Item::Instr("nop".into()),
            ],
        },
        Family {
            // the short form's body is a constant: only the assert looks at the operand
            name: "assert-constant-body",
            rules: with(vec![RuleSrc::new("jmp {a}", "{ assert(a < 4), 0xaa }"), RuleSrc::new("jmp {a}", "0xbbbb")]),
            items: common_items(),
        },
        Family {
            // short form only when the target is FAR: programs that oscillate or have no fixed point
            name: "far-is-short",
            rules: with(vec![RuleSrc::new("jmp {a}", "{ assert(a >= 3), 0xa @ a`4 }"), RuleSrc::new("jmp {a}", "0xb0 @ a`8")]),
            items: common_items(),
        },
        Family {
            // a tie pair next to a cascading rule: errors only the non-guessing pass may raise
            name: "tie-next-to-cascade",
            rules: with(vec![RuleSrc::new("jmp {a}", "{ assert(a < 4), 0xa @ a`4 }"), RuleSrc::new("jmp {a}", "0xb0 @ a`8"), RuleSrc::new("jmp {a: u8}", "0xb1 @ a")]),
            items: common_items(),
        },
    ]
}

pub fn prog_of(f: &Family, seq: &[usize]) -> Prog {
    let mut ruledefs = vec![];
    if f.rules.iter().any(|r| r.pattern.contains(": ind}")) {
        ruledefs.push(RuleDefSrc { name: Some("ind".into()), sub: true, rules: vec![RuleSrc::new("[{v}]", "0x1 @ v`8"), RuleSrc::new("#{v: u8}", "0x2 @ v"), RuleSrc::new("toA", "0x4 @ A`8"), RuleSrc::new("here", "0x5 @ $`8")] });
    }
    ruledefs.push(RuleDefSrc { name: None, sub: false, rules: f.rules.clone() });
    Prog { ruledefs, items: seq.iter().map(|i| f.items[*i].clone()).collect() }
}

/// forward chain of length n: needs about n+1 passes; `oscillate` adds an instruction with no fixed point
pub fn chain_prog(n: usize, oscillate: bool) -> Prog {
    let mut rules = vec![RuleSrc::new("jmp {a}", "{ assert(a < 4), 0xa @ a`4 }"), RuleSrc::new("jmp {a}", "0xb0 @ a`8"), RuleSrc::new("nop", "0x00")];
    if oscillate {
        rules.push(RuleSrc::new("osc {a}", "{ assert(a >= E0), 0xa @ a`4 }"));
        rules.push(RuleSrc::new("osc {a}", "0xb0 @ a`8"));
    }
    let mut items = vec![];
    for i in 0..n {
        // instruction i shrinks iff at least i of the others have shrunk
        let c = 2 * n as i64 - 3 - i as i64;
        items.push(Item::Instr(format!("jmp E - {}", c)));
    }
    if n == 0 {
        items.push(Item::Instr("nop".into()));
    }
    items.push(Item::Label("E".into()));
    if oscillate {
        // `osc E2`: short (1 byte) only if E2 >= E+2, but E2 = E + size: short -> E2 = E+1 -> must be long -> E2 = E+2 -> short ...
        items.push(Item::Const("E0".into(), "E + 2".into()));
        items.push(Item::Instr("osc E2".into()));
        items.push(Item::Label("E2".into()));
    }
    Prog { ruledefs: vec![RuleDefSrc { name: None, sub: false, rules }], items }
}

/// Directed family: a jump over instructions of variable size whose encoding does not change when they are
/// re-resolved (opcode and late operand zero or not), in banks at small, wide and negative addresses: a label that
/// still moves while no encoding changes must keep the iteration going.
pub fn late_zero_operand_progs() -> Vec<Prog> {
    let mut out = vec![];
    for addr in [0i128, 1i128 << 64, (1i128 << 64) - 16, -0x100] {
        for opc in ["0x00", "0x10"] {
            for late in ["done - done", "done - done + 1", "done - done + 0x100", "done`4"] {
                for pad in 0..=2usize {
                    for width in ["a`8", "a`16"] {
                        let rules = vec![
                            RuleSrc::new("jmp {a}", &format!("0x10 @ {}", width)),
                            RuleSrc::new("ld {x: u8}", &format!("{} @ x", opc)),
                            RuleSrc::new("ld {x: u16}", &format!("{} @ x", opc)),
                            RuleSrc::new("halt", "0xff"),
                        ];
                        let mut items = vec![Item::Bankdef(BankSrc { name: "code".into(), bits: Some(8), addr: Some(addr), size: Some(0x100), outp: Some(0), fill: false, labelalign: None })];
                        items.push(Item::Instr("jmp done".into()));
                        for _ in 0..=pad {
                            items.push(Item::Instr("ld x".into()));
                        }
                        items.push(Item::Label("done".into()));
                        items.push(Item::Instr("halt".into()));
                        items.push(Item::Const("x".into(), "zero".into()));
                        items.push(Item::Const("zero".into(), late.into()));
                        out.push(Prog { ruledefs: vec![RuleDefSrc { name: None, sub: false, rules }], items });
                    }
                }
            }
        }
    }
    out
}

/// Directed family: a boolean constant over a label that only settles in the third pass (a pc-relative short
/// jump that can shrink only after another one did), used before or after its definition, for every
/// threshold and padding: {use first, constant first} x thresholds 0..6 x pads 0..2 x 0..2.
pub fn late_bool_progs() -> Vec<Prog> {
    let rules = vec![
        RuleSrc::new("nop", "0x00"),
        RuleSrc::new("jmp {a}", "{ assert(a >= $), assert(a - $ <= 4), 0x10 }"),
        RuleSrc::new("jmp {a}", "0x2000"),
    ];
    let mut out = vec![];
    for use_first in [true, false] {
        for t in 0..=6 {
            for pad1 in 0..=2 {
                for pad2 in 0..=2 {
                    let mut items = vec![];
                    let use_item = Item::Data(Some(8), vec!["far ? 0xaa : 0xbb".into()]);
                    let konst = Item::Const("far".into(), format!("entry > {}", t));
                    if use_first {
                        items.push(use_item.clone());
                        items.push(konst.clone());
                    } else {
                        items.push(konst.clone());
                        items.push(use_item.clone());
                    }
                    items.push(Item::Instr("jmp mid".into()));
                    items.push(Item::Label("entry".into()));
                    items.push(Item::Instr("jmp end".into()));
                    for _ in 0..pad1 {
                        items.push(Item::Instr("nop".into()));
                    }
                    items.push(Item::Label("mid".into()));
                    for _ in 0..pad2 {
                        items.push(Item::Instr("nop".into()));
                    }
                    items.push(Item::Label("end".into()));
                    out.push(Prog { ruledefs: vec![RuleDefSrc { name: None, sub: false, rules: rules.clone() }], items });
                }
            }
        }
    }
    out
}

/// directed: a CONSTANT as the scope parent of a local that is referenced behind a cascading instruction, with a
/// same-named literal local under the label before it. Which declaration `.v` means is fixed by the text; its value is
/// an address that settles late.
pub fn scope_parent_progs() -> Vec<Prog> {
    let rules = vec![RuleSrc::new("jb {a}", "{ assert(a < 6), 0xa @ a`4 }"), RuleSrc::new("jb {a}", "0xb0 @ a`8"), RuleSrc::new("ld {x: u8}", "0x7e @ x"), RuleSrc::new("nop", "0x00")];
    let mut out = vec![];
    for decoy in [0usize, 1, 2] {
        for parent in ["K = 1", "K:", "g2:"] {
            for local in [".v:", ".v = 7", ".v = F", ".v = $"] {
                for uses in [vec!["ld .v"], vec!["#d8 .v"], vec!["ld .v", "#d8 .v"], vec!["#d8 .v", "ld .v"]] {
                    for pad in 0..=2 {
                        for pad2 in [0usize, 3] {
                            let mut items = vec![];
                            if decoy == 2 {
                                // a GLOBAL literal constant with the local's name
                                items.push(Item::Const("v".into(), "1".into()));
                            }
                            items.push(Item::Label("g".into()));
                            if decoy == 1 {
                                items.push(Item::Const(".v".into(), "1".into()));
                            }
                            items.push(Item::Instr("jb F".into()));
                            for _ in 0..pad {
                                items.push(Item::Instr("nop".into()));
                            }
                            match parent {
                                "K = 1" => items.push(Item::Const("K".into(), "1".into())),
                                p => items.push(Item::Label(p.trim_end_matches(':').into())),
                            }
                            match local {
                                ".v:" => items.push(Item::Label(".v".into())),
                                ".v = 7" => items.push(Item::Const(".v".into(), "7".into())),
                                ".v = $" => items.push(Item::Const(".v".into(), "$".into())),
                                _ => items.push(Item::Const(".v".into(), "F".into())),
                            }
                            for u in &uses {
                                if let Some(e) = u.strip_prefix("#d8 ") {
                                    items.push(Item::Data(Some(8), vec![e.to_string()]));
                                } else {
                                    items.push(Item::Instr(u.to_string()));
                                }
                            }
                            for _ in 0..pad2 {
                                items.push(Item::Instr("nop".into()));
                            }
                            items.push(Item::Label("F".into()));
                            items.push(Item::Instr("nop".into()));
                            out.push(Prog { ruledefs: vec![RuleDefSrc { name: None, sub: false, rules: rules.clone() }], items });
                        }
                    }
                }
            }
        }
    }
    out
}

pub fn in_wide_bank(mut p: Prog) -> Prog {
    p.items.insert(0, Item::Bankdef(BankSrc { name: "wide".into(), bits: Some(8), addr: Some(1i128 << 64), size: None, outp: Some(0), fill: false, labelalign: None }));
    p
}

pub fn in_negative_bank(mut p: Prog) -> Prog {
    p.items.insert(0, Item::Bankdef(BankSrc { name: "neg".into(), bits: Some(8), addr: Some(-0x100), size: None, outp: Some(0), fill: false, labelalign: None }));
    p
}

/// sizes of the instruction items as claimed by the real result (from the spans, in program order)
pub fn claimed_sizes(prog: &Prog, obs: &Obs) -> Option<Vec<usize>> {
    let mut k = 0;
    let mut out = vec![];
    for it in &prog.items {
        match it {
            Item::Label(_) => k += 1,
            Item::Instr(_) => {
                out.push(obs.spans.get(k)?.size);
                k += 1;
            }
            Item::Data(_, es) => k += es.len(),
            _ => {}
        }
    }
    if k != obs.spans.len() {
        return None;
    }
    Some(out)
}

/// the certificate: None = holds (or no verdict), Some(reason) = the claimed state is not self-consistent
pub fn certificate(prog: &Prog, obs: &Obs, l: &mut Local) -> Option<String> {
    let Some(sizes) = claimed_sizes(prog, obs) else { return Some("spans do not correspond to the program's items".into()) };
    let mut r = assemble_with(prog, Some(&sizes));
    if matches!(&r, RefOut::Unspec(w) if w == "layout directive depends on an address") {
        // layout directives that read labels: certify at the label values the result itself claims
        let mut labels = std::collections::HashMap::new();
        for (n, v) in &obs.symbols {
            if let Some(z) = v.strip_prefix("0x").and_then(|h| crate::refx::Z::parse_bytes(h.as_bytes(), 16)) {
                labels.insert(n.clone(), z);
            }
        }
        r = assemble_certified(prog, Some(&sizes), &labels);
        l.count("certificates at claimed label values (label-dependent layout directives)", 1);
    }
    match r {
        RefOut::Unspec(_) => {
            l.unspecified += 1;
            None
        }
        RefOut::Error(e) => Some(format!("claimed state is not a fixed point: {}", e)),
        RefOut::Ok(ok) => {
            l.traces_validated += 1;
            if ok.bits != obs.bits {
                Some("emitted bits differ from the encodings selected at the final symbol values".into())
            } else if !super::c01::symbols_match(obs, &ok) {
                Some("a label's final value is not the address at which the following item lies".into())
            } else {
                None
            }
        }
    }
}

pub const SWITCHES: [(bool, bool); 4] = [(true, true), (false, true), (true, false), (false, false)];

pub fn judge(prog: &Prog, family: &str, budgets: &[usize], l: &mut Local) {
    judge_sw(prog, family, budgets, &SWITCHES, l)
}

pub fn judge_sw(prog: &Prog, family: &str, budgets: &[usize], switches: &[(bool, bool)], l: &mut Local) {
    let src = prog.render();
    let mut any_multi_pass = false;
    for (os, om) in switches.iter().copied() {
        for b in budgets {
            let opts = Opts { iters: *b, opt_static: os, opt_matcher: om, defines: vec![] };
            l.eval();
            let _ = run::take_pass_trace();
            let obs = run::assemble_str(&src, &opts);
            // hook H2: the real pass-state graph of this run (coverage only; no verdict reads it)
            let trace = run::take_pass_trace();
            let mut prev: Option<u64> = None;
            for (_, _, _, _, digest) in &trace {
                l.state(&(&src, digest));
                if let Some(p) = prev {
                    l.count(if p == *digest { "pass_transitions_to_same_state" } else { "pass_transitions_to_new_state" }, 1);
                }
                prev = Some(*digest);
            }
            l.transitions += trace.len() as u64;
            let mut bad: Option<(String, String)> = None;
            if let Some(p) = &obs.panicked {
                bad = Some(("C02:panic".into(), format!("panic: {}", p)));
            } else if obs.success() {
                let it = obs.iterations.unwrap_or(0);
                l.class(&format!("converged-in-{}", it.min(9)));
                if it >= 2 {
                    any_multi_pass = true;
                }
                if it == *b {
                    l.class("converged-exactly-at-budget");
                }
                if let Some(why) = certificate(prog, &obs, l) {
                    bad = Some(("C02:stale-or-inconsistent-success".into(), why));
                }
            } else if obs.failure() {
                l.class("not-converged-or-rejected");
            } else {
                bad = Some(("C02:unclean-outcome".into(), "neither clean success nor clean failure".into()));
            }
            if let Some((key, why)) = bad {
                l.violation(Violation {
                    property: ID,
                    key,
                    what: format!("{} [iters={} static={} matcher={}]: {}", why, b, os, om, src.replace('\n', " / ")),
                    case: json!({"family": family, "program": src, "prog": prog_json(prog), "opts": opts.to_json(), "observed": obs.summary(),
                        "spans": obs.spans.iter().map(|s| format!("{:?}+{}@{}", s.offset, s.size, s.addr)).collect::<Vec<_>>()}),
                });
            }
        }
    }
    if any_multi_pass {
        l.nontrivial(&src);
    }
    l.sample(|| json!({"family": family, "program": src}));
}

/// enough structure to rebuild the Prog for a replay
pub fn prog_json(p: &Prog) -> serde_json::Value {
    json!({
        "ruledefs": p.ruledefs.iter().map(|d| json!({"name": d.name, "sub": d.sub, "rules": d.rules.iter().map(|r| json!([r.pattern, r.prod])).collect::<Vec<_>>()})).collect::<Vec<_>>(),
        "items": p.items.iter().map(|i| match i {
            Item::Instr(s) => json!(["instr", s]),
            Item::Label(s) => json!(["label", s]),
            Item::Const(n, e) => json!(["const", n, e]),
            Item::Data(w, es) => json!(["data", w, es]),
            Item::Res(e) => json!(["res", e]),
            Item::Align(e) => json!(["align", e]),
            Item::Addr(e) => json!(["addr", e]),
            Item::Bank(e) => json!(["bank", e]),
            Item::Bankdef(b) => json!(["bankdef", b.render()]),
        }).collect::<Vec<_>>()
    })
}

pub fn prog_from_json(v: &serde_json::Value) -> Option<Prog> {
    let mut p = Prog::default();
    for d in v["ruledefs"].as_array()? {
        let mut rules = vec![];
        for r in d["rules"].as_array()? {
            rules.push(RuleSrc::new(r[0].as_str()?, r[1].as_str()?));
        }
        p.ruledefs.push(RuleDefSrc { name: d["name"].as_str().map(|s| s.to_string()), sub: d["sub"].as_bool()?, rules });
    }
    for i in v["items"].as_array()? {
        let s = |k: usize| i[k].as_str().map(|x| x.to_string());
        p.items.push(match i[0].as_str()? {
            "instr" => Item::Instr(s(1)?),
            "label" => Item::Label(s(1)?),
            "const" => Item::Const(s(1)?, s(2)?),
            "data" => Item::Data(i[1].as_u64().map(|x| x as usize), i[2].as_array()?.iter().filter_map(|e| e.as_str().map(|x| x.to_string())).collect()),
            "res" => Item::Res(s(1)?),
            "align" => Item::Align(s(1)?),
            "addr" => Item::Addr(s(1)?),
            "bank" => Item::Bank(s(1)?),
            _ => return None,
        });
    }
    Some(p)
}

pub fn quick_budgets() -> Vec<usize> {
    vec![1, 2, 3, 4, 10]
}

// ---- an `asm` block with two labels of its own -----------------------------------------------------------------
// `lda mid / mid: / ldb mid / end:` inside a block, both instructions choosing among three operand widths by the value of
// `mid`: every self-consistent layout is written down in closed form (mid is 2, 3 or 4); a success must be one of them.

const TL_WIDTHS: [usize; 3] = [8, 16, 24];

fn two_label_text(la: &[usize; 3], lb: &[usize; 3], tail: bool) -> String {
    let mut t = String::from("#ruledef\n{\n");
    for (k, c) in ["x <= 1", "x == 2", "x >= 3"].iter().enumerate() {
        t += &format!("    lda {{x}} => {{ assert({}), 0xa{} @ x`{} }}\n", c, k + 1, la[k]);
    }
    for (k, c) in ["x <= 2", "x == 3", "x >= 4"].iter().enumerate() {
        t += &format!("    ldb {{x}} => {{ assert({}), 0xb{} @ x`{} }}\n", c, k + 1, lb[k]);
    }
    t += "    pair => asm\n    {\n        lda mid\n        mid:\n        ldb mid\n        end:\n";
    if tail {
        t += "        lda end\n";
    }
    t += "    }\n}\npair\n";
    t
}

fn two_label_solutions(la: &[usize; 3], lb: &[usize; 3], tail: bool) -> Vec<String> {
    let hex = |v: usize, w: usize| format!("{:0width$x}", v, width = w / 4);
    let mut out = vec![];
    for mid in 2..=4usize {
        let ca = if mid <= 1 { 0 } else if mid == 2 { 1 } else { 2 };
        if 1 + la[ca] / 8 != mid {
            continue;
        }
        let cb = if mid <= 2 { 0 } else if mid == 3 { 1 } else { 2 };
        let end = mid + 1 + lb[cb] / 8;
        let mut h = format!("a{}{}b{}{}", ca + 1, hex(mid, la[ca]), cb + 1, hex(mid, lb[cb]));
        if tail {
            h += &format!("a3{}", hex(end, la[2]));
        }
        out.push(h);
    }
    out
}

fn judge_two_labels(la: &[usize; 3], lb: &[usize; 3], tail: bool, l: &mut Local) {
    let src = two_label_text(la, lb, tail);
    let sols = two_label_solutions(la, lb, tail);
    for iters in [3usize, 10, 30] {
        for opt in [true, false] {
            let opts = Opts { iters, opt_static: opt, opt_matcher: opt, defines: vec![] };
            l.eval();
            let obs = run::assemble_str(&src, &opts);
            l.traces_validated += 1;
            let bad = if obs.panicked.is_some() {
                Some(("C02:panic", "panic".to_string()))
            } else if obs.success() {
                l.class("two-labels-in-a-block-ok");
                (!sols.contains(&obs.hex())).then(|| ("C02:stale-or-inconsistent-success", format!("the emitted {} is none of the self-consistent layouts {:?}", obs.hex(), sols)))
            } else if !obs.failure() {
                Some(("C02:unclean-outcome", "neither clean success nor clean failure".to_string()))
            } else {
                l.class("two-labels-in-a-block-rejected");
                None
            };
            if let Some((key, why)) = bad {
                l.violation(Violation {
                    property: ID,
                    key: key.into(),
                    what: format!("{} [iters={} optimisations={}]: {}", why, iters, opt, src.replace('\n', " / ")),
                    case: json!({"family": "two-labels-in-a-block", "lda_widths": la, "ldb_widths": lb, "tail": tail, "program": src, "self_consistent_layouts": sols, "opts": opts.to_json(), "observed": obs.summary()}),
                });
                return;
            }
        }
    }
    l.nontrivial(&src);
}

// ---- an `asm` block that can never be accepted: one of its instructions has two equally small candidates ------
// The block holds a label of its own (so it needs more than one inner pass). Whatever the budget, the only legitimate
// outcome is the error; a success would be a guess that was never confirmed.

fn judge_ambiguous_in_block(variant: usize, l: &mut Local) {
    let bodies = [
        "        amb 1\n        here:\n        ld here\n",
        "        ld here\n        here:\n        amb 2\n",
        "        here:\n        amb here\n",
        "        nop\n        here:\n        ld here\n        amb 3\n",
    ];
    let src = format!("#ruledef\n{{\n    nop => 0x00\n    ld {{x}} => 0x10 @ x`8\n    amb {{x}} => 0xa1 @ x`8\n    amb {{x}} => 0xa2 @ x`8\n    blk => asm\n    {{\n{}    }}\n}}\nnop\nblk\n#d8 0xee\n", bodies[variant]);
    for iters in [1usize, 2, 3, 4, 10, 30] {
        for opt in [true, false] {
            let opts = Opts { iters, opt_static: opt, opt_matcher: opt, defines: vec![] };
            l.eval();
            let obs = run::assemble_str(&src, &opts);
            l.traces_validated += 1;
            let bad = if obs.panicked.is_some() {
                Some(("C02:panic", "panic"))
            } else if obs.ok {
                Some(("C02:stale-or-inconsistent-success", "a block with an instruction of two equally small candidates was assembled"))
            } else if !obs.failure() {
                Some(("C02:unclean-outcome", "neither clean success nor clean failure"))
            } else {
                l.class("ambiguous-instruction-in-a-block-rejected");
                None
            };
            if let Some((key, why)) = bad {
                l.violation(Violation {
                    property: ID,
                    key: key.into(),
                    what: format!("{} [iters={} optimisations={}]: {}", why, iters, opt, src.replace('\n', " / ")),
                    case: json!({"family": "ambiguous-in-a-block", "variant": variant, "program": src, "opts": opts.to_json(), "observed": obs.summary()}),
                });
                return;
            }
        }
    }
    l.nontrivial(&src);
}

pub fn run(ctx: &Ctx) -> Report {
    let mut rep = Report::new(
        "model_checking",
        "seventeen rule families with value-dependent encodings (assert cascades with 2 and 3 sizes, typed-width cascade, pc-relative, far-is-short with no/oscillating fixed points, tie next to a cascade) x all item sequences up to a length over 15 items x iteration budgets x the 4 optimisation-switch combinations, plus the skeleton grid (forward chains of length 0..12, with and without an oscillator) x budgets 1..30 x 4; every claimed success is re-derived from its own final symbol values and instruction sizes (certificate). Non-trivial = program that needed >= 2 passes under some configuration; distinct by program text. states = distinct (program, per-pass state digest) pairs read through hook H2, transitions = resolver passes executed.",
    );
    let fams = families();
    // sequence families: budgets around the pass counts that occur (1..6), the default and its neighbour, and a large
    // one; the skeleton grid and the directed family below use every budget 1..30
    let budgets: Vec<usize> = if ctx.thorough { vec![1, 2, 3, 4, 5, 6, 10, 11, 30] } else { quick_budgets() };
    let mut levels = vec![];
    for (fi, f) in fams.iter().enumerate() {
        let k = f.items.len() as u64;
        let _ = fi;
        let maxlen: u32 = f.maxlen(ctx.thorough);
        let n = seq_count(k, maxlen);
        let b = &budgets;
        // quick: optimisations both on / both off (C08 covers the mixed combinations); thorough: all four
        let sw: &[(bool, bool)] = if ctx.thorough { &SWITCHES } else { &[(true, true), (false, false)] };
        rep.absorb(par_run(n, |i, l| {
            let seq = seq_decode(i, k, maxlen);
            judge_sw(&prog_of(f, &seq), f.name, b, sw, l);
        }));
        levels.push(json!({"family": f.name, "max_len": maxlen, "programs": n, "runs": n * (if ctx.thorough { 4 } else { 2 }) * budgets.len() as u64}));
    }
    // the pc-relative family once more inside a bank at a NEGATIVE address: label values that no machine word holds
    // must be compared, converge and be certified like any other
    for f in fams.iter().filter(|f| f.name == "pc-relative") {
        let k = f.items.len() as u64;
        let maxlen: u32 = f.maxlen(ctx.thorough);
        let b = &budgets;
        let sw: &[(bool, bool)] = if ctx.thorough { &SWITCHES } else { &[(true, true), (false, false)] };
        rep.absorb(par_run(seq_count(k, maxlen), |i, l| {
            let seq = seq_decode(i, k, maxlen);
            judge_sw(&in_negative_bank(prog_of(f, &seq)), "pc-relative-in-a-bank-at-a-negative-address", b, sw, l);
        }));
        levels.push(json!({"family": "pc-relative inside a bank at address -0x100", "max_len": maxlen, "programs": seq_count(k, maxlen)}));
    }
    // ... and every family inside a bank at 2^64 (label values beyond the machine word)
    for f in fams.iter() {
        let k = f.items.len() as u64;
        let maxlen: u32 = f.maxlen(ctx.thorough);
        let b = &budgets;
        let sw: &[(bool, bool)] = if ctx.thorough { &SWITCHES } else { &[(true, true)] };
        rep.absorb(par_run(seq_count(k, maxlen), |i, l| {
            let seq = seq_decode(i, k, maxlen);
            judge_sw(&in_wide_bank(prog_of(f, &seq)), "family-in-a-bank-at-2^64", b, sw, l);
        }));
        levels.push(json!({"family": format!("{} inside a bank at address 2^64", f.name), "max_len": maxlen, "programs": seq_count(k, maxlen)}));
    }
    // skeleton grid
    let all_budgets: Vec<usize> = (1..=30).collect();
    let grid: Vec<(usize, bool)> = (0..=12).flat_map(|n| [(n, false), (n, true)]).collect();
    rep.absorb(par_cases(&grid, |(n, osc), l| judge(&chain_prog(*n, *osc), "skeleton-chain", &all_budgets, l)));
    levels.push(json!({"family": "skeleton grid: chains 0..12 x {plain, +oscillator} x budgets 1..30 x 4 switches", "programs": grid.len(), "runs": grid.len() * 120}));
    let lz = late_zero_operand_progs();
    rep.absorb(par_cases(&lz, |p, l| judge(p, "late-zero-operand-directed", &all_budgets, l)));
    levels.push(json!({"family": "late zero operand (directed): 4 bank addresses (0, 2^64, 2^64-16, -0x100) x 2 opcodes x 4 late operands x 3 pads x 2 jump widths x budgets 1..30 x 4 switches", "programs": lz.len()}));
    let lb = late_bool_progs();
    rep.absorb(par_cases(&lb, |p, l| judge(p, "late-boolean-directed", &all_budgets, l)));
    levels.push(json!({"family": "late-settling boolean constant (directed): 2 orders x 7 thresholds x 3 x 3 pads x budgets 1..30 x 4 switches", "programs": lb.len()}));
    let sp = scope_parent_progs();
    let sp_budgets = [2usize, 3, 4, 10, 30];
    rep.absorb(par_cases(&sp, |p, l| judge(p, "constant-or-label-as-scope-parent-directed", &sp_budgets, l)));
    levels.push(json!({"family": "a constant / label as scope parent of a late-settling local, with a same-named decoy (directed)", "programs": sp.len()}));
    {
        let n = 27u64 * 27 * 2;
        rep.absorb(par_run(n, |i, l| {
            let d = decode(i, &[3, 3, 3, 3, 3, 3, 2]);
            let la = [TL_WIDTHS[d[0] as usize], TL_WIDTHS[d[1] as usize], TL_WIDTHS[d[2] as usize]];
            let lb = [TL_WIDTHS[d[3] as usize], TL_WIDTHS[d[4] as usize], TL_WIDTHS[d[5] as usize]];
            judge_two_labels(&la, &lb, d[6] == 1, l);
        }));
        levels.push(json!({"family": "an asm block with two labels of its own: 27 x 27 width tables x with/without a third instruction x budgets {3,10,30} x optimisations on/off; closed-form set of self-consistent layouts", "programs": n}));
    }
    {
        let v: Vec<usize> = (0..4).collect();
        rep.absorb(par_cases(&v, |k, l| judge_ambiguous_in_block(*k, l)));
        levels.push(json!({"family": "an asm block with a label and an instruction of two equally small candidates (directed): 4 bodies x budgets {1,2,3,4,10,30} x optimisations on/off; the only legitimate outcome is the error", "programs": 4}));
    }
    rep.extra("levels", json!(levels));
    rep.extra("budgets", json!(budgets));
    rep.assumptions = vec!["the certificate uses the reference matcher/evaluator (refasm) with the sizes and symbol values the assembler itself reports; it never predicts which fixed point is found".into(), "hook H2 (per-pass state digests) is coverage instrumentation only: the certificate reads the public final result".into()];
    for c in ["converged-in-1", "converged-in-2", "converged-in-3", "converged-in-4", "converged-in-6", "converged-exactly-at-budget", "not-converged-or-rejected"] {
        rep.require_class(c);
    }
    rep
}

pub fn replay(ctx: &Ctx, case: &serde_json::Value) -> i32 {
    super::replay_with(ctx, case, |case, l| {
        if case["family"] == "ambiguous-in-a-block" {
            println!("program:\n{}", case["program"].as_str().unwrap_or(""));
            judge_ambiguous_in_block(case["variant"].as_u64().unwrap_or(0) as usize, l);
            return;
        }
        if case["family"] == "two-labels-in-a-block" {
            let w = |k: &str| -> [usize; 3] {
                let a: Vec<usize> = case[k].as_array().cloned().unwrap_or_default().iter().map(|x| x.as_u64().unwrap_or(8) as usize).collect();
                [a.first().copied().unwrap_or(8), a.get(1).copied().unwrap_or(8), a.get(2).copied().unwrap_or(8)]
            };
            println!("program:\n{}\nself-consistent layouts: {}", case["program"].as_str().unwrap_or(""), case["self_consistent_layouts"]);
            judge_two_labels(&w("lda_widths"), &w("ldb_widths"), case["tail"].as_bool().unwrap_or(false), l);
            return;
        }
        let Some(prog) = prog_from_json(&case["prog"]) else {
            eprintln!("replay file lacks the structured program");
            return;
        };
        let o = &case["opts"];
        let opts = Opts { iters: o["iters"].as_u64().unwrap_or(10) as usize, opt_static: o["opt_static"].as_bool().unwrap_or(true), opt_matcher: o["opt_matcher"].as_bool().unwrap_or(true), defines: vec![] };
        let obs = run::assemble_str(&prog.render(), &opts);
        println!("program:\n{}\noptions: {}\nobserved: {}", prog.render(), opts.to_json(), obs.summary());
        if obs.panicked.is_some() {
            l.violation(Violation { property: ID, key: "C02:panic".into(), what: "panic".into(), case: case.clone() });
        } else if obs.success() {
            if let Some(why) = certificate(&prog, &obs, l) {
                l.violation(Violation { property: ID, key: "C02:stale-or-inconsistent-success".into(), what: why, case: case.clone() });
            }
        } else if !obs.failure() {
            l.violation(Violation { property: ID, key: "C02:unclean-outcome".into(), what: "neither clean success nor clean failure".into(), case: case.clone() });
        }
    })
}
