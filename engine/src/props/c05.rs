//! C05 — expressions compute exact unbounded-integer mathematics with tracked sizes.
//! Alphabet: leaves x all operators/built-ins; bound: complete trees to the stated depth, printed
//! minimally and fully parenthesised; oracle: refx (independent evaluator).
use crate::refx::*;
use crate::run;
use crate::stats::*;
use customasm::*;
use serde_json::json;
use std::panic::{catch_unwind, AssertUnwindSafe};

pub const ID: &str = "C05";

#[derive(Clone, Debug, PartialEq)]
pub enum SRes {
    Ok(RVal),
    OtherValue(String),
    ParseErr,
    Leftover,
    EvalErr,
    Panic(String),
}

pub fn to_z(b: &util::BigInt) -> Z {
    let s = format!("{:x}", b);
    Z::parse_bytes(s.as_bytes(), 16).expect("hex")
}

pub fn conv_value(v: &expr::Value) -> SRes {
    match v {
        expr::Value::Integer(b) => SRes::Ok(RVal::Int(to_z(b), b.size)),
        expr::Value::Bool(b) => SRes::Ok(RVal::Bool(*b)),
        expr::Value::Void => SRes::Ok(RVal::Void),
        expr::Value::String(s) => {
            let enc = match s.encoding.as_str() {
                "utf8" => Enc::Utf8,
                "ascii" => Enc::Ascii,
                "utf16be" => Enc::Utf16be,
                "utf16le" => Enc::Utf16le,
                "utf32be" => Enc::Utf32be,
                "utf32le" => Enc::Utf32le,
                o => return SRes::OtherValue(format!("string with encoding {}", o)),
            };
            SRes::Ok(RVal::Str(s.utf8_contents.clone(), enc))
        }
        o => SRes::OtherValue(format!("{:?}", o)),
    }
}

/// parse + evaluate `text` with the real parser and evaluator (no symbols available)
pub fn subject_eval(text: &str) -> SRes {
    let r = catch_unwind(AssertUnwindSafe(|| {
        let mut report = diagn::Report::new();
        let mut walker = syntax::Walker::new(text, 0, 0);
        let e = match expr::parse(&mut report, &mut walker) {
            Ok(e) => e,
            Err(()) => return SRes::ParseErr,
        };
        walker.skip_ignorable();
        if !walker.is_over() {
            return SRes::Leftover;
        }
        let mut provider = |q: expr::EvalQuery| expr::dummy_eval_query(q);
        match e.eval(&mut report, &mut provider) {
            Ok(v) => conv_value(&v),
            Err(()) => {
                if !report.has_errors() {
                    return SRes::OtherValue("Err(()) without an error diagnostic".to_string());
                }
                SRes::EvalErr
            }
        }
    }));
    match r {
        Ok(s) => s,
        Err(e) => SRes::Panic(run::panic_text(e)),
    }
}

fn leaves_full() -> Vec<E> {
    let mut v = vec![];
    for n in [0i64, 1, 2, 7, 8, -1, -128, 255, 256] {
        v.push(E::int(n));
    }
    v.push(E::num("18446744073709551616")); // 2^64
    v.push(E::num("340282366920938463463374607431768211457")); // 2^128+1
    for s in ["0x00", "0b1", "0xff", "0x8000", "%0101", "$7f", "0o17"] {
        v.push(E::num(s));
    }
    v.push(E::Bool(true));
    v.push(E::Bool(false));
    v.push(E::Str("\"A\"".into()));
    v.push(E::Str("\"é\"".into()));
    v.push(E::Str("\"AB\"".into()));
    v
}

fn leaves_small() -> Vec<E> {
    vec![E::int(0), E::int(1), E::int(-3), E::num("0x0f"), E::int(256), E::Bool(true), E::Bool(false)]
}

fn leaves_tiny() -> Vec<E> {
    vec![E::int(1), E::int(-3), E::num("0x0f")]
}

const FNS: [&str; 9] = ["le", "sizeof", "strlen", "utf8", "ascii", "utf16be", "utf16le", "utf32be", "utf32le"];

/// all trees with exactly one operator node over the given leaves
fn depth1(leaves: &[E]) -> Vec<E> {
    let mut v = vec![];
    for op in [UnOp::Neg, UnOp::Not] {
        for a in leaves {
            v.push(E::un(op, a.clone()));
        }
    }
    for op in ALL_BIN {
        for a in leaves {
            for b in leaves {
                v.push(E::bin(op, a.clone(), b.clone()));
            }
        }
    }
    for a in leaves {
        for b in leaves {
            for c in leaves {
                v.push(E::Tern(Box::new(a.clone()), Box::new(b.clone()), Box::new(c.clone())));
                v.push(E::Slice(Box::new(a.clone()), Box::new(b.clone()), Box::new(c.clone())));
            }
            v.push(E::Short(Box::new(a.clone()), Box::new(b.clone())));
        }
        for f in FNS {
            v.push(E::Call(f.to_string(), vec![a.clone()]));
        }
    }
    v
}

/// trees op(x, y) where one child comes from `subs` and the others are leaves (all positions)
fn one_deep_child(subs: &[E], leaves: &[E], i: u64) -> Option<E> {
    // layout: [unary: 2*S] [binary: 19*2*S*L] [tern: 3*S*L*L] [slice: 3*S*L*L] [short: 2*S*L] [call: 9*S]
    let s = subs.len() as u64;
    let l = leaves.len() as u64;
    let mut i = i;
    let n_un = 2 * s;
    if i < n_un {
        let op = if i / s == 0 { UnOp::Neg } else { UnOp::Not };
        return Some(E::un(op, subs[(i % s) as usize].clone()));
    }
    i -= n_un;
    let n_bin = 19 * 2 * s * l;
    if i < n_bin {
        let d = decode(i, &[l, s, 2, 19]);
        let (leaf, sub, side, op) = (&leaves[d[0] as usize], &subs[d[1] as usize], d[2], ALL_BIN[d[3] as usize]);
        return Some(if side == 0 { E::bin(op, sub.clone(), leaf.clone()) } else { E::bin(op, leaf.clone(), sub.clone()) });
    }
    i -= n_bin;
    let n_t = 3 * s * l * l;
    for kind in 0..2 {
        if i < n_t {
            let d = decode(i, &[l, l, s, 3]);
            let (l1, l2, sub, pos) = (leaves[d[0] as usize].clone(), leaves[d[1] as usize].clone(), subs[d[2] as usize].clone(), d[3]);
            let (a, b, c) = match pos {
                0 => (sub, l1, l2),
                1 => (l1, sub, l2),
                _ => (l1, l2, sub),
            };
            return Some(if kind == 0 { E::Tern(Box::new(a), Box::new(b), Box::new(c)) } else { E::Slice(Box::new(a), Box::new(b), Box::new(c)) });
        }
        i -= n_t;
    }
    let n_sh = 2 * s * l;
    if i < n_sh {
        let d = decode(i, &[l, s, 2]);
        let (leaf, sub) = (leaves[d[0] as usize].clone(), subs[d[1] as usize].clone());
        return Some(if d[2] == 0 { E::Short(Box::new(sub), Box::new(leaf)) } else { E::Short(Box::new(leaf), Box::new(sub)) });
    }
    i -= n_sh;
    let n_call = 9 * s;
    if i < n_call {
        return Some(E::Call(FNS[(i / s) as usize].to_string(), vec![subs[(i % s) as usize].clone()]));
    }
    None
}
fn one_deep_count(s: u64, l: u64) -> u64 {
    2 * s + 19 * 2 * s * l + 2 * 3 * s * l * l + 2 * s * l + 9 * s
}

fn describe(r: &SRes) -> String {
    match r {
        SRes::Ok(RVal::Int(z, s)) => format!("Int({}{})", z, s.map(|s| format!("`{}", s)).unwrap_or_default()),
        o => format!("{:?}", o),
    }
}
fn describe_ref(r: &RRes) -> String {
    match r {
        Ok(RVal::Int(z, s)) => format!("Int({}{})", z, s.map(|s| format!("`{}", s)).unwrap_or_default()),
        o => format!("{:?}", o),
    }
}

/// compare one printed rendering with the reference verdict
fn judge_text(text: &str, expected: &RRes, family: &str, coord: serde_json::Value, l: &mut Local) {
    l.eval();
    let got = subject_eval(text);
    let bad = match (expected, &got) {
        (_, SRes::Panic(_)) => Some("panic"),
        (Err(RErr::Unspec(_)), _) | (Err(RErr::Constraint), _) => None,
        (Ok(v), SRes::Ok(g)) => {
            if v == g {
                None
            } else {
                Some("wrong value")
            }
        }
        (Ok(_), _) => Some("defined expression rejected or mis-parsed"),
        (Err(RErr::Error(_)), SRes::Ok(_)) | (Err(RErr::Error(_)), SRes::OtherValue(_)) => Some("ill-typed/undefined operation yields a value"),
        (Err(RErr::Error(_)), SRes::Leftover) => Some("mis-parsed (left-over tokens)"),
        (Err(RErr::Error(_)), _) => None,
    };
    if let Some(b) = bad {
        l.violation(Violation {
            property: ID,
            key: format!("expr:{}", b),
            what: format!("{}: `{}` expected {} got {}", b, text, describe_ref(expected), describe(&got)),
            case: json!({"family": family, "coord": coord, "text": text, "expected": describe_ref(expected), "observed": describe(&got)}),
        });
    }
}

fn judge_tree(e: &E, family: &str, coord: serde_json::Value, l: &mut Local) {
    let env = Env::new();
    let expected = eval(e, &env);
    let min = e.print(false);
    let full = e.print(true);
    match &expected {
        Err(RErr::Unspec(why)) if why.contains("C19") => {
            // magnitudes that make the subject run bit-by-bit loops over millions of bits belong to C19 (resource
            // limits); they are not executed here
            l.unspecified += 1;
            l.count("not_executed_magnitude_belongs_to_C19", 1);
            return;
        }
        Err(RErr::Unspec(_)) | Err(RErr::Constraint) => l.unspecified += 1,
        Ok(_) => {
            l.class("defined-value");
            l.nontrivial(&min);
        }
        Err(RErr::Error(_)) => {
            l.class("defined-error");
            l.nontrivial(&min);
        }
    }
    judge_text(&min, &expected, family, coord.clone(), l);
    if full != min {
        judge_text(&full, &expected, family, coord, l);
    }
    l.traces_validated += 1;
    l.sample(|| json!({"family": family, "minimal": min, "full": full, "reference": describe_ref(&expected)}));
}

// ---- literal spellings --------------------------------------------------------------------

fn literal_cases(thorough: bool) -> Vec<String> {
    let mut v = vec![];
    let maxlen = if thorough { 4 } else { 3 };
    let bases: [(&str, &str); 6] = [("", "0189a_"), ("0b", "012_"), ("%", "01_"), ("0o", "0178_"), ("0x", "09afAFg_"), ("$", "09afF_")];
    for (prefix, alphabet) in bases {
        let chars: Vec<char> = alphabet.chars().collect();
        let k = chars.len() as u64;
        for i in 0..seq_count(k, maxlen) {
            let s: String = seq_decode(i, k, maxlen).iter().map(|c| chars[*c]).collect();
            let text = format!("{}{}", prefix, s);
            if text.is_empty() {
                continue;
            }
            v.push(text);
        }
    }
    // long literals (beyond one and two machine words), plain and with `_` separators in every arrangement of a small
    // catalogue: every third digit from the right, a single separator at an early / word-boundary / late position, a
    // doubled separator
    for (prefix, digits) in [("", "1234567890"), ("0x", "9abcdef012345678"), ("0b", "10"), ("0o", "7012345")] {
        let dg: Vec<char> = digits.chars().collect();
        for len in [16usize, 17, 18, 19, 20, 21, 22, 36, 37, 40, 64, 65] {
            let body: Vec<char> = (0..len).map(|i| dg[i % dg.len()]).collect();
            let plain: String = body.iter().collect();
            let mut variants: Vec<String> = vec![plain.clone()];
            let mut grouped = String::new();
            for (i, c) in body.iter().enumerate() {
                if i > 0 && (len - i) % 3 == 0 {
                    grouped.push('_');
                }
                grouped.push(*c);
            }
            variants.push(grouped);
            for at in [1usize, 9, 16, 17, 18, 19, len - 1] {
                if at < len {
                    let mut t = plain.clone();
                    t.insert(at, '_');
                    variants.push(t.clone());
                    t.insert(at, '_');
                    variants.push(t);
                }
            }
            for t in variants {
                let text = format!("{}{}", prefix, t);
                if !v.contains(&text) {
                    v.push(text);
                }
            }
        }
    }
    v
}

/// how the tokenizer is documented to read a spelling: Some(()) if the whole text is ONE number token
fn is_single_number_token(t: &str) -> bool {
    let c: Vec<char> = t.chars().collect();
    if c.is_empty() {
        return false;
    }
    if c[0].is_ascii_digit() {
        return c.iter().all(|ch| ch.is_ascii_alphanumeric() || *ch == '_');
    }
    if c[0] == '%' {
        return c.len() > 1 && c[1..].iter().all(|ch| *ch == '0' || *ch == '1' || *ch == '_');
    }
    if c[0] == '$' {
        return c.len() > 1 && c[1..].iter().all(|ch| ch.is_ascii_hexdigit() || *ch == '_');
    }
    false
}

fn judge_literal(text: &str, l: &mut Local) {
    if !is_single_number_token(text) {
        // e.g. `%` alone, `$` alone (current address), `%2`: not one literal token; out of this family
        l.unspecified += 1;
        return;
    }
    // uppercase radix prefixes are not documented either way
    let e = E::num(text);
    let expected = match literal(text) {
        Some((v, s)) => Ok(RVal::Int(v, s)),
        None => Err(RErr::Error("invalid literal")),
    };
    l.nontrivial(text);
    l.class(if expected.is_ok() { "literal-valid" } else { "literal-invalid" });
    judge_text(text, &expected, "literal", json!(text), l);
    // and negated / inside an operation, to make sure the token boundary is right
    let neg = E::un(UnOp::Neg, e.clone());
    judge_text(&neg.print(false), &eval(&neg, &Env::new()), "literal-neg", json!(text), l);
    l.sample(|| json!({"family": "literal", "text": text, "reference": describe_ref(&expected)}));
}

// ---- strings ------------------------------------------------------------------------------

const STR_ATOMS: [&str; 14] = ["a", "Z", "é", "😀", "\\n", "\\0", "\\x41", "\\x7f", "\\u{e9}", "\\u{1F600}", "\\\\", "\\\"", "\\u{142}", "€"];
const STR_BAD: [&str; 6] = ["\\q", "\\x80", "\\x4", "\\u{110000}", "\\u{d800}", "\\u41"];

fn string_sources(thorough: bool) -> Vec<String> {
    let mut v = vec![];
    let maxlen = if thorough { 3 } else { 2 };
    let k = STR_ATOMS.len() as u64;
    for i in 0..seq_count(k, maxlen) {
        let s: String = seq_decode(i, k, maxlen).iter().map(|c| STR_ATOMS[*c]).collect();
        v.push(format!("\"{}\"", s));
    }
    for b in STR_BAD {
        v.push(format!("\"{}\"", b));
        v.push(format!("\"a{}\"", b));
    }
    v
}

/// strings are observed through the assembler: `#d <enc>("...")` emits exactly the encoded bytes
fn judge_string(src: &str, l: &mut Local) {
    let decoded = decode_string(src);
    for enc in Enc::all() {
        for wrap in ["plain", "sizeof", "concat", "rule-arg", "rule-literal"] {
            let call = format!("{}({})", enc.name(), src);
            let (prog, expect): (String, Result<String, RErr>) = match wrap {
                // a string is a value like any other: a production may consist of it, an argument may carry it
                "plain" | "rule-arg" | "rule-literal" => (
                    match wrap {
                        "plain" => format!("#d {}\n", call),
                        "rule-arg" => format!("#ruledef\n{{\n    emit {{s}} => s\n}}\nemit {}\n", call),
                        _ => format!("#ruledef\n{{\n    emit => {}\n}}\nemit\n", call),
                    },
                    match &decoded {
                        None => Err(RErr::Error("invalid escape")),
                        Some(t) => encode(t, &enc).and_then(|b| {
                            if b.is_empty() {
                                Err(RErr::Unspec("empty string data"))
                            } else {
                                Ok(b.iter().map(|x| format!("{:08b}", x)).collect::<String>())
                            }
                        }),
                    },
                ),
                "sizeof" => (
                    format!("#d8 sizeof({})\n", call),
                    match &decoded {
                        None => Err(RErr::Error("invalid escape")),
                        Some(t) => encode(t, &enc).and_then(|b| {
                            if b.is_empty() {
                                Err(RErr::Unspec("empty string"))
                            } else if b.len() * 8 > 255 {
                                Err(RErr::Error("does not fit"))
                            } else {
                                Ok(format!("{:08b}", b.len() * 8))
                            }
                        }),
                    },
                ),
                _ => (
                    format!("#d 0xab @ {} @ 0b1\n", call),
                    match &decoded {
                        None => Err(RErr::Error("invalid escape")),
                        Some(t) => encode(t, &enc).and_then(|b| {
                            if b.is_empty() {
                                Err(RErr::Unspec("empty string"))
                            } else {
                                Ok(format!("10101011{}1", b.iter().map(|x| format!("{:08b}", x)).collect::<String>()))
                            }
                        }),
                    },
                ),
            };
            l.eval();
            if let Err(RErr::Unspec(_)) = expect {
                l.unspecified += 1;
                continue;
            }
            l.nontrivial(&prog);
            l.class(if expect.is_ok() { "string-valid" } else { "string-invalid" });
            let obs = run::assemble_str(&prog, &run::Opts::default());
            let bad = if obs.panicked.is_some() {
                Some("panic")
            } else {
                match &expect {
                    Ok(bits) => {
                        if obs.success() && obs.bits == *bits {
                            None
                        } else {
                            Some("wrong string bytes")
                        }
                    }
                    Err(_) => {
                        if obs.failure() {
                            None
                        } else {
                            Some("invalid string accepted")
                        }
                    }
                }
            };
            if let Some(b) = bad {
                l.violation(Violation {
                    property: ID,
                    key: if src.contains("\\\"") { "C05:escaped-quote-in-string".to_string() } else { format!("string:{}", b) },
                    what: format!("{}: `{}` expected {:?}", b, prog.trim(), expect.as_ref().map(|b| run::bits_to_hex(b))),
                    case: json!({"family": "string", "coord": src, "program": prog, "expected": format!("{:?}", expect.map(|b| run::bits_to_hex(&b))), "observed": obs.summary()}),
                });
            }
            l.traces_validated += 1;
            l.sample(|| json!({"family": "string", "program": prog}));
        }
    }
}

// ---- whole-assembler observation of the depth<=1 family ----------------------------------------

fn judge_through_assembler(e: &E, l: &mut Local) {
    let expected = eval(e, &Env::new());
    if let Err(RErr::Unspec(_)) = expected {
        l.unspecified += 1;
        return;
    }
    let text = e.print(false);
    // (1) as data: sized integers and strings emit their bits; everything else is an error
    let prog = format!("#d {}\n", text);
    let expect_bits: Result<String, ()> = match &expected {
        Ok(RVal::Int(z, Some(s))) if *s > 0 => Ok(bits_of(z, *s)),
        Ok(RVal::Str(t, enc)) => match encode(t, enc) {
            Ok(b) if !b.is_empty() => Ok(b.iter().map(|x| format!("{:08b}", x)).collect()),
            _ => return,
        },
        Ok(RVal::Int(_, Some(_))) => return,
        _ => Err(()),
    };
    l.eval();
    let obs = run::assemble_str(&prog, &run::Opts::default());
    let bad = if obs.panicked.is_some() {
        Some("panic")
    } else {
        match &expect_bits {
            Ok(b) => (!(obs.success() && obs.bits == *b)).then_some("data directive emits wrong bits"),
            Err(()) => (!obs.failure()).then_some("unsized/ill-typed data accepted"),
        }
    };
    if let Some(b) = bad {
        l.violation(Violation {
            property: ID,
            key: format!("asm-data:{}", b),
            what: format!("{}: `{}` reference {}", b, prog.trim(), describe_ref(&expected)),
            case: json!({"family": "asm-data", "program": prog, "expected": describe_ref(&expected), "observed": obs.summary()}),
        });
    }
    // (2) as a constant: the symbols listing shows the value
    let prog2 = format!("x = {}\n", text);
    l.eval();
    let obs2 = run::assemble_str(&prog2, &run::Opts::default());
    let bad2 = if obs2.panicked.is_some() {
        Some("panic".to_string())
    } else {
        match &expected {
            Ok(RVal::Int(z, _)) => {
                let want = format!("0x{:x}", z);
                let got = obs2.symbols.iter().find(|s| s.0 == "x").map(|s| s.1.clone());
                if obs2.success() && got.as_deref() == Some(want.as_str()) {
                    None
                } else {
                    Some(format!("constant has value {:?}, expected {}", got, want))
                }
            }
            Ok(_) => (!obs2.success()).then(|| "well-defined constant rejected".to_string()),
            Err(_) => (!obs2.failure()).then(|| "ill-defined constant accepted".to_string()),
        }
    };
    if let Some(b) = bad2 {
        l.violation(Violation {
            property: ID,
            key: "asm-const".to_string(),
            what: format!("{}: `{}`", b, prog2.trim()),
            case: json!({"family": "asm-const", "program": prog2, "expected": describe_ref(&expected), "observed": obs2.summary()}),
        });
    }
    l.traces_validated += 2;
}

// ---- blocks whose expressions are separated by line breaks --------------------------------------------------

/// one line of a block: an expression over the block-local `t` (None: the line is the assignment `t = 2`)
const BLOCK_LINES: &[&str] = &["1 + 2", "-3", "4 - 1", "!0x0f", "2 * 3", "(5)", "t = 2", "t", "-t", "t + 1", "+4", "4 -1", "t = 1 > 0 ? 7 : 9", "t = 2 - 1 - 1"];
const BLOCK_SEPS: &[&str] = &["\n", ", ", ",\n", " \n "];

/// A line break ends an expression exactly like a comma does: the block's value is the value of its last line, each
/// line evaluated on its own (`1 + 2` followed by `-3` on the next line is two expressions, not `1 + 2 - 3`).
fn judge_block_lines(seq: &[usize], sep: usize, wrap: usize, l: &mut Local) {
    let mut t: Option<Z> = None;
    let mut last: Result<Option<Z>, ()> = Ok(None);
    for i in seq {
        let line = BLOCK_LINES[*i];
        if let Some(rhs) = line.strip_prefix("t = ") {
            // the assigned value is the whole expression to the right of `=` (a conditional included)
            let mut env = Env::new();
            if let Some(tv) = &t {
                env.set("t", RVal::Int(tv.clone(), None));
            }
            match crate::refparse::parse_all(rhs).ok().map(|tree| eval(&tree, &env)) {
                Some(Ok(RVal::Int(z, _))) => t = Some(z),
                _ => {
                    l.unspecified += 1;
                    return;
                }
            }
            // the value of an assignment itself is not stated: a block ending in one gets no verdict
            last = last.map(|_| None);
            continue;
        }
        let Ok(tree) = crate::refparse::parse_all(line) else {
            // `+4`: no unary plus in the language: the block is an error whatever surrounds it
            last = Err(());
            continue;
        };
        let mut env = Env::new();
        if let Some(tv) = &t {
            env.set("t", RVal::Int(tv.clone(), None));
        }
        match eval(&tree, &env) {
            Ok(RVal::Int(z, _)) => last = last.map(|_| Some(z)),
            Err(RErr::Unspec(_)) => {
                l.unspecified += 1;
                return;
            }
            _ => last = Err(()),
        }
    }
    let body = seq.iter().map(|i| BLOCK_LINES[*i]).collect::<Vec<_>>().join(BLOCK_SEPS[sep]);
    let prog = match wrap {
        0 => format!("#d8 {{\n{}\n}}\n", body),
        1 => format!("#fn f() => {{\n{}\n}}\n#d8 f()\n", body),
        _ => format!("#ruledef\n{{\n    r => {{\n{}\n}}`8\n}}\nr\n", body),
    };
    // a line beginning with `+` is not an expression; in the comma-separated renderings `4 -1` stays one expression
    let expect: Result<String, ()> = match &last {
        Ok(Some(z)) if *z >= Z::from(-128) && *z < Z::from(256) => Ok(bits_of(z, 8)),
        Ok(Some(_)) => return,
        Ok(None) => return,
        Err(()) => Err(()),
    };
    l.eval();
    l.nontrivial(&(seq.to_vec(), sep, wrap));
    l.class(if expect.is_ok() { "block-lines-value" } else { "block-lines-error" });
    let obs = run::assemble_str(&prog, &run::Opts::default());
    let bad = if obs.panicked.is_some() {
        Some("panic")
    } else {
        match &expect {
            Ok(b) => (!(obs.success() && obs.bits == *b)).then_some("block does not have the value of its last line"),
            Err(()) => (!obs.failure()).then_some("ill-formed block accepted"),
        }
    };
    if let Some(b) = bad {
        l.violation(Violation {
            property: ID,
            key: format!("block-lines:{}", b),
            what: format!("{}: {}", b, prog.replace('\n', " / ")),
            case: json!({"family": "block-lines", "program": prog, "expected": match &expect { Ok(b) => json!({"bits": b}), Err(()) => json!("error") }, "observed": obs.summary()}),
        });
    }
    l.traces_validated += 1;
}

// ---- trees over typed rule arguments (negative values with a size) ---------------------------------------

/// `t {x: s8}, {y: i8} => 0xa5 @ (<tree>)`16` called with concrete arguments: inside the production x and y
/// are *sized* integers that may be negative, a class of values no literal can produce.
fn judge_typed_tree(e: &E, vals: (i64, i64), l: &mut Local) {
    let mut env = Env::new();
    env.set("x", RVal::Int(Z::from(vals.0), Some(8)));
    env.set("y", RVal::Int(Z::from(vals.1), Some(8)));
    let expected = eval(e, &env);
    let prog = format!("#ruledef\n{{\n    t {{x: s8}}, {{y: i8}} => 0xa5 @ ({})`16\n}}\nt {}, {}\n", e.print(false), vals.0, vals.1);
    let want: Result<String, ()> = match &expected {
        Err(RErr::Unspec(_)) | Err(RErr::Constraint) => {
            l.unspecified += 1;
            return;
        }
        Ok(RVal::Int(z, _)) => Ok(format!("10100101{}", bits_of(z, 16))),
        Ok(RVal::Str(..)) => {
            l.unspecified += 1;
            return;
        }
        Ok(_) | Err(RErr::Error(_)) => Err(()),
    };
    l.eval();
    l.nontrivial(&prog);
    l.class(if want.is_ok() { "typed-arg-value" } else { "typed-arg-error" });
    let obs = run::assemble_str(&prog, &run::Opts::default());
    let bad = if obs.panicked.is_some() {
        Some("panic")
    } else {
        match &want {
            Ok(b) => (!(obs.success() && obs.bits == *b)).then_some("wrong value computed from sized (possibly negative) arguments"),
            Err(()) => (!obs.failure()).then_some("ill-typed operation on arguments yields a value"),
        }
    };
    if let Some(b) = bad {
        l.violation(Violation {
            property: ID,
            key: format!("typed-arg:{}", b),
            what: format!("{}: {} reference {}", b, prog.replace('\n', " / "), describe_ref(&expected)),
            case: json!({"family": "typed-arg", "program": prog, "expected": format!("{:?}", want.as_ref().map(|b| run::bits_to_hex(b))), "observed": obs.summary()}),
        });
    }
    l.traces_validated += 1;
}

fn chain(op: BinOp, depth: usize, left: bool, leaves: &[E], pick: u64) -> E {
    // single-operator chain of `depth` operators, left- or right-nested, leaves chosen by `pick`
    let n = leaves.len() as u64;
    let mut p = pick;
    let mut next = || {
        let e = leaves[(p % n) as usize].clone();
        p /= n;
        e
    };
    let mut e = next();
    for _ in 0..depth {
        let o = next();
        e = if left { E::bin(op, e, o) } else { E::bin(op, o, e) };
    }
    e
}

// ---- model self-check against Python integers (DESIGN §3.1) ----------------------------------------

fn e_json(e: &E) -> serde_json::Value {
    match e {
        E::Num(s) => json!(["num", s]),
        E::Bool(b) => json!(["bool", b]),
        E::Str(s) => json!(["str", s]),
        E::Var(s) => json!(["var", s]),
        E::Un(op, a) => json!(["un", if *op == UnOp::Neg { "neg" } else { "not" }, e_json(a)]),
        E::Bin(op, a, b) => json!(["bin", op.text(), e_json(a), e_json(b)]),
        E::Tern(a, b, c) => json!(["tern", e_json(a), e_json(b), e_json(c)]),
        E::Slice(a, b, c) => json!(["slice", e_json(a), e_json(b), e_json(c)]),
        E::Short(a, b) => json!(["short", e_json(a), e_json(b)]),
        E::Call(f, args) => json!(["call", f, args.iter().map(e_json).collect::<Vec<_>>()]),
        E::Block(args) => json!(["block", args.iter().map(e_json).collect::<Vec<_>>()]),
    }
}

fn r_json(r: &RRes) -> serde_json::Value {
    match r {
        Ok(RVal::Int(z, s)) => json!({"int": z.to_string(), "size": s}),
        Ok(RVal::Bool(b)) => json!({"bool": b}),
        Ok(RVal::Str(t, e)) => json!({"str": [t, e.name()]}),
        Ok(RVal::Void) => json!("void"),
        Err(RErr::Error(_)) | Err(RErr::Constraint) => json!({"error": 1}),
        Err(RErr::Unspec(_)) => json!({"unspec": 1}),
    }
}

/// dump (tree, reference result) pairs and have pyref/expr_ref.py re-derive them with Python ints
fn python_selfcheck(ctx: &Ctx, trees: &[&E]) -> Result<serde_json::Value, String> {
    use std::io::Write;
    let dir = std::env::var("VERIF_SCRATCH").unwrap_or_else(|_| format!("{}/.build/scratch", ctx.verif));
    std::fs::create_dir_all(&dir).map_err(|e| e.to_string())?;
    let path = format!("{}/c05_selfcheck_{}.jsonl", dir, std::process::id());
    {
        let mut f = std::io::BufWriter::new(std::fs::File::create(&path).map_err(|e| e.to_string())?);
        let env = Env::new();
        for e in trees {
            let line = json!({"e": e_json(e), "r": r_json(&eval(e, &env))});
            writeln!(f, "{}", line).map_err(|e| e.to_string())?;
        }
    }
    let script = format!("{}/pyref/expr_ref.py", ctx.verif);
    let out = std::process::Command::new("python3").arg(&script).arg(&path).output().map_err(|e| format!("python3: {}", e))?;
    let _ = std::fs::remove_file(&path);
    let stdout = String::from_utf8_lossy(&out.stdout).to_string();
    if !out.status.success() {
        return Err(format!("reference evaluator disagrees with the Python-integer re-derivation: {} {}", stdout.trim(), String::from_utf8_lossy(&out.stderr).chars().take(1500).collect::<String>()));
    }
    serde_json::from_str(stdout.trim()).map_err(|e| format!("bad self-check output: {} ({})", stdout, e))
}

pub fn run(ctx: &Ctx) -> Report {
    let mut rep = Report::new(
        "model_checking",
        "complete enumeration of expression trees (all operators/built-ins over fixed leaf alphabets, every tree printed with minimal and with full parenthesisation), numeric literal spellings and string literals x encodings; each compared with an independent reference evaluator. A case is non-trivial iff it has >=1 operator (or is a literal/string spelling) and the reference defines its result (value or error); distinct = distinct minimal text.",
    );
    let lf = leaves_full();
    let ls = leaves_small();
    let lt = leaves_tiny();

    // A: depth <= 1 over the full leaf alphabet, direct + through the assembler
    let d1_full = depth1(&lf);
    rep.absorb(par_cases(&lf, |e, l| judge_tree(e, "leaf", json!(e.print(false)), l)));
    rep.absorb(par_run(d1_full.len() as u64, |i, l| judge_tree(&d1_full[i as usize], "d1-full", json!(i), l)));
    rep.absorb(par_run(d1_full.len() as u64, |i, l| judge_through_assembler(&d1_full[i as usize], l)));

    // B: depth 2 = one depth-1 child (small leaves) in every position, other children leaves
    let d1_small = depth1(&ls);
    let nb = one_deep_count(d1_small.len() as u64, ls.len() as u64);
    rep.absorb(par_run(nb, |i, l| {
        let e = one_deep_child(&d1_small, &ls, i).unwrap();
        judge_tree(&e, "d2-one-deep-child", json!(i), l)
    }));

    // C: single-operator chains up to depth 6, left- and right-nested
    let chain_leaves = vec![E::int(7), E::int(-2), E::num("0b101"), E::Bool(true)];
    let maxd = 6usize;
    let mut chains = vec![];
    for op in ALL_BIN {
        for d in 3..=maxd {
            for left in [true, false] {
                let picks = (chain_leaves.len() as u64).pow(d as u32 + 1);
                // every leaf assignment for d<=4, for deeper chains the 3-leaf sub-alphabet
                let (lv, picks) = if d <= 4 { (&chain_leaves[..], picks) } else { (&chain_leaves[..2], 2u64.pow(d as u32 + 1)) };
                for p in 0..picks {
                    chains.push(chain(op, d, left, lv, p));
                }
            }
        }
    }
    rep.absorb(par_run(chains.len() as u64, |i, l| judge_tree(&chains[i as usize], "chain", json!(i), l)));

    // C2: trees over typed rule arguments: depth <= 1 over {x, y, 4, 8, -1}, and depth 2 with one depth-1 child
    let lt_args = vec![E::var("x"), E::var("y"), E::int(4), E::int(8), E::int(-1)];
    let d1_args = depth1(&lt_args);
    let outer = vec![E::var("x"), E::int(4)];
    let n_args = one_deep_count(d1_args.len() as u64, outer.len() as u64);
    let pairs: [(i64, i64); 2] = [(-2, -1), (-128, 200)];
    rep.absorb(par_run(d1_args.len() as u64 * 2, |i, l| judge_typed_tree(&d1_args[(i / 2) as usize], pairs[(i % 2) as usize], l)));
    rep.absorb(par_run(n_args * 2, |i, l| {
        let e = one_deep_child(&d1_args, &outer, i / 2).unwrap();
        judge_typed_tree(&e, pairs[(i % 2) as usize], l)
    }));

    // C2b: blocks of 1..3 lines, every separator (line break, comma, both), as data, function body and rule body
    {
        let kb = BLOCK_LINES.len() as u64;
        let per = seq_count(kb, 3);
        rep.absorb(par_run(per * BLOCK_SEPS.len() as u64 * 3, |i, l| {
            let d = decode(i, &[per, BLOCK_SEPS.len() as u64, 3]);
            let seq = seq_decode(d[0], kb, 3);
            if seq.is_empty() {
                return;
            }
            judge_block_lines(&seq, d[1] as usize, d[2] as usize, l);
        }));
    }
    // C3: long FLAT expressions: n terms joined by one left-associative operator, terms carrying unary operators.
    //     Nothing nests here, so no nesting limit applies, however many operators the expression holds.
    //     (Only the minimal text is judged: full parenthesisation would nest n deep.)
    let mut flats: Vec<E> = vec![];
    for n in [10usize, 30, 49, 50, 51, 52, 64, 100, 200] {
        for op in [BinOp::Add, BinOp::Sub, BinOp::Xor, BinOp::Or] {
            for shape in 0..4 {
                let term = |i: usize| -> E {
                    let lit = E::int((i % 7 + 1) as i64);
                    match (shape, i % 2) {
                        (0, _) => lit,
                        (1, _) | (3, 0) => E::un(UnOp::Neg, lit),
                        _ => E::un(UnOp::Not, lit),
                    }
                };
                let mut e = term(0);
                for i in 1..n {
                    e = E::bin(op, e, term(i));
                }
                flats.push(e);
            }
        }
    }
    rep.absorb(par_cases(&flats, |e, l| {
        let expected = eval(e, &Env::new());
        let min = e.print(false);
        match &expected {
            Ok(_) => {
                l.class("defined-value");
                l.nontrivial(&min);
            }
            Err(RErr::Error(_)) => {
                l.class("defined-error");
                l.nontrivial(&min);
            }
            _ => l.unspecified += 1,
        }
        judge_text(&min, &expected, "flat", json!(min.len()), l);
        l.traces_validated += 1;
    }));

    // D: literal spellings and strings
    let lits = literal_cases(ctx.thorough);
    rep.absorb(par_cases(&lits, |t, l| judge_literal(t, l)));
    let strs = string_sources(ctx.thorough);
    rep.absorb(par_cases(&strs, |s, l| judge_string(s, l)));

    let mut levels = vec![
        json!({"family": "depth<=1 over 23 leaves (direct and through #d / constant)", "trees": d1_full.len() + lf.len()}),
        json!({"family": "depth 2, one depth-1 child in every position, 7 leaves", "trees": nb}),
        json!({"family": "single-operator chains depth 3..6", "trees": chains.len()}),
        json!({"family": "flat expressions of 10..200 terms with unary operators on the terms", "trees": flats.len()}),
        json!({"family": "trees over typed (sized, possibly negative) rule arguments, depth<=2, x 2 argument pairs", "trees": d1_args.len() as u64 + n_args}),
        json!({"family": "literal spellings", "texts": lits.len()}),
        json!({"family": "string literals x 6 encodings x 3 contexts", "sources": strs.len()}),
    ];

    if ctx.thorough {
        // E: depth-2 binary trees with two non-leaf children: op(d1 over 7 leaves, d1 over 3 leaves), both orders
        let d1_t = depth1(&lt);
        let s = d1_small.len() as u64;
        let t = d1_t.len() as u64;
        let n = 19 * s * t * 2;
        rep.absorb(par_run(n, |i, l| {
            let d = decode(i, &[s, t, 2, 19]);
            let (a, b) = (d1_small[d[0] as usize].clone(), d1_t[d[1] as usize].clone());
            let e = if d[2] == 0 { E::bin(ALL_BIN[d[3] as usize], a, b) } else { E::bin(ALL_BIN[d[3] as usize], b, a) };
            judge_tree(&e, "d2-bin-two-deep-children", json!(i), l)
        }));
        levels.push(json!({"family": "depth-2 binary trees op(d1 over 7 leaves, d1 over 3 leaves), both orders", "trees": n}));
        // F: depth 3 = one depth-2 (binary of depth-1, tiny alphabet) child in every position
        let d1_tiny = depth1(&lt);
        let mut d2_tiny = vec![];
        for op in ALL_BIN {
            for a in &d1_tiny {
                for b in &lt {
                    d2_tiny.push(E::bin(op, a.clone(), b.clone()));
                    d2_tiny.push(E::bin(op, b.clone(), a.clone()));
                }
            }
        }
        let n3 = one_deep_count(d2_tiny.len() as u64, lt.len() as u64);
        rep.absorb(par_run(n3, |i, l| {
            let e = one_deep_child(&d2_tiny, &lt, i).unwrap();
            judge_tree(&e, "d3-one-deep-child", json!(i), l)
        }));
        levels.push(json!({"family": "depth 3, one depth-2 child in every position, 3 leaves", "trees": n3}));
    }
    // model self-check: complete depth<=1 family + every 23rd depth-2 tree + all chains
    {
        let mut sel: Vec<&E> = lf.iter().collect();
        sel.extend(d1_full.iter());
        let strided: Vec<E> = (0..nb).step_by(23).filter_map(|i| one_deep_child(&d1_small, &ls, i)).collect();
        sel.extend(strided.iter());
        sel.extend(chains.iter());
        match python_selfcheck(ctx, &sel) {
            Ok(v) => rep.extra("model_selfcheck_python_integers", v),
            Err(e) => rep.machinery_error = Some(e),
        }
    }
    rep.extra("levels", json!(levels));
    rep.extra("depth_completed", json!(if ctx.thorough { "all trees of depth<=1 (23 leaves); all depth-2 trees with one non-leaf child (7 leaves) and binary depth-2 trees with two non-leaf children (7 x 3 leaves); depth-3 trees with a single depth-2 spine (3 leaves); chains to depth 6. The quantifier's depth 6 over everything is not reachable." } else { "all trees of depth<=1 (23 leaves); all depth-2 trees with one non-leaf child (7 leaves), which contains every ordered operator pair; chains to depth 6" }));
    rep.assumptions = vec!["num-bigint is shared by subject and reference (bit operations and division are re-derived by hand in the reference)".into(), "no symbols are available in direct evaluation; symbol lookup belongs to C15".into()];
    rep.require_class("defined-value");
    rep.require_class("defined-error");
    rep.require_class("literal-valid");
    rep.require_class("literal-invalid");
    rep.require_class("string-valid");
    rep.require_class("string-invalid");
    rep.require_class("typed-arg-value");
    rep.require_class("typed-arg-error");
    rep
}

pub fn replay(ctx: &Ctx, case: &serde_json::Value) -> i32 {
    super::replay_with(ctx, case, |case, l| {
        let fam = case["family"].as_str().unwrap_or("");
        if let Some(p) = case["program"].as_str() {
            let obs = run::assemble_str(p, &run::Opts::default());
            println!("program:\n{}\nobserved: {}", p, obs.summary());
            println!("expected: {}", case["expected"]);
            if format!("{}", obs.summary()) == format!("{}", case["observed"]) {
                l.violation(Violation { property: ID, key: fam.to_string(), what: "same observation as recorded".into(), case: case.clone() });
            }
            return;
        }
        let text = case["text"].as_str().unwrap_or("");
        let got = describe(&subject_eval(text));
        println!("expression: {}\nobserved: {}\nexpected: {}", text, got, case["expected"]);
        if Some(got.as_str()) != case["expected"].as_str() {
            l.violation(Violation { property: ID, key: fam.to_string(), what: format!("`{}` -> {} (expected {})", text, got, case["expected"]), case: case.clone() });
        }
    })
}
