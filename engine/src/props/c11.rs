//! C11 — every output format carries exactly the assembled bits.
//!
//! Alphabet: output length L (bits) x content pattern x emission style (how the `#d` items, hence the
//! spans, are cut) for single-block outputs; for multi-block outputs block lengths x gap size x gap
//! method (`#addr` / `#res`) x decoration (labels, zero-size data, label directly followed by `#res`)
//! x start alignment; bank-defined outputs (2-3 banks, any data order, with and without fill).
//! Bound: L <= 4096 bits. Subject: really assemble, then `driver::format_output` on the raw result.
//! Oracle: one independent decoder per format (`c11_decoders`), decoded data == assembled bits
//! zero-padded to the format's granule; addresses / counts / checksums / EOF checked by the decoder.
use super::c11_decoders as dec;
use crate::driver;
use crate::run;
use crate::stats::*;
use serde_json::{json, Value};
use std::panic::{catch_unwind, AssertUnwindSafe};
use std::sync::atomic::{AtomicUsize, Ordering};

pub const ID: &str = "C11";
const KNOWN_EMPTY_KEY: &str = "C11:empty-output-mif-decc";
const KNOWN_DUMP_TAIL: &str = "C11:dump-drops-final-partial-byte-on-line-boundary";

#[derive(Clone, Copy, Debug, PartialEq)]
enum Kind {
    Binary,
    BinStr,
    HexStr,
    BinDump,
    HexDump,
    Mif,
    IntelHex(usize),
    Sep { radix: u32, comma: bool },
    CArr,
    Logisim(usize),
}

struct Fmt {
    spec: &'static str,
    name: &'static str,
    kind: Kind,
}

const FORMATS: [Fmt; 18] = [
    Fmt { spec: "binary", name: "binary", kind: Kind::Binary },
    Fmt { spec: "binstr", name: "binstr", kind: Kind::BinStr },
    Fmt { spec: "hexstr", name: "hexstr", kind: Kind::HexStr },
    Fmt { spec: "bindump", name: "bindump", kind: Kind::BinDump },
    Fmt { spec: "hexdump", name: "hexdump", kind: Kind::HexDump },
    Fmt { spec: "mif", name: "mif", kind: Kind::Mif },
    Fmt { spec: "intelhex", name: "intelhex-default", kind: Kind::IntelHex(8) },
    Fmt { spec: "intelhex,addr_unit:8", name: "intelhex8", kind: Kind::IntelHex(8) },
    Fmt { spec: "intelhex,addr_unit:16", name: "intelhex16", kind: Kind::IntelHex(16) },
    Fmt { spec: "intelhex,addr_unit:32", name: "intelhex32", kind: Kind::IntelHex(32) },
    Fmt { spec: "deccomma", name: "deccomma", kind: Kind::Sep { radix: 10, comma: true } },
    Fmt { spec: "hexcomma", name: "hexcomma", kind: Kind::Sep { radix: 16, comma: true } },
    Fmt { spec: "decspace", name: "decspace", kind: Kind::Sep { radix: 10, comma: false } },
    Fmt { spec: "hexspace", name: "hexspace", kind: Kind::Sep { radix: 16, comma: false } },
    Fmt { spec: "decc", name: "decc", kind: Kind::CArr },
    Fmt { spec: "hexc", name: "hexc", kind: Kind::CArr },
    Fmt { spec: "logisim8", name: "logisim8", kind: Kind::Logisim(8) },
    Fmt { spec: "logisim16", name: "logisim16", kind: Kind::Logisim(16) },
];

// ------------------------------------------------------------------------------------------------
// contents

fn pattern_bit(p: usize, i: usize) -> bool {
    match p {
        0 => true,
        1 => {
            let b = ((i / 8) % 251) as u8;
            (b >> (7 - i % 8)) & 1 == 1
        }
        3 => {
            // bytes 0x70, 0x71, ...: reaches the characters that are special to the textual formats (`|`, `}`, `~`,
            // DEL, then the high half) within the first few bytes
            let b = (0x70 + (i / 8)) as u8;
            (b >> (7 - i % 8)) & 1 == 1
        }
        4 => {
            // bytes 0x9e, 0x9f, 0xa0, 0xa1, ...: the end of the C1 controls and the start of the Latin-1 letters, which
            // a text column must not show as characters of their own
            let b = (0x9e + (i / 8)) as u8;
            (b >> (7 - i % 8)) & 1 == 1
        }
        _ => {
            let x = (i as u32 + 1).wrapping_mul(2654435761);
            ((x >> 13) ^ (x >> 21) ^ (x >> 29)) & 1 == 1
        }
    }
}

fn block_bits(p: usize, n: usize) -> Vec<bool> {
    (0..n).map(|i| pattern_bit(p, i)).collect()
}

fn bitstr(bits: &[bool]) -> String {
    bits.iter().map(|b| if *b { '1' } else { '0' }).collect()
}

fn byte_at(bits: &[bool], pos: usize) -> u8 {
    let mut b = 0u8;
    for k in 0..8 {
        b <<= 1;
        if let Some(true) = bits.get(pos * 8 + k) {
            b |= 1;
        }
    }
    b
}

fn padded(bits: &[bool], granule: usize) -> Vec<bool> {
    let mut v = bits.to_vec();
    while v.len() % granule != 0 {
        v.push(false);
    }
    v
}

// ------------------------------------------------------------------------------------------------
// programs

#[derive(Clone)]
struct Prog {
    text: String,
    shape: &'static str,
    pattern: usize,
    /// written data in output order: (first bit, number of bits); each block's content is pattern(p) restarted
    blocks: Vec<(usize, usize)>,
    /// output length is exactly the end of the last block (false for bank programs with fill / `#res`-only programs)
    exact_len: bool,
    coords: Value,
}

/// `#d` items for `bits` in a byte-addressed bank. style 0: one `#d8` per byte, tail `#dR 0b..`;
/// 1: sixteen values per `#d8`, tail as single `#d1` bits; 2: one `#d 0b...` literal (one span).
fn emit_data(bits: &[bool], style: usize) -> String {
    let mut s = String::new();
    if bits.is_empty() {
        return s;
    }
    let nbytes = bits.len() / 8;
    let tail = &bits[nbytes * 8..];
    match style {
        0 => {
            for k in 0..nbytes {
                s += &format!("#d8 0x{:02x}\n", byte_at(bits, k));
            }
            if !tail.is_empty() {
                s += &format!("#d{} 0b{}\n", tail.len(), bitstr(tail));
            }
        }
        1 => {
            let mut k = 0;
            while k < nbytes {
                let hi = std::cmp::min(nbytes, k + 16);
                let vals: Vec<String> = (k..hi).map(|j| format!("{}", byte_at(bits, j))).collect();
                s += &format!("#d8 {}\n", vals.join(", "));
                k = hi;
            }
            for b in tail {
                s += &format!("#d1 {}\n", *b as u8);
            }
        }
        _ => {
            s += &format!("#d 0b{}\n", bitstr(bits));
        }
    }
    s
}

fn single_block(len: usize, pattern: usize, style: usize) -> Prog {
    let bits = block_bits(pattern, len);
    let text = match style {
        0 | 1 | 2 => {
            if len == 0 {
                match style {
                    0 => String::new(),
                    1 => "only:\n".to_string(),
                    _ => "#d \"\"\n".to_string(),
                }
            } else {
                emit_data(&bits, style)
            }
        }
        _ => {
            // a bank addressed in single bits: 5-bit items, a label in front of every 7th item
            let mut s = String::from("#bankdef bitwise\n{\n    #bits 1\n    #outp 0\n}\n");
            let mut k = 0;
            let mut item = 0;
            if len == 0 {
                s += "l0:\n";
            }
            while k < len {
                if item % 7 == 0 {
                    s += &format!("l{}:\n", item);
                }
                let hi = std::cmp::min(len, k + 5);
                s += &format!("#d 0b{}\n", bitstr(&bits[k..hi]));
                k = hi;
                item += 1;
            }
            s
        }
    };
    Prog {
        text,
        shape: "single",
        pattern,
        blocks: if len > 0 { vec![(0, len)] } else { vec![] },
        exact_len: true,
        coords: json!({"len_bits": len, "pattern": pattern, "style": style}),
    }
}

#[derive(Clone, Copy, Debug)]
struct Gap {
    gap: usize,
    align: usize,
    /// 0 = `#addr`, 1 = `#res`
    method: usize,
    /// 0 none; 1 label before the gap; 2 label after; 3 both; 4 zero-size `#d ""` before + label after;
    /// 5 label after, `#res 0`, second label
    deco: usize,
}

/// lead: 0 = start at 0; 1 = label, start at 0; 2 = `#addr 8`, label
fn multi_block(lead: usize, lens: &[(usize, usize)], gaps: &[Gap], pattern: usize, style0: usize) -> Prog {
    let mut s = String::new();
    let mut cur: usize = 0; // bits
    match lead {
        0 => {}
        1 => s += "first:\n",
        _ => {
            s += "#addr 8\nfirst:\n";
            cur = 64;
        }
    }
    let mut blocks = vec![];
    for (i, (nbytes, tail)) in lens.iter().enumerate() {
        if i > 0 {
            let g = gaps[i - 1];
            let aligned_end = cur % 8 == 0;
            let cur_byte = (cur + 7) / 8;
            let target = (cur_byte + g.gap + g.align - 1) / g.align * g.align;
            let (before, after): (&str, String) = match g.deco {
                0 => ("", String::new()),
                1 => ("L", String::new()),
                2 => ("", format!("g{}b:\n", i)),
                3 => ("L", format!("g{}b:\n", i)),
                4 => ("Z", format!("g{}b:\n", i)),
                _ => ("", format!("g{}b:\n#res 0\ng{}c:\n", i, i)),
            };
            if aligned_end && before == "L" {
                s += &format!("g{}a:\n", i);
            }
            if before == "Z" {
                s += "#d \"\"\n";
            }
            if g.method == 1 && aligned_end {
                s += &format!("#res {}\n", target - cur_byte);
            } else {
                s += &format!("#addr 0x{:x}\n", target);
            }
            s += &after;
            cur = target * 8;
        }
        let n = nbytes * 8 + tail;
        let bits = block_bits(pattern, n);
        s += &emit_data(&bits, (style0 + i) % 3);
        blocks.push((cur, n));
        cur += n;
    }
    Prog {
        text: s,
        shape: "multi",
        pattern,
        blocks,
        exact_len: true,
        coords: json!({"lead": lead, "blocks_bytes_tailbits": lens, "pattern": pattern,
            "gaps": gaps.iter().map(|g| json!({"gap": g.gap, "align": g.align, "method": if g.method == 0 { "addr" } else { "res" }, "deco": g.deco})).collect::<Vec<_>>()}),
    }
}

/// 2-3 banks at output byte positions 0x00, 0x40, 0x80 (size 0x30 each, logical addresses elsewhere).
/// order 0: bank by bank; 1: reverse; 2: first halves in order, second halves in reverse order.
/// `addr_desc`: the logical addresses descend while the output positions ascend (address order != output order).
fn bank_prog(lens: &[usize], fill: bool, order: usize, labels: bool, ram: bool, addr_desc: bool, pattern: usize) -> Prog {
    let mut s = String::new();
    if ram {
        // a bank without an output window: its labels and reservations occupy no output position at all
        s += "#bankdef ram\n{\n    #bits 8\n    #addr 0x8000\n    #size 0x10\n}\nr0:\n#res 2\nr1:\n";
    }
    for (i, _) in lens.iter().enumerate() {
        s += &format!("#bankdef b{}\n{{\n    #bits 8\n    #addr 0x{:x}\n    #size 0x30\n    #outp 8 * 0x{:x}\n{}}}\n", i, if addr_desc { 0x1000 * (lens.len() - i) } else { 0x1000 * (i + 1) }, 0x40 * i, if fill { "    #fill\n" } else { "" });
    }
    let datas: Vec<Vec<bool>> = lens.iter().map(|n| block_bits(pattern, n * 8)).collect();
    let mut blocks = vec![];
    for (i, n) in lens.iter().enumerate() {
        if *n > 0 {
            blocks.push((0x40 * i * 8, n * 8));
        }
    }
    let piece = |s: &mut String, i: usize, from: usize, to: usize, tag: &str| {
        *s += &format!("#bank b{}\n", i);
        if labels {
            *s += &format!("lab{}{}:\n", i, tag);
        }
        *s += &emit_data(&datas[i][from * 8..to * 8], i % 2);
    };
    let n = lens.len();
    match order {
        0 => {
            for i in 0..n {
                piece(&mut s, i, 0, lens[i], "a");
            }
        }
        1 => {
            for i in (0..n).rev() {
                piece(&mut s, i, 0, lens[i], "a");
            }
        }
        _ => {
            for i in 0..n {
                piece(&mut s, i, 0, lens[i] / 2, "a");
            }
            for i in (0..n).rev() {
                piece(&mut s, i, lens[i] / 2, lens[i], "b");
            }
        }
    }
    if ram {
        s += "#bank ram\nr2:\n#res 1\n";
    }
    Prog { text: s, shape: "banks", pattern, blocks, exact_len: false, coords: json!({"bank_bytes": lens, "fill": fill, "order": order, "labels": labels, "bank_without_output": ram, "addresses_descending": addr_desc, "pattern": pattern}) }
}

fn empty_progs() -> Vec<Prog> {
    let texts = ["", "x:\n", "#res 4\n", "#addr 0x10\nx:\n", "#d \"\"\n", "x:\n#res 2\ny:\n", "; nothing\n\n", "#bankdef a\n{\n    #bits 8\n    #addr 0x100\n    #size 0x10\n    #outp 0\n}\n"];
    texts
        .iter()
        .enumerate()
        .map(|(i, t)| Prog { text: t.to_string(), shape: "no-data", pattern: 0, blocks: vec![], exact_len: false, coords: json!({"no_data_program": i}) })
        .collect()
}

// ------------------------------------------------------------------------------------------------
// judging

struct Fail {
    kind: String,
    detail: String,
}

fn fail(kind: &str, detail: impl Into<String>) -> Option<Fail> {
    Some(Fail { kind: kind.to_string(), detail: detail.into() })
}

fn from_problem(p: dec::Problem) -> Option<Fail> {
    Some(Fail { kind: p.kind.to_string(), detail: p.detail })
}

fn compare_bits(decoded: &[bool], expected: &[bool], unit: usize, what: &str) -> Option<Fail> {
    if decoded.len() != expected.len() {
        let kind = if decoded.len() < expected.len() { "data-dropped" } else { "data-invented" };
        return fail(kind, format!("decoded {} {} ({} bits), the assembled output padded to the format's granule has {} bits", decoded.len() / unit, what, decoded.len(), expected.len()));
    }
    for i in 0..expected.len() {
        if decoded[i] != expected[i] {
            return fail("data-wrong", format!("bit {} ({} {}) decodes as {}, assembled {}", i, what, i / unit, decoded[i] as u8, expected[i] as u8));
        }
    }
    None
}

fn values_to_bits(vals: &[u128], width: usize) -> Result<Vec<bool>, Fail> {
    let mut bits = vec![];
    for (i, v) in vals.iter().enumerate() {
        if width < 128 && *v >> width != 0 {
            return Err(Fail { kind: "data-wrong".into(), detail: format!("element {} has value {} which does not fit {} bits", i, v, width) });
        }
        dec::push_bits(&mut bits, *v, width);
    }
    Ok(bits)
}

/// merge blocks that touch
fn merged(blocks: &[(usize, usize)]) -> Vec<(usize, usize)> {
    let mut b: Vec<(usize, usize)> = blocks.to_vec();
    b.sort();
    let mut out: Vec<(usize, usize)> = vec![];
    for (s, n) in b {
        if let Some(last) = out.last_mut() {
            if last.0 + last.1 == s {
                last.1 += n;
                continue;
            }
        }
        out.push((s, n));
    }
    out
}

enum Verdict {
    Ok,
    Unspecified(&'static str),
    Fail(Fail),
}

/// `truth` = the assembled output bits; `blocks` = where data items were written.
fn judge_output(kind: Kind, out: &[u8], truth: &[bool], blocks: &[(usize, usize)], l: &mut Local) -> Verdict {
    let r = match kind {
        Kind::Binary => match dec::dec_binary(out) {
            Ok(b) => compare_bits(&b, &padded(truth, 8), 8, "bytes"),
            Err(p) => from_problem(p),
        },
        Kind::BinStr => match dec::dec_digit_string(out, 1) {
            Ok(b) => compare_bits(&b, truth, 1, "digits"),
            Err(p) => from_problem(p),
        },
        Kind::HexStr => match dec::dec_digit_string(out, 4) {
            Ok(b) => compare_bits(&b, &padded(truth, 4), 4, "digits"),
            Err(p) => from_problem(p),
        },
        Kind::BinDump | Kind::HexDump => {
            let g = if kind == Kind::BinDump { 1 } else { 4 };
            match dec::dec_dump(out, g) {
                Ok(d) => {
                    if d.lines > 1 {
                        l.class("dump:several-lines");
                    }
                    let whole = truth.len() / 8 * 8;
                    if truth.len() % 8 != 0 && truth.len() > 8 && d.cells * 8 == whole && d.bits[..] == truth[..whole] {
                        // the dump stops after the last whole byte, which happens to fill its line: the 1..7 final bits are shown nowhere
                        Some(Fail { kind: KNOWN_DUMP_TAIL.to_string(), detail: format!("all {} whole bytes are shown and fill the last line; the final {} bits appear nowhere", whole / 8, truth.len() - whole) })
                    } else {
                        compare_bits(&d.bits, &padded(truth, g), g, "digits")
                    }
                }
                Err(p) => from_problem(p),
            }
        }
        Kind::Mif => match dec::dec_mif(out) {
            Ok(m) => {
                let exp = padded(truth, m.width);
                if m.depth * m.width != exp.len() {
                    fail("count", format!("DEPTH = {} x WIDTH = {} is {} bits, the padded output has {}", m.depth, m.width, m.depth * m.width, exp.len()))
                } else {
                    if m.words.iter().any(|w| w.is_none()) {
                        l.class("mif:address-not-listed-reads-zero");
                    }
                    let vals: Vec<u128> = m.words.iter().map(|w| w.unwrap_or(0)).collect();
                    match values_to_bits(&vals, m.width) {
                        Ok(b) => compare_bits(&b, &exp, m.width, "words"),
                        Err(f) => Some(f),
                    }
                }
            }
            Err(p) => from_problem(p),
        },
        Kind::Sep { radix, comma } => match dec::dec_separated(out, radix, comma) {
            Ok(v) => match values_to_bits(&v, 8) {
                Ok(b) => compare_bits(&b, &padded(truth, 8), 8, "values"),
                Err(f) => Some(f),
            },
            Err(p) => from_problem(p),
        },
        Kind::CArr => match dec::dec_c_array(out) {
            Ok(a) => match values_to_bits(&a.values, 8) {
                Ok(b) => compare_bits(&b, &padded(truth, 8), 8, "initialisers"),
                Err(f) => Some(f),
            },
            Err(p) => from_problem(p),
        },
        Kind::Logisim(w) => match dec::dec_logisim(out, w) {
            Ok(v) => match values_to_bits(&v, w) {
                Ok(b) => compare_bits(&b, &padded(truth, w), w, "words"),
                Err(f) => Some(f),
            },
            Err(p) => from_problem(p),
        },
        Kind::IntelHex(unit) => {
            let blocks = merged(blocks);
            if blocks.iter().any(|(s, _)| s % unit != 0) {
                return Verdict::Unspecified("intelhex:block-start-not-on-address-unit");
            }
            let total_bytes = (truth.len() + 7) / 8;
            if total_bytes > 0x10000 * (unit / 8) {
                return Verdict::Unspecified("intelhex:beyond-16-bit-addresses");
            }
            match dec::dec_intelhex(out, unit) {
                Ok(img) => {
                    let mut f = None;
                    let mut required = std::collections::BTreeSet::new();
                    'outer: for (s, n) in &blocks {
                        for pos in (s / 8)..((s + n + 7) / 8) {
                            required.insert(pos as u64);
                            match img.bytes.get(&(pos as u64)) {
                                None => {
                                    f = fail("data-dropped", format!("written byte at output offset {:#x} (address {:#x} in {}-bit units) is in no data record", pos, pos * 8 / unit, unit));
                                    break 'outer;
                                }
                                Some(v) if *v != byte_at(truth, pos) => {
                                    f = fail("data-wrong", format!("byte at output offset {:#x} (address {:#x} in {}-bit units) decodes as {:#04x}, assembled {:#04x}", pos, pos * 8 / unit, unit, v, byte_at(truth, pos)));
                                    break 'outer;
                                }
                                _ => {}
                            }
                        }
                    }
                    if f.is_none() {
                        for (pos, v) in &img.bytes {
                            if *pos >= total_bytes as u64 {
                                f = fail("data-invented", format!("data record places a byte at output offset {:#x}, the output ends at byte {:#x}", pos, total_bytes));
                                break;
                            }
                            if *v != byte_at(truth, *pos as usize) {
                                f = fail("data-invented", format!("unwritten byte at output offset {:#x} decodes as {:#04x}, the assembled output has {:#04x} there", pos, v, byte_at(truth, *pos as usize)));
                                break;
                            }
                        }
                    }
                    if f.is_none() {
                        let gap_total = total_bytes - required.len();
                        let gap_present = img.bytes.keys().filter(|p| !required.contains(p)).count();
                        if gap_total > 0 {
                            l.class(if gap_present == 0 { "intelhex:gaps-absent" } else { "intelhex:gap-bytes-present" });
                        }
                        if img.data_records.len() > blocks.len() {
                            l.class("intelhex:block-split-over-several-records");
                        }
                        if img.data_records.iter().any(|r| r.address > 0 && r.len > 0) {
                            l.class("intelhex:record-at-nonzero-address");
                        }
                    }
                    f
                }
                Err(p) => from_problem(p),
            }
        }
    };
    match r {
        None => Verdict::Ok,
        Some(f) => Verdict::Fail(f),
    }
}

static CONFIRMATIONS: AtomicUsize = AtomicUsize::new(0);

/// Re-run a crashing (program, format) on the real binary. Some(true) = crashes there too,
/// Some(false) = the binary behaves (harness artefact), None = not checked (binary not built, or the
/// program is neither short nor empty-output: the rule depends on the case only, so runs are repeatable).
fn confirm_crash_on_real_binary(prog: &str, spec: &str, out_len: usize) -> Option<bool> {
    if prog.len() > 64 && out_len > 0 {
        return None;
    }
    let bin = std::env::var("VERIF_REAL_BIN").ok()?;
    if !std::path::Path::new(&bin).exists() {
        return None;
    }
    let n = CONFIRMATIONS.fetch_add(1, Ordering::SeqCst);
    let scratch = std::env::var("VERIF_SCRATCH").ok()?;
    let dir = format!("{}/c11-{}-{}", scratch, std::process::id(), n);
    std::fs::create_dir_all(&dir).ok()?;
    let file = format!("{}/main.asm", dir);
    std::fs::write(&file, prog).ok()?;
    let st = std::process::Command::new(&bin)
        .args([file.as_str(), "-q", "-p", "-f", spec])
        .env("RUST_BACKTRACE", "0")
        .stdout(std::process::Stdio::null())
        .stderr(std::process::Stdio::null())
        .status();
    let _ = std::fs::remove_dir_all(&dir);
    match st {
        Ok(s) => Some(match s.code() {
            Some(0) | Some(1) => false,
            _ => true, // 101 = panic, None = killed by a signal
        }),
        Err(_) => None,
    }
}

fn show_output(out: &[u8]) -> String {
    let s = String::from_utf8_lossy(out);
    if s.chars().count() > 1500 {
        let head: String = s.chars().take(1500).collect();
        format!("{}... [{} bytes]", head, out.len())
    } else {
        s.to_string()
    }
}

fn case_json(p: &Prog, f: &Fmt, expected: Value, observed: Value) -> Value {
    json!({"program": p.text, "format": f.spec, "format_name": f.name, "shape": p.shape, "pattern": p.pattern,
        "blocks": p.blocks, "exact_len": p.exact_len, "coords": p.coords, "expected": expected, "observed": observed})
}

/// Assemble one program and judge every format on it. `only` restricts to one format (replay).
fn judge_prog(p: &Prog, fmts: &[driver::OutputFormat], only: Option<&str>, l: &mut Local) {
    let files = vec![("main.asm".to_string(), p.text.as_bytes().to_vec())];
    let raw = run::assemble_raw(&files, &["main.asm"], &run::Opts::default());
    let res = match (&raw.panicked, &raw.result) {
        (None, Some(res)) if !raw.report.has_errors() => res,
        _ => {
            l.count("machinery:program-did-not-assemble", 1);
            l.sample(|| json!({"did_not_assemble": p.text, "observed": run::observe(&raw).summary()}));
            return;
        }
    };
    let (Some(output), Some(decls), Some(defs)) = (&res.output, &res.decls, &res.defs) else {
        l.count("machinery:program-did-not-assemble", 1);
        return;
    };
    let truth: Vec<bool> = (0..output.len()).map(|i| output.read_bit(i)).collect();

    // the generator's own idea of the output must agree with the assembler (otherwise C11 cannot judge)
    let end = p.blocks.iter().map(|(s, n)| s + n).max().unwrap_or(0);
    let intended_ok = if truth.len() < end || (p.exact_len && truth.len() != end) {
        false
    } else {
        let mut want = vec![false; truth.len()];
        for (s, n) in &p.blocks {
            for j in 0..*n {
                want[s + j] = pattern_bit(p.pattern, j);
            }
        }
        want == truth
    };
    if !intended_ok {
        l.count("machinery:assembled-bits-differ-from-generator", 1);
        l.sample(|| json!({"generator_disagrees": p.text, "assembled_len": truth.len(), "assembled_hex": run::bits_to_hex(&bitstr(&truth))}));
        return;
    }

    let len = truth.len();
    l.class(match p.shape {
        "single" => "shape:single-block",
        "multi" => "shape:several-blocks",
        "banks" => "shape:banks",
        _ => "shape:no-data-items",
    });
    if len == 0 {
        l.class("length:empty");
    } else if len % 8 != 0 {
        l.class("length:partial-last-byte");
    } else {
        l.class("length:whole-bytes");
    }

    for (fi, f) in FORMATS.iter().enumerate() {
        if let Some(o) = only {
            if o != f.spec {
                continue;
            }
        }
        l.eval();
        if len > 0 {
            l.nontrivial(&(p.text.as_str(), f.name));
        }
        let fmt = fmts[fi];
        let r = catch_unwind(AssertUnwindSafe(|| driver::format_output(&raw.fs, decls, defs, output, fmt)));
        let truth_hex = || run::bits_to_hex(&bitstr(&truth));
        match r {
            Err(e) => {
                let msg = run::panic_text(e);
                let confirmed = confirm_crash_on_real_binary(&p.text, f.spec, len);
                if confirmed == Some(false) {
                    l.count("artefacts_discarded", 1);
                    l.class("panic-not-reproduced-on-real-binary");
                    continue;
                }
                let known = len == 0 && matches!(f.kind, Kind::Mif | Kind::CArr);
                let key = if known { KNOWN_EMPTY_KEY.to_string() } else { format!("{}:{}:panic", f.name, p.shape) };
                l.class("formatter-panicked");
                l.violation(Violation {
                    property: ID,
                    key,
                    what: format!("`-f {}` crashes on a {}-bit output ({})", f.spec, len, p.shape),
                    case: case_json(p, f, json!({"decodes_to_bits": len, "no_crash": true}),
                        json!({"panic": msg, "real_binary_crashes_too": confirmed, "assembled_len": len, "assembled_hex": truth_hex()})),
                });
            }
            Ok(out) => match judge_output(f.kind, &out, &truth, &p.blocks, l) {
                Verdict::Ok => {
                    l.class(&format!("ok:{}", f.name));
                    if p.shape == "multi" || len % 8 != 0 {
                        l.sample(|| json!({"program": p.text, "format": f.spec, "output": show_output(&out), "verdict": "decodes to the assembled bits"}));
                    }
                }
                Verdict::Unspecified(why) => {
                    l.unspecified += 1;
                    l.class(&format!("unspecified:{}", why));
                }
                Verdict::Fail(fl) => {
                    l.class("decoded-differs");
                    l.violation(Violation {
                        property: ID,
                        key: if fl.kind == KNOWN_DUMP_TAIL { fl.kind.clone() } else { format!("{}:{}:{}", f.name, p.shape, fl.kind) },
                        what: format!("`-f {}` on a {}-bit output ({}): {}", f.spec, len, p.shape, fl.detail),
                        case: case_json(p, f, json!({"assembled_len": len, "assembled_hex": truth_hex(), "rule": "decoded == assembled bits zero-padded to the granule"}),
                            json!({"output": show_output(&out), "problem": fl.detail})),
                    });
                }
            },
        }
    }
}

fn parse_formats() -> Result<Vec<driver::OutputFormat>, String> {
    let mut v = vec![];
    for f in FORMATS.iter() {
        let mut rep = customasm::diagn::Report::new();
        match driver::parse_output_format(&mut rep, f.spec) {
            Ok(o) => v.push(o),
            Err(()) => return Err(format!("driver::parse_output_format rejects `{}`", f.spec)),
        }
    }
    Ok(v)
}

// ------------------------------------------------------------------------------------------------
// enumeration

fn lengths(thorough: bool) -> Vec<usize> {
    if thorough {
        return (0..=4096).collect();
    }
    let mut set = std::collections::BTreeSet::new();
    for l in 0..=600usize {
        set.insert(l);
    }
    let mut m = 128usize;
    while m <= 4096 {
        for d in 0..=18usize {
            let l = m + d;
            if l >= 9 && l - 9 <= 4096 {
                set.insert(l - 9);
            }
        }
        m += 128;
    }
    set.into_iter().collect()
}

fn multi_progs(thorough: bool) -> Vec<Prog> {
    let mut v = vec![];
    let mut idx = 0usize;
    let mut push = |v: &mut Vec<Prog>, lead: usize, lens: &[(usize, usize)], gaps: &[Gap]| {
        v.push(multi_block(lead, lens, gaps, idx % 3, (idx / 3) % 3));
        idx += 1;
    };
    // two blocks
    let lens2: &[usize] = if thorough { &[1, 2, 3, 4, 5, 31, 32, 33, 63, 64, 65, 68, 100] } else { &[1, 4, 32, 33, 68] };
    let leads: &[usize] = if thorough { &[0, 1, 2] } else { &[0, 2] };
    let tails: &[usize] = if thorough { &[0, 1, 3, 7] } else { &[0, 3] };
    for lead in leads.iter().copied() {
        for a in lens2 {
            for b in lens2 {
                for gap in [0usize, 1, 4, 36] {
                    for align in [1usize, 4] {
                        for method in 0..2 {
                            for deco in 0..6 {
                                for t in tails {
                                    push(&mut v, lead, &[(*a, 0), (*b, *t)], &[Gap { gap, align, method, deco }]);
                                }
                            }
                        }
                        // first block ends inside a byte: only `#addr` can follow, labels only after the gap
                        for deco in [0usize, 2] {
                            for t in tails {
                                push(&mut v, lead, &[(*a, 5), (*b, *t)], &[Gap { gap, align, method: 0, deco }]);
                            }
                        }
                    }
                }
            }
        }
    }
    // three blocks
    let lens3: &[usize] = if thorough { &[1, 5, 33, 68] } else { &[1, 33, 68] };
    let aligns3: &[usize] = if thorough { &[1, 4] } else { &[4] };
    let mut g3 = vec![];
    for gap in [1usize, 36] {
        for align in aligns3 {
            for method in 0..2 {
                for deco in [0usize, 1, 2] {
                    g3.push(Gap { gap, align: *align, method, deco });
                }
            }
        }
    }
    for lead in leads.iter().copied() {
        for a in lens3 {
            for b in lens3 {
                for c in lens3 {
                    for g1 in &g3 {
                        for g2 in &g3 {
                            for t in [0usize, 3] {
                                push(&mut v, lead, &[(*a, 0), (*b, 0), (*c, t)], &[*g1, *g2]);
                            }
                        }
                    }
                }
            }
        }
    }
    v
}

fn bank_progs() -> Vec<Prog> {
    let mut v = vec![];
    let mut idx = 0;
    for nb in 2..=3usize {
        let combos = 3usize.pow(nb as u32);
        for c in 0..combos {
            let mut lens = vec![];
            let mut x = c;
            for _ in 0..nb {
                lens.push([0usize, 1, 33][x % 3]);
                x /= 3;
            }
            for fill in [false, true] {
                for order in 0..3 {
                    for labels in [false, true] {
                        for ram in [false, true] {
                            for addr_desc in [false, true] {
                                v.push(bank_prog(&lens, fill, order, labels, ram, addr_desc, idx % 3));
                                idx += 1;
                            }
                        }
                    }
                }
            }
        }
    }
    v
}

pub fn run(ctx: &Ctx) -> Report {
    let mut rep = Report::new(
        "exploration",
        "every (assembled program, output format) pair is decoded by an independent reader of that format and compared with AssemblyResult.output; non-trivial = the output holds at least one bit; distinct by (program text, format)",
    );
    let fmts = match parse_formats() {
        Ok(f) => f,
        Err(e) => {
            rep.machinery_error = Some(e);
            return rep;
        }
    };

    // 1. single block: every length x 4 contents x 4 emission styles
    let lens = lengths(ctx.thorough);
    let mut singles = vec![];
    for l in &lens {
        for p in 0..5 {
            for style in 0..4 {
                singles.push((*l, p, style));
            }
        }
    }
    rep.absorb(par_cases(&singles, |c, l| judge_prog(&single_block(c.0, c.1, c.2), &fmts, None, l)));

    // 2. several blocks separated by gaps
    let multis = multi_progs(ctx.thorough);
    rep.absorb(par_cases(&multis, |p, l| judge_prog(p, &fmts, None, l)));

    // 3. banks
    let banks = bank_progs();
    rep.absorb(par_cases(&banks, |p, l| judge_prog(p, &fmts, None, l)));

    // 4. programs without any data item
    let empties = empty_progs();
    rep.absorb(par_cases(&empties, |p, l| judge_prog(p, &fmts, None, l)));

    rep.extra("lengths_enumerated", json!(if ctx.thorough { "every L in 0..=4096".to_string() } else { format!("{} lengths: 0..=600 and every L within +-9 of a multiple of 128 up to 4096", lens.len()) }));
    rep.extra("single_block_programs", json!(singles.len()));
    rep.extra("multi_block_programs", json!(multis.len()));
    rep.extra("bank_programs", json!(banks.len()));
    rep.extra("no_data_programs", json!(empties.len()));
    rep.extra("formats", json!(FORMATS.iter().map(|f| f.spec).collect::<Vec<_>>()));
    rep.extra("line_breaks", json!("unconstrained: no golden file under tests/driver fixes the values per line of the separator/C/Logisim/dump formats; decoders only need every value in order"));
    rep.assumptions = vec![
        "ground truth is AssemblyResult.output read bit by bit; the generator's own layout must agree with it, else the run is a machinery failure".into(),
        "Intel HEX: the address field counts addr_unit-bit units of the output offset; blocks not starting on a unit and outputs beyond 16-bit addresses are Unspecified".into(),
        "MIF addresses that are not listed read as 0 (Quartus rule)".into(),
        "dump text column: only graphic characters other than `.` are taken as a claim about the byte".into(),
    ];
    let bad: u64 = rep.local.counters.iter().filter(|(k, _)| k.starts_with("machinery:")).map(|(_, v)| *v).sum();
    if bad > 0 {
        rep.machinery_error = Some(format!("{} generated programs did not assemble to the generator's layout (see counters/samples)", bad));
    }
    for c in [
        "shape:single-block",
        "shape:several-blocks",
        "shape:banks",
        "shape:no-data-items",
        "length:empty",
        "length:partial-last-byte",
        "length:whole-bytes",
        "dump:several-lines",
        "intelhex:block-split-over-several-records",
        "intelhex:record-at-nonzero-address",
        "unspecified:intelhex:block-start-not-on-address-unit",
    ] {
        rep.require_class(c);
    }
    for f in FORMATS.iter() {
        rep.require_class(&format!("ok:{}", f.name));
    }
    rep
}

pub fn replay(ctx: &Ctx, case: &Value) -> i32 {
    let fmts = match parse_formats() {
        Ok(f) => f,
        Err(e) => {
            eprintln!("{}", e);
            return 2;
        }
    };
    super::replay_with(ctx, case, |case, l| {
        let blocks: Vec<(usize, usize)> = case["blocks"]
            .as_array()
            .map(|a| a.iter().map(|b| (b[0].as_u64().unwrap_or(0) as usize, b[1].as_u64().unwrap_or(0) as usize)).collect())
            .unwrap_or_default();
        let shape: &'static str = match case["shape"].as_str().unwrap_or("") {
            "single" => "single",
            "multi" => "multi",
            "banks" => "banks",
            _ => "no-data",
        };
        let p = Prog {
            text: case["program"].as_str().unwrap_or("").to_string(),
            shape,
            pattern: case["pattern"].as_u64().unwrap_or(0) as usize,
            blocks,
            exact_len: case["exact_len"].as_bool().unwrap_or(false),
            coords: case["coords"].clone(),
        };
        let spec = case["format"].as_str().unwrap_or("");
        println!("program:\n{}\nformat: {}\nexpected: {}", p.text, spec, case["expected"]);
        judge_prog(&p, &fmts, Some(spec), l);
        for v in &l.violations {
            println!("observed now: {}", v.case["observed"]);
        }
        for (k, n) in &l.counters {
            println!("counter {} = {}", k, n);
        }
    })
}
