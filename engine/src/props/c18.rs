//! C18 — the command line does what the usage text says.
//!
//! Alphabet: format arguments (every name listed in `usage_help.md` x parameter values {absent, documented
//! default, every legal value, 0, 1, non-number, unknown key, doubled key} + a fixed list of wrong names),
//! output modes (none, `-o F`, `--output=F`, `-p`/`--print`, `-p -o F`), input names (main.asm, dir/main.asm, dir.v2/prog,
//! main, main.bin, main.txt, none, two inputs), global options in every documented spelling at every position
//! (before the inputs, between any two chunks of the first group, at the start / middle / end of later groups).
//!
//! Bound (every family is a complete product, decoded from a mixed-radix index, nothing sampled):
//! * quick    – 1 group: FULL formats; 1 group + 1 global option: MID formats; 2 groups: MID formats (and SMALL x
//!              the five input names); 2 groups + 1 global: TINY formats; iteration-budget family; on the real
//!              binary the complete 1-group grid (FULL x main.asm, MID3 x 8 input sets, TINY x every global x
//!              every slot), a 2-group + 1 global grid over three valid formats, budgets and colours.
//! * thorough – 2 groups: FULL formats; 3 groups: MID3 formats (and SMALL x five input names); 4 groups: TINY
//!              formats; 2 groups + 1 global: MID3; 3 groups + 1 global: TINY; 2 groups + 2 different globals:
//!              TINY; on the real binary the FULL 1-group grid on all 7 input sets, MID3 x every global x every
//!              slot, 2 groups SMALL, 2 groups + 1 global TINY.
//!   (FULL > MID > MID3 > SMALL > TINY are described at `Alphabets`.)
//!
//! Oracle: `c18_cli` (a reference parser built from the usage text at run time) decides accept / reject /
//! unspecified and the canonical, fully explicit format of every group (documented defaults filled in); expected
//! bytes come from a separate direct call
//! `driver::format_output(asm::assemble(..expected options..), parse_output_format(canonical string))`, and the
//! canonical strings themselves are cross-checked once against directly constructed `OutputFormat` values.
//! Rejected => Err / exit != 0, an error message, nothing written and (in process) no file opened. Accepted =>
//! Ok / exit 0, exactly one file per non-printing group under the given or derived name with exactly those bytes,
//! nothing else written, inputs untouched. Two groups aiming at the same name, undocumented aliases and
//! spellings, doubled options, a missing `-f` whose candidate extension collides with the input: no verdict.
//! The default format of a group without `-f` is not documented: any documented format with its documented
//! defaults and its own extension is accepted there.
use super::c18_cli::*;
use crate::driver;
use crate::run::panic_text;
use crate::stats::*;
use customasm::*;
use serde_json::{json, Value};
use std::collections::{BTreeMap, BTreeSet, HashMap};
use std::panic::{catch_unwind, AssertUnwindSafe};
use std::sync::{Arc, RwLock};

pub const ID: &str = "C18";

// ------------------------------------------------------------------------------------------------
// subject programs

/// Needs 3 resolution passes (fails with a budget of 1 or 2), depends on the constant `val`
/// (`val == 2` selects an unresolvable line, any other u8 changes one output byte) and on the boolean
/// constant `dbg` (true appends one byte), has labels at output offsets >= 0x10 (so `mesen-mlb` is well defined), produces only
/// bytes < 0x80 (so printing the binary format is loss-free) and starts its only block at byte 16 (so the
/// three Intel-HEX address units give three different texts).
pub const PROGRAM: &str = "#ruledef
{
    ld {x: u8} => 0x41 @ x
    jp {a: u8} => { assert(a < 0x28), 0x6a @ a }
    jp {a: u16} => 0x4a @ a
}
val = 0x30
dbg = false
#if val == 2
{
    #d8 nosuch
}
#bankdef main { #addr 0x20, #size 0x40, #outp 8 * 0x10 }
start:
    ld val
    jp mid
    jp end
mid:
    jp end
    #d \"Hi!\"
end:
    ld 0x7e
.loc:
#if dbg
{
    #d8 0x21
}
";
pub const SECOND: &str = "second:\n    ld 0x2a\n";

/// `k` jumps whose short form becomes legal one per pass: measured k + 3 passes.
pub fn chain_program(k: usize) -> String {
    let mut s = String::from("#ruledef\n{\n    jp {a: u8}, {lim: u8} => { assert(a < lim), 0x6a @ a }\n    jp {a: u16}, {lim: u8} => 0x4a @ a\n}\n#d8 0, 0, 0, 0, 0, 0, 0, 0, 0, 0, 0, 0, 0, 0, 0, 0\n");
    for i in 1..=k {
        s += &format!("jp l{}, {}\n", i, 16 + 3 * (i + 1));
        if i >= 2 {
            s += &format!("l{}:\n", i - 1);
        }
    }
    s += &format!("l{}:\n", k);
    s
}

#[derive(Clone, Debug)]
pub struct InputSet {
    pub id: String,
    pub files: Vec<(String, Vec<u8>)>,
    /// input names as written on the command line
    pub args: Vec<String>,
}

fn set1(id: &str, name: &str, text: &str) -> InputSet {
    InputSet { id: id.to_string(), files: vec![(name.to_string(), text.as_bytes().to_vec())], args: vec![name.to_string()] }
}

/// 0..=4: the five documented-shape input names; 5: no input; 6: two inputs; 7..: chain programs k = 1..=9
pub fn input_sets() -> Vec<InputSet> {
    let mut v = vec![];
    for n in ["main.asm", "dir/main.asm", "main", "main.bin", "main.txt"] {
        v.push(set1(n, n, PROGRAM));
    }
    let mut none = set1("<none>", "main.asm", PROGRAM);
    none.args.clear();
    v.push(none);
    let mut two = set1("main.asm+second.asm", "main.asm", PROGRAM);
    two.files.push(("second.asm".to_string(), SECOND.as_bytes().to_vec()));
    two.args.push("second.asm".to_string());
    v.push(two);
    for k in 1..=9 {
        v.push(set1(&format!("chain{}", k), "main.asm", &chain_program(k)));
    }
    // an input without extension inside a directory whose name has a dot: the derived name replaces the extension of
    // the LAST path component only
    v.push(set1("dir.v2/prog", "dir.v2/prog", PROGRAM));
    v
}
const SET_DOTDIR: usize = 16;
const SET_NONE: usize = 5;
const SET_TWO: usize = 6;
const SET_CHAIN0: usize = 7;

// ------------------------------------------------------------------------------------------------
// stdout of in-process `driver::drive` calls (progress lines, usage text) is sent to /dev/null

extern "C" {
    fn dup(fd: i32) -> i32;
    fn dup2(old: i32, new: i32) -> i32;
    fn close(fd: i32) -> i32;
}

pub struct StdoutGag {
    saved: i32,
}
impl StdoutGag {
    pub fn new() -> Option<StdoutGag> {
        use std::io::Write;
        use std::os::unix::io::AsRawFd;
        let _ = std::io::stdout().flush();
        let null = std::fs::OpenOptions::new().write(true).open("/dev/null").ok()?;
        unsafe {
            let saved = dup(1);
            if saved < 0 {
                return None;
            }
            if dup2(null.as_raw_fd(), 1) < 0 {
                close(saved);
                return None;
            }
            Some(StdoutGag { saved })
        }
    }
}
impl Drop for StdoutGag {
    fn drop(&mut self) {
        use std::io::Write;
        let _ = std::io::stdout().flush();
        unsafe {
            dup2(self.saved, 1);
            close(self.saved);
        }
    }
}

// ------------------------------------------------------------------------------------------------
// recording file server

pub struct RecFs {
    inner: util::FileServerMock,
    pub lookups: usize,
    pub writes: Vec<(String, Vec<u8>)>,
}
impl RecFs {
    pub fn new(files: &[(String, Vec<u8>)]) -> RecFs {
        RecFs { inner: crate::run::mock(files), lookups: 0, writes: vec![] }
    }
}
impl util::FileServer for RecFs {
    fn get_handle(&mut self, report: &mut diagn::Report, span: Option<diagn::Span>, filename: &str) -> Result<util::FileServerHandle, ()> {
        self.lookups += 1;
        self.inner.get_handle(report, span, filename)
    }
    fn get_filename(&self, h: util::FileServerHandle) -> &str {
        self.inner.get_filename(h)
    }
    fn get_bytes(&self, report: &mut diagn::Report, span: Option<diagn::Span>, h: util::FileServerHandle) -> Result<Vec<u8>, ()> {
        self.inner.get_bytes(report, span, h)
    }
    fn write_bytes(&mut self, _report: &mut diagn::Report, _span: Option<diagn::Span>, filename: &str, data: &Vec<u8>) -> Result<(), ()> {
        self.writes.push((filename.to_string(), data.clone()));
        Ok(())
    }
}

// ------------------------------------------------------------------------------------------------
// expectations: direct assembly with the expected options, formatted with the expected formats

pub struct AsmExp {
    pub ok: bool,
    /// the direct assembly reported an error *and* still carries an output (e.g. a define naming no constant)
    pub error_with_output: bool,
    /// canonical format text -> bytes (None: the formatter itself failed / is unknown to the subject)
    pub by_canon: HashMap<String, Option<Vec<u8>>>,
}

pub struct Env {
    pub cli: Cli,
    pub sets: Vec<InputSet>,
    pub universe: Vec<Canon>,
    pub defaults: Vec<Canon>,
    cache: RwLock<HashMap<String, Arc<AsmExp>>>,
    pub real_bin: Option<String>,
    pub scratch: String,
}

/// values of a `group`-like (any positive number) parameter that the enumeration uses
const POSITIVE_VALUES: [u64; 6] = [1, 2, 3, 4, 8, 16];

fn legal_list(format: &str, key: &str, default: u64) -> Vec<u64> {
    let mut v = match legal_values(format, key) {
        Legal::Set(s) => s,
        Legal::Positive => POSITIVE_VALUES.to_vec(),
        Legal::Unknown => vec![],
    };
    if !v.contains(&default) {
        v.push(default);
    }
    v
}

/// every canonical format the model can ask for within the enumerated alphabets
pub fn universe(cli: &Cli) -> Vec<Canon> {
    let mut out: Vec<Canon> = vec![];
    for doc in &cli.usage.formats {
        let mut cands = vec![Canon { name: doc.canon.name.clone(), params: vec![] }];
        for (k, d) in &doc.canon.params {
            let mut next = vec![];
            for c in &cands {
                for v in legal_list(&doc.canon.name, k, *d) {
                    let mut c2 = c.clone();
                    c2.params.push((k.clone(), v));
                    next.push(c2);
                }
            }
            cands = next;
        }
        for c in cands {
            if !out.contains(&c) {
                out.push(c);
            }
        }
    }
    out
}

pub fn asm_options(cli: &Cli, g: &Globals) -> asm::AssemblyOptions {
    let mut o = asm::AssemblyOptions::new();
    // the *documented* default budget
    o.max_iterations = g.iters.unwrap_or(cli.iters_default);
    o.debug_iterations = g.debug_iters;
    o.optimize_statically_known = !g.no_opt_static;
    o.optimize_instruction_matching = !g.no_opt_matcher;
    for (n, v) in &g.defines {
        o.driver_symbol_defs.push(asm::DriverSymbolDef {
            name: n.clone(),
            value: match v {
                DefV::Bool(b) => expr::Value::make_bool(*b),
                DefV::Int(i) => expr::Value::make_integer(*i),
            },
        });
    }
    o
}

/// Direct construction of the format value for the cross-check of explicit parameters.
pub fn direct_format(c: &Canon) -> Option<driver::OutputFormat> {
    use driver::OutputFormat as F;
    let get = |k: &str| c.params.iter().find(|(n, _)| n == k).map(|(_, v)| *v as usize);
    let plain = |f: F| if c.params.is_empty() { Some(f) } else { None };
    match c.name.as_str() {
        "binary" => plain(F::Binary),
        "annotated" if c.params.len() == 2 => Some(F::Annotated { base: get("base")?, group: get("group")? }),
        "binstr" => plain(F::BinStr),
        "hexstr" => plain(F::HexStr),
        "bindump" => plain(F::BinDump),
        "hexdump" => plain(F::HexDump),
        "mif" => plain(F::Mif),
        "intelhex" if c.params.len() == 1 => Some(F::IntelHex { address_unit: get("addr_unit")? }),
        "deccomma" => plain(F::DecComma),
        "hexcomma" => plain(F::HexComma),
        "decspace" => plain(F::DecSpace),
        "hexspace" => plain(F::HexSpace),
        "decc" => plain(F::DecC),
        "hexc" => plain(F::HexC),
        "logisim8" => plain(F::LogiSim8),
        "logisim16" => plain(F::LogiSim16),
        "addrspan" => plain(F::AddressSpan),
        "tcgame" if c.params.len() == 2 => Some(F::TCGame { base: get("base")?, group: get("group")? }),
        "symbols" => plain(F::Symbols),
        "mesen-mlb" => plain(F::SymbolsMesenMlb),
        _ => None,
    }
}

impl Env {
    pub fn new(ctx: &Ctx) -> Result<Env, String> {
        let path = format!("{}/src/usage_help.md", ctx.repo);
        let text = std::fs::read_to_string(&path).map_err(|e| format!("cannot read {}: {}", path, e))?;
        let cli = Cli::from_usage_text(&text)?;
        let universe = universe(&cli);
        let real_bin = std::env::var("VERIF_REAL_BIN").ok().filter(|p| std::path::Path::new(p).is_file());
        let scratch = std::env::var("VERIF_SCRATCH").unwrap_or_else(|_| format!("{}/.build/scratch", ctx.verif));
        let defaults = default_canons(&cli);
        Ok(Env { cli, sets: input_sets(), universe, defaults, cache: RwLock::new(HashMap::new()), real_bin, scratch })
    }

    /// assemble `set` directly with the options the command line documents, format with every canonical format
    pub fn expect_asm(&self, set: &InputSet, roots: &[String], g: &Globals) -> Arc<AsmExp> {
        let key = format!(
            "{}|{:?}|{:?}|{:?}|{}{}{}",
            set.id, roots, g.iters, g.defines, g.debug_iters as u8, g.no_opt_static as u8, g.no_opt_matcher as u8
        );
        if let Some(e) = self.cache.read().unwrap().get(&key) {
            return e.clone();
        }
        let e = Arc::new(self.compute_asm(set, roots, g, None));
        self.cache.write().unwrap().insert(key, e.clone());
        e
    }

    fn compute_asm(&self, set: &InputSet, roots: &[String], g: &Globals, direct: Option<&mut Vec<(String, bool)>>) -> AsmExp {
        let mut fs = crate::run::mock(&set.files);
        let mut report = diagn::Report::new();
        let opts = asm_options(&self.cli, g);
        let res = catch_unwind(AssertUnwindSafe(|| asm::assemble(&mut report, &opts, &mut fs, roots)));
        let mut exp = AsmExp { ok: false, error_with_output: false, by_canon: HashMap::new() };
        let Ok(res) = res else { return exp };
        if res.error || report.has_errors() {
            exp.error_with_output = res.output.is_some();
            return exp;
        }
        let (Some(output), Some(decls), Some(defs)) = (&res.output, &res.decls, &res.defs) else { return exp };
        exp.ok = true;
        let mut direct = direct;
        for c in &self.universe {
            let text = c.text();
            let bytes = catch_unwind(AssertUnwindSafe(|| {
                let mut r = diagn::Report::new();
                match driver::parse_output_format(&mut r, &text) {
                    Ok(f) => Some(driver::format_output(&fs, decls, defs, output, f)),
                    Err(()) => None,
                }
            }))
            .unwrap_or(None);
            if let Some(d) = direct.as_deref_mut() {
                if let Some(f) = direct_format(c) {
                    let b2 = catch_unwind(AssertUnwindSafe(|| driver::format_output(&fs, decls, defs, output, f))).ok();
                    d.push((text.clone(), b2.is_some() && b2 == bytes));
                }
            }
            exp.by_canon.insert(text, bytes);
        }
        exp
    }
}

// ------------------------------------------------------------------------------------------------
// the expectation for one command line

#[derive(Clone, Debug)]
pub struct GroupExp {
    pub print: bool,
    /// possible target names with the formats acceptable under that name (one entry unless no `-f` was given)
    pub targets: Vec<(String, Vec<Canon>)>,
    /// formats acceptable for a printing group
    pub print_formats: Vec<Canon>,
    pub feature: String,
    pub out_feature: String,
}

pub enum Expect {
    Unspecified(String),
    Reject { reason: String, strict: bool, glob: String },
    Help { glob: String },
    Run { asm: Arc<AsmExp>, groups: Vec<GroupExp>, contested: BTreeSet<String>, glob: String, cmd: Cmd },
}

fn default_canons(cli: &Cli) -> Vec<Canon> {
    let mut v: Vec<Canon> = vec![];
    for d in &cli.usage.formats {
        if !v.contains(&d.canon) {
            v.push(d.canon.clone());
        }
    }
    v
}

pub fn expect(env: &Env, set: &InputSet, argv: &[String]) -> Expect {
    let cmd = match env.cli.parse_argv(argv) {
        Parsed::Unspecified(u) => return Expect::Unspecified(u),
        Parsed::Reject(reason, strict, g) => return Expect::Reject { reason, strict, glob: g.feature() },
        Parsed::Cmd(c) => c,
    };
    let glob = cmd.g.feature();
    // derived names are computed (and may fail) while the command line is parsed, help or not
    let mut groups = vec![];
    let mut reject: Option<String> = None;
    let mut unspec: Option<String> = None;
    for g in &cmd.groups {
        let cands: Vec<Canon> = match &g.fmt {
            GroupFmt::OneOf(c) => c.clone(),
            GroupFmt::NotGiven => env.defaults.clone(),
        };
        let mut ge = GroupExp { print: g.print, targets: vec![], print_formats: vec![], feature: g.fmt_feature.clone(), out_feature: String::new() };
        if g.print {
            // "-p: print the output to the screen instead of writing to a file"
            ge.print_formats = cands;
            ge.out_feature = if g.out.is_some() { "out=print+given".into() } else { "out=print".into() };
        } else if let Some(o) = &g.out {
            ge.targets.push((o.clone(), cands));
            ge.out_feature = "out=given".into();
        } else if let Some(first) = cmd.inputs.first() {
            let mut by_name: Vec<(String, Vec<Canon>)> = vec![];
            for c in cands {
                let n = derive_name(first, c.ext());
                match by_name.iter_mut().find(|(m, _)| *m == n) {
                    Some(e) => e.1.push(c),
                    None => by_name.push((n, vec![c])),
                }
            }
            let clash = by_name.iter().any(|(n, _)| n == first);
            if clash {
                match g.fmt {
                    GroupFmt::OneOf(_) => {
                        reject.get_or_insert(format!("derived-equals-input:{}", by_name[0].1[0].ext()));
                    }
                    GroupFmt::NotGiven => {
                        unspec.get_or_insert("no -f (default format undocumented) and one candidate extension equals the input's".into());
                    }
                }
            }
            ge.out_feature = format!("out=derived;ext={};input={}", if by_name.len() == 1 { by_name[0].1[0].ext() } else { "?" }, first);
            ge.targets = by_name;
        } else {
            ge.out_feature = "out=derived;no-input".into();
        }
        groups.push(ge);
    }
    if let Some(u) = unspec {
        return Expect::Unspecified(u);
    }
    if let Some(r) = reject {
        if cmd.g.help || cmd.g.version {
            return Expect::Unspecified("help/version together with an underivable output name".into());
        }
        return Expect::Reject { reason: r, strict: true, glob };
    }
    if cmd.g.help || cmd.g.version {
        return Expect::Help { glob };
    }
    if cmd.inputs.is_empty() {
        return Expect::Reject { reason: "no-input".into(), strict: true, glob };
    }
    let mut seen: BTreeMap<String, usize> = BTreeMap::new();
    for g in &groups {
        for (n, _) in &g.targets {
            *seen.entry(n.clone()).or_insert(0) += 1;
        }
    }
    let contested: BTreeSet<String> = seen.into_iter().filter(|(_, c)| *c > 1).map(|(n, _)| n).collect();
    let asm = env.expect_asm(set, &cmd.inputs, &cmd.g);
    Expect::Run { asm, groups, contested, glob, cmd }
}

// ------------------------------------------------------------------------------------------------
// observations

pub struct Obs {
    pub mode: &'static str,
    /// success as reported (drive -> Ok / exit status 0)
    pub ok: bool,
    pub crashed: Option<String>,
    /// at least one error was reported (in-process: report.has_errors(); real: stderr not empty)
    pub has_errors: bool,
    /// file-server lookups before the verdict (in-process only)
    pub lookups: Option<usize>,
    pub writes: Vec<(String, Vec<u8>)>,
    pub stdout: Option<Vec<u8>>,
    pub stderr: Option<Vec<u8>>,
    pub inputs_modified: Vec<String>,
    pub exit: Option<i32>,
}

impl Obs {
    fn summary(&self) -> Value {
        json!({
            "mode": self.mode, "ok": self.ok, "crashed": self.crashed, "has_errors": self.has_errors, "lookups": self.lookups,
            "exit": self.exit,
            "writes": self.writes.iter().map(|(n, b)| json!({"name": n, "len": b.len(), "head": String::from_utf8_lossy(&b[..b.len().min(120)])})).collect::<Vec<_>>(),
            "stdout_head": self.stdout.as_ref().map(|b| String::from_utf8_lossy(&b[..b.len().min(400)]).to_string()),
            "stderr_head": self.stderr.as_ref().map(|b| String::from_utf8_lossy(&b[..b.len().min(400)]).to_string()),
            "inputs_modified": self.inputs_modified,
        })
    }
}

pub fn run_inproc(set: &InputSet, argv: &[String]) -> Obs {
    let mut fs = RecFs::new(&set.files);
    let mut report = diagn::Report::new();
    let mut full: Vec<String> = vec!["customasm".to_string()];
    full.extend(argv.iter().cloned());
    let r = catch_unwind(AssertUnwindSafe(|| driver::drive(&mut report, &full, &mut fs).is_ok()));
    let (ok, crashed) = match r {
        Ok(b) => (b, None),
        Err(e) => (false, Some(panic_text(e))),
    };
    Obs { mode: "inproc", ok, crashed, has_errors: report.has_errors(), lookups: Some(fs.lookups), writes: fs.writes, stdout: None, stderr: None, inputs_modified: vec![], exit: None }
}

fn walk(dir: &std::path::Path, prefix: &str, out: &mut BTreeMap<String, Vec<u8>>) {
    let Ok(rd) = std::fs::read_dir(dir) else { return };
    let mut names: Vec<_> = rd.filter_map(|e| e.ok()).collect();
    names.sort_by_key(|e| e.file_name());
    for e in names {
        let name = format!("{}{}", prefix, e.file_name().to_string_lossy());
        let p = e.path();
        if p.is_dir() {
            walk(&p, &format!("{}/", name), out);
        } else if let Ok(b) = std::fs::read(&p) {
            out.insert(name, b);
        }
    }
}

pub fn run_real(env: &Env, set: &InputSet, argv: &[String], slot: &str) -> Result<Obs, String> {
    let bin = env.real_bin.as_ref().ok_or("no real binary")?;
    let dir = std::path::PathBuf::from(format!("{}/c18-{}/{}", env.scratch, std::process::id(), slot));
    let _ = std::fs::remove_dir_all(&dir);
    std::fs::create_dir_all(dir.join("dir")).map_err(|e| format!("mkdir {:?}: {}", dir, e))?;
    for (n, b) in &set.files {
        let p = dir.join(n);
        if let Some(parent) = p.parent() {
            std::fs::create_dir_all(parent).map_err(|e| e.to_string())?;
        }
        std::fs::write(&p, b).map_err(|e| e.to_string())?;
    }
    // every second case (by a hash of its command line) runs in a directory that already holds longer, stale files
    // under the names outputs usually get: an output file is *replaced*, never patched at its start
    let stale_on = {
        use std::hash::Hasher;
        let mut h = Fnv::default();
        h.write(argv.join("\u{1}").as_bytes());
        h.finish() % 2 == 0
    };
    let mut stale: BTreeMap<String, Vec<u8>> = BTreeMap::new();
    if stale_on {
        for n in ["out0.x", "out1.x", "out2.x", "out3.x", "main.bin", "main.txt", "main.mlb", "dir/main.bin", "dir/main.txt", "dir/main.mlb"] {
            if set.files.iter().any(|(m, _)| m == n) {
                continue;
            }
            let content = vec![0xeeu8; 8192];
            let p = dir.join(n);
            std::fs::write(&p, &content).map_err(|e| e.to_string())?;
            stale.insert(n.to_string(), content);
        }
    }
    let out = std::process::Command::new(bin)
        .args(argv)
        .current_dir(&dir)
        .env("RUST_BACKTRACE", "0")
        .env_remove("NO_COLOR")
        .stdin(std::process::Stdio::null())
        .output()
        .map_err(|e| format!("spawn {}: {}", bin, e))?;
    let mut after = BTreeMap::new();
    walk(&dir, "", &mut after);
    let mut writes = vec![];
    let mut modified = vec![];
    for (n, b) in &after {
        match set.files.iter().find(|(m, _)| m == n) {
            Some((_, orig)) => {
                if orig != b {
                    modified.push(n.clone());
                }
            }
            None => {
                // a stale file that is still exactly as it was has not been written
                if stale.get(n) != Some(b) {
                    writes.push((n.clone(), b.clone()));
                }
            }
        }
    }
    for (n, _) in &set.files {
        if !after.contains_key(n) {
            modified.push(n.clone());
        }
    }
    let _ = std::fs::remove_dir_all(&dir);
    let exit = out.status.code();
    let crashed = match exit {
        None => Some("killed by a signal".to_string()),
        Some(101) => Some("exit status 101 (panic)".to_string()),
        _ => None,
    };
    Ok(Obs {
        mode: "real",
        ok: exit == Some(0),
        crashed,
        has_errors: !out.stderr.is_empty(),
        lookups: None,
        writes,
        stdout: Some(out.stdout),
        stderr: Some(out.stderr),
        inputs_modified: modified,
        exit,
    })
}

fn contains(hay: &[u8], needle: &[u8]) -> bool {
    needle.is_empty() || hay.windows(needle.len()).any(|w| w == needle)
}

fn trim(b: &[u8]) -> &[u8] {
    let mut s = 0;
    let mut e = b.len();
    while s < e && b[s].is_ascii_whitespace() {
        s += 1;
    }
    while e > s && b[e - 1].is_ascii_whitespace() {
        e -= 1;
    }
    &b[s..e]
}

fn shell_line(set: &InputSet, argv: &[String]) -> String {
    let q = |s: &str| format!("'{}'", s.replace('\'', "'\\''"));
    format!(
        "(in a directory holding {}) customasm {}",
        set.files.iter().map(|(n, _)| n.as_str()).collect::<Vec<_>>().join(", "),
        argv.iter().map(|a| q(a)).collect::<Vec<_>>().join(" ")
    )
}

// ------------------------------------------------------------------------------------------------
// judging one case

pub fn judge(env: &Env, set: &InputSet, argv: &[String], mode: &'static str, slot: &str, l: &mut Local) {
    let exp = expect(env, set, argv);
    let obs = if mode == "real" {
        match run_real(env, set, argv, slot) {
            Ok(o) => o,
            Err(e) => {
                l.count("real_runner_errors", 1);
                l.sample(|| json!({"runner_error": e}));
                return;
            }
        }
    } else {
        run_inproc(set, argv)
    };
    l.eval();
    l.class(&format!("{}:{}", mode, match &exp {
        Expect::Unspecified(_) => "unspecified",
        Expect::Reject { .. } => "reject",
        Expect::Help { .. } => "help",
        Expect::Run { asm, .. } => if asm.ok { "accept" } else { "assembly-fails" },
    }));

    let exp_json = |e: &Expect| -> Value {
        match e {
            Expect::Unspecified(u) => json!({"unspecified": u}),
            Expect::Reject { reason, strict, .. } => json!({"reject": reason, "nothing_read": strict, "demand": "Err/exit!=0, an error message, nothing written"}),
            Expect::Help { .. } => json!({"help_or_version": "Ok/exit 0, nothing written"}),
            Expect::Run { asm, groups, contested, .. } => json!({
                "assembly_ok": asm.ok, "assembly_reports_error_but_has_output": asm.error_with_output,
                "groups": groups.iter().map(|g| json!({"print": g.print,
                    "targets": g.targets.iter().map(|(n, c)| json!({"name": n, "formats": c.iter().map(|c| c.text()).collect::<Vec<_>>()})).collect::<Vec<_>>(),
                    "print_formats": g.print_formats.iter().map(|c| c.text()).collect::<Vec<_>>()})).collect::<Vec<_>>(),
                "contested_names": contested,
            }),
        }
    };
    let fail = |l: &mut Local, check: &str, feature: &str, what: String| {
        l.violation(Violation {
            property: ID,
            key: format!("{}|{}", check, feature),
            what: format!("{} [{}] {}", what, mode, shell_line(set, argv)),
            case: json!({
                "mode": mode, "input_set": set.id, "argv": argv,
                "files": set.files.iter().map(|(n, b)| (n.clone(), Value::String(String::from_utf8_lossy(b).to_string()))).collect::<serde_json::Map<_, _>>(),
                "expected": exp_json(&exp), "observed": obs.summary(), "reproduce": shell_line(set, argv),
            }),
        });
    };

    // an input file is never touched, whatever the command line means
    if !obs.inputs_modified.is_empty() {
        fail(l, "input-modified", &format!("input={}", set.id), format!("input file(s) {:?} changed or removed", obs.inputs_modified));
    }

    match &exp {
        Expect::Unspecified(_) => {
            l.unspecified += 1;
            return;
        }
        Expect::Reject { reason, strict, glob } => {
            l.class(&format!("reject:{}", reason.split(|c| c == ':' || c == '=').next().unwrap_or("")));
            l.nontrivial(&(&set.id, argv));
            l.traces_validated += 1;
            // global options only enter the key when the reason is about one of them
            let feat = if reason.starts_with("iters") || reason.starts_with("color") { format!("{};glob={}", reason, glob) } else { reason.clone() };
            if let Some(c) = &obs.crashed {
                fail(l, "crash-instead-of-reject", &feat, format!("crashed ({}) where an error was due", c));
            } else if obs.ok {
                fail(l, "not-rejected", &feat, format!("command line outside the documented set ({}) was accepted", reason));
            } else if !obs.has_errors {
                fail(l, "rejected-silently", &feat, "failure without an error message".into());
            }
            if !obs.writes.is_empty() {
                fail(l, "wrote-on-reject", &feat, format!("{} file(s) written although the command line is invalid", obs.writes.len()));
            }
            if *strict && obs.lookups.unwrap_or(0) > 0 {
                fail(l, "read-before-reject", &feat, "files were opened before the invalid command line was rejected".into());
            }
            return;
        }
        Expect::Help { glob } => {
            l.class("help-or-version");
            l.nontrivial(&(&set.id, argv));
            l.traces_validated += 1;
            if obs.crashed.is_some() || !obs.ok {
                fail(l, "help-failed", glob, "help/version request did not succeed".into());
            }
            if !obs.writes.is_empty() {
                fail(l, "help-wrote", glob, "help/version request wrote files".into());
            }
            if let Some(out) = &obs.stdout {
                if trim(out).is_empty() {
                    fail(l, "help-silent", glob, "help/version request printed nothing".into());
                }
            }
            return;
        }
        Expect::Run { asm, groups, contested, glob, cmd } => {
            if argv.len() > cmd.inputs.len() {
                l.nontrivial(&(&set.id, argv));
            }
            l.traces_validated += 1;
            // state graph of the reference parser: one state per group prefix
            let mut st = format!("{}|", glob);
            for g in groups {
                st += &format!("{}/{};", g.feature, g.out_feature);
                l.state(&st);
                l.transitions += 1;
            }
            if !cmd.g.seen.is_empty() {
                for (r, p) in &cmd.g.seen {
                    l.class(&format!("global:{}@{}", r, p));
                }
            }
            if !asm.ok {
                l.class(if cmd.g.iters.is_some() { "assembly-fails:with-iters" } else if !cmd.g.defines.is_empty() { "assembly-fails:with-define" } else { "assembly-fails:other" });
                let feat = format!("glob={}", glob);
                if asm.error_with_output {
                    // the assembler reports an error but leaves an output behind: one family, one key
                    l.class("assembly-fails:error-with-output");
                    // only the options that reach the assembler can be the reason
                    let roles: BTreeSet<&str> = if cmd.g.defines.is_empty() { cmd.g.seen.iter().map(|(r, _)| r.as_str()).filter(|r| *r == "iters").collect() } else { ["define"].into_iter().collect() };
                    if obs.ok || !obs.writes.is_empty() {
                        fail(l, "assembly-error-ignored", &format!("options={}", roles.into_iter().collect::<Vec<_>>().join("+")), format!("the assembly reports an error, yet the command {} and wrote {} file(s)", if obs.ok { "succeeded" } else { "failed" }, obs.writes.len()));
                    } else if !obs.has_errors {
                        fail(l, "failed-silently", &feat, "failure without an error message".into());
                    }
                    return;
                }
                if let Some(c) = &obs.crashed {
                    fail(l, "crash-instead-of-failure", &feat, format!("crashed ({})", c));
                } else if obs.ok {
                    fail(l, "options-not-honoured:succeeded", &feat, "the assembly fails under the documented options, the command succeeded".into());
                } else if !obs.has_errors {
                    fail(l, "failed-silently", &feat, "failure without an error message".into());
                }
                if !obs.writes.is_empty() {
                    fail(l, "wrote-on-failure", &feat, "files written although the assembly failed".into());
                }
                return;
            }
            // the assembly succeeds under the documented options
            if cmd.g.iters.is_some() || !cmd.g.defines.is_empty() {
                let plain = env.expect_asm(set, &cmd.inputs, &Globals::default());
                if !plain.ok {
                    l.class("options-rescue-assembly");
                } else if plain.by_canon != asm.by_canon {
                    l.class("options-change-output");
                }
            }
            let first_feature = groups.first().map(|g| g.feature.clone()).unwrap_or_default();
            if let Some(c) = &obs.crashed {
                fail(l, "crash", &format!("{};glob={}", first_feature, glob), format!("crashed ({})", c));
                return;
            }
            if !obs.ok {
                fail(l, "rejected-valid", &format!("{};{};glob={}", first_feature, groups.first().map(|g| g.out_feature.split(";input=").next().unwrap_or("")).unwrap_or(""), glob), "documented command line failed".into());
                if !obs.writes.is_empty() {
                    fail(l, "wrote-on-failure", &format!("glob={}", glob), "files written although the command failed".into());
                }
                return;
            }
            // files
            let mut names: BTreeMap<&str, usize> = BTreeMap::new();
            for (n, _) in &obs.writes {
                *names.entry(n.as_str()).or_insert(0) += 1;
            }
            let all_targets: BTreeSet<&str> = groups.iter().flat_map(|g| g.targets.iter().map(|(n, _)| n.as_str())).collect();
            for (n, c) in &names {
                if !all_targets.contains(n) {
                    fail(l, "extra-file", &groups.iter().map(|g| g.out_feature.as_str()).collect::<BTreeSet<_>>().into_iter().collect::<Vec<_>>().join("+"), format!("file `{}` written, no group targets it", n));
                } else if *c > 1 && !contested.contains(*n) && mode == "inproc" {
                    fail(l, "written-twice", &format!("glob={}", glob), format!("file `{}` written {} times", n, c));
                }
            }
            if groups.len() > 1 || !cmd.g.seen.is_empty() {
                l.sample(|| json!({"mode": mode, "input_set": set.id, "argv": argv, "expected": exp_json(&exp),
                    "observed_files": obs.writes.iter().map(|(n, b)| json!({"name": n, "len": b.len()})).collect::<Vec<_>>()}));
            }
            let nonprint = groups.iter().filter(|g| !g.print).count();
            if names.len() > nonprint {
                fail(l, "too-many-files", &format!("glob={}", glob), format!("{} files for {} non-printing groups", names.len(), nonprint));
            }
            for (gi, g) in groups.iter().enumerate() {
                let pos = if gi == 0 { "first" } else { "later" };
                if g.print {
                    l.class("group:print");
                    // stdout is only visible on the real binary
                    if let Some(out) = &obs.stdout {
                        let texts: Vec<Vec<u8>> = g.print_formats.iter().filter_map(|c| asm.by_canon.get(&c.text()).cloned().flatten()).map(|b| String::from_utf8_lossy(&b).as_bytes().to_vec()).collect();
                        if texts.is_empty() {
                            l.count("expected_bytes_unavailable", 1);
                        } else if !texts.iter().any(|t| contains(out, trim(t))) {
                            fail(l, "stdout-print", &format!("{};pos={}", g.feature, pos), "stdout does not contain the output in the selected format".into());
                        } else if groups.len() == 1 {
                            if cmd.g.quiet {
                                if !texts.iter().any(|t| trim(out) == trim(t)) {
                                    fail(l, "quiet", &format!("print;glob={}", glob), "with --quiet stdout holds more than the printed output".into());
                                }
                            } else if !texts.iter().any(|t| trim(out) == trim(t)) {
                                l.class("progress-visible");
                            }
                        }
                    }
                    continue;
                }
                if g.targets.iter().any(|(n, _)| contested.contains(n)) {
                    l.class("group:contested-name");
                    l.count("groups_without_verdict_contested_name", 1);
                    continue;
                }
                l.class(if g.out_feature.starts_with("out=given") { "group:given-name" } else { "group:derived-name" });
                if g.targets.len() > 1 {
                    l.class("group:default-format");
                }
                let hit: Vec<&(String, Vec<Canon>)> = g.targets.iter().filter(|(n, _)| names.contains_key(n.as_str())).collect();
                let affecting: BTreeSet<&str> = cmd.g.seen.iter().map(|(r, _)| r.as_str()).filter(|r| ["iters", "define", "no-opt-static", "no-opt-matcher", "debug-iters"].contains(r)).collect();
                let feat = if affecting.is_empty() { format!("{};pos={}", g.feature, pos) } else { format!("{};pos={};with={}", g.feature, pos, affecting.into_iter().collect::<Vec<_>>().join("+")) };
                let file_feat = format!("{};pos={}", g.out_feature, pos);
                if hit.is_empty() {
                    fail(l, "missing-file", &file_feat, format!("no file named {:?} was written", g.targets.iter().map(|(n, _)| n).collect::<Vec<_>>()));
                    continue;
                }
                if hit.len() > 1 {
                    fail(l, "too-many-files", &file_feat, "one group wrote several files".into());
                    continue;
                }
                let (name, formats) = hit[0];
                let written = &obs.writes.iter().rev().find(|(n, _)| n == name).unwrap().1;
                let wanted: Vec<&Vec<u8>> = formats.iter().filter_map(|c| asm.by_canon.get(&c.text()).and_then(|b| b.as_ref())).collect();
                if wanted.len() < formats.len() {
                    // the formatter itself failed for this program/format (not this property's business)
                    l.count("expected_bytes_unavailable", 1);
                    continue;
                }
                if !wanted.iter().any(|w| *w == written) {
                    fail(l, "bytes", &feat, format!("`{}` does not hold the output formatted as {:?}", name, formats.iter().map(|c| c.text()).collect::<Vec<_>>()));
                }
            }
            if let Some(out) = &obs.stdout {
                if groups.iter().all(|g| !g.print) {
                    if cmd.g.quiet {
                        if !trim(out).is_empty() {
                            fail(l, "quiet", &format!("files;glob={}", glob), "with --quiet something was printed on stdout".into());
                        }
                    } else if !trim(out).is_empty() {
                        l.class("progress-visible");
                    }
                }
                // colour: --color=off must leave no escape sequence anywhere
                if cmd.g.color == Some(false) {
                    let esc = out.contains(&0x1b) || obs.stderr.as_ref().map(|e| e.contains(&0x1b)).unwrap_or(false);
                    if esc {
                        fail(l, "color", "explicit-off;with=successful-run", "escape sequences printed although --color=off".into());
                    }
                }
            }
        }
    }
}

/// colour on failing assemblies and on help (real binary): off => no ESC, on/default => ESC
fn judge_color(env: &Env, set: &InputSet, argv: &[String], slot: &str, l: &mut Local) {
    let Parsed::Cmd(cmd) = env.cli.parse_argv(argv) else {
        l.unspecified += 1;
        return;
    };
    let Ok(obs) = run_real(env, set, argv, slot) else {
        l.count("real_runner_errors", 1);
        return;
    };
    l.eval();
    l.traces_validated += 1;
    l.nontrivial(&(&set.id, argv, "color"));
    let esc = obs.stdout.as_ref().map(|o| o.contains(&0x1b)).unwrap_or(false) || obs.stderr.as_ref().map(|o| o.contains(&0x1b)).unwrap_or(false);
    let want = cmd.g.color.unwrap_or(true); // "(Default: on)"
    l.class(if want { "color:on" } else { "color:off" });
    if esc != want {
        let with: BTreeSet<&str> = cmd.g.seen.iter().map(|(r, _)| r.as_str()).filter(|r| *r != "color").collect();
        let explicit = if cmd.g.color.is_some() { "explicit" } else { "default" };
        l.violation(Violation {
            property: ID,
            key: format!("color|{}-{};with={}", explicit, if want { "on" } else { "off" }, with.into_iter().collect::<Vec<_>>().join("+")),
            what: format!("colour is {} but escape sequences are {} [real] {}", if want { "on" } else { "off" }, if esc { "present" } else { "absent" }, shell_line(set, argv)),
            case: json!({"mode": "color", "input_set": set.id, "argv": argv,
                "files": set.files.iter().map(|(n, b)| (n.clone(), Value::String(String::from_utf8_lossy(b).to_string()))).collect::<serde_json::Map<_, _>>(),
                "expected": {"escape_sequences": want}, "observed": obs.summary(), "reproduce": shell_line(set, argv)}),
        });
    }
}

// ------------------------------------------------------------------------------------------------
// alphabets

fn param_states(canon_name: &str, key: &str, default: u64) -> Vec<Option<String>> {
    let mut v: Vec<Option<String>> = vec![None, Some(default.to_string())];
    let mut push = |s: String| {
        if !v.contains(&Some(s.clone())) {
            v.push(Some(s));
        }
    };
    for l in legal_list(canon_name, key, default) {
        push(l.to_string());
    }
    push("0".into());
    push("1".into());
    if canon_name == "tcgame" && key == "base" {
        push("8".into()); // "Supports base 2 and 16."
    }
    push("x".into());
    v
}

fn is_legal(canon_name: &str, key: &str, v: &Option<String>) -> bool {
    match v {
        None => false,
        Some(s) => s.parse::<u64>().ok().and_then(|n| legal_values(canon_name, key).contains(n)).unwrap_or(false),
    }
}

fn with_params(name: &str, ps: &[(&str, &Option<String>)]) -> String {
    let mut s = name.to_string();
    for (k, v) in ps {
        if let Some(v) = v {
            s += &format!(",{}:{}", k, v);
        }
    }
    s
}

pub type Formats = Arc<Vec<Option<String>>>;

/// Lists of `-f` arguments (`None` = no `-f` in the group), each a superset of the next:
/// * `full`  – every documented name x the complete product of parameter states {absent, default, every legal
///             value, 0, 1, non-number} (+ reversed parameter order), unknown key, bare key, empty value, doubled
///             keys, unknown key on parameterless names, the fixed wrong names, the undocumented aliases;
/// * `mid`   – every documented name; for names with parameters every state of one parameter at a time, one
///             all-explicit non-default combination, unknown key, doubled key; the wrong names;
/// * `mid3`  – as `mid` with three states per parameter (default, one other legal value, 0);
/// * `small` – none, one plain name, every name with parameters (bare / one non-default value / 0), the
///             "Same as" names, the name with its own extension, one wrong name;
/// * `tiny`  – none, one plain name, one parameterised name (non-default value / 0 / unknown key), one
///             "Same as" name, the name with its own extension, one wrong name.
pub struct Alphabets {
    pub full: Formats,
    pub mid: Formats,
    pub mid3: Formats,
    pub small: Formats,
    pub tiny: Formats,
    /// none, one plain name, one "Same as" name (all valid): base lines for process-level runs with a global option
    pub micro: Formats,
}

pub fn format_alphabets(cli: &Cli) -> Alphabets {
    let mut full: Vec<Option<String>> = vec![None];
    let mut mid: Vec<Option<String>> = vec![None];
    let mut mid3: Vec<Option<String>> = vec![None];
    let mut small: Vec<Option<String>> = vec![None];
    let mut tiny: Vec<Option<String>> = vec![None];
    let add = |v: &mut Vec<Option<String>>, s: String| {
        if !v.contains(&Some(s.clone())) {
            v.push(Some(s));
        }
    };
    let mut plain_seen = 0;
    let mut param_seen = 0;
    let mut alias_seen = 0;
    for doc in &cli.usage.formats {
        let n = &doc.name;
        for v in [&mut full, &mut mid, &mut mid3] {
            add(v, n.clone());
        }
        if doc.params.is_empty() {
            add(&mut full, format!("{},foo:1", n));
            add(&mut full, format!("{},base:16", n));
            let alias = doc.canon.name != *n;
            let special = doc.canon.ext() != "txt";
            if alias || special || plain_seen == 0 {
                add(&mut small, n.clone());
            }
            if special || (alias && alias_seen == 0) {
                add(&mut tiny, n.clone());
            }
            if alias {
                alias_seen += 1;
            }
            if !alias && !special {
                if plain_seen == 0 {
                    add(&mut mid, format!("{},foo:1", n));
                    add(&mut mid3, format!("{},foo:1", n));
                }
                plain_seen += 1;
            }
            continue;
        }
        add(&mut small, n.clone());
        let cn = &doc.canon.name;
        let states: Vec<Vec<Option<String>>> = doc.params.iter().map(|(k, d)| param_states(cn, k, *d)).collect();
        // full: the complete product in documented order
        let radices: Vec<u64> = states.iter().map(|s| s.len() as u64).collect();
        for i in 0..product(&radices) {
            let d = decode(i, &radices);
            let ps: Vec<(&str, &Option<String>)> = doc.params.iter().enumerate().map(|(pi, (k, _))| (k.as_str(), &states[pi][d[pi] as usize])).collect();
            add(&mut full, with_params(n, &ps));
            // reversed order when every parameter is present and legal
            if ps.len() > 1 && ps.iter().all(|(k, v)| is_legal(cn, k, v)) {
                let mut r = ps.clone();
                r.reverse();
                add(&mut full, with_params(n, &r));
            }
            // mid: at most one parameter present
            if d.iter().filter(|x| **x != 0).count() <= 1 {
                add(&mut mid, with_params(n, &ps));
            }
        }
        let nondefault: Vec<Option<String>> = doc.params.iter().map(|(k, d)| legal_list(cn, k, *d).into_iter().find(|v| v != d).map(|v| v.to_string())).collect();
        let zero = Some("0".to_string());
        for (pi, (k, d)) in doc.params.iter().enumerate() {
            let dflt = Some(d.to_string());
            for st in [&dflt, &nondefault[pi], &zero] {
                add(&mut mid3, with_params(n, &[(k.as_str(), st)]));
            }
        }
        // one combination with every parameter explicit and different from its default
        let nd: Vec<(&str, &Option<String>)> = doc.params.iter().enumerate().map(|(pi, (k, _))| (k.as_str(), &nondefault[pi])).collect();
        add(&mut mid, with_params(n, &nd));
        add(&mut mid3, with_params(n, &nd));
        add(&mut small, with_params(n, &nd[..1]));
        add(&mut small, with_params(n, &[(doc.params[0].0.as_str(), &zero)]));
        if param_seen == 0 {
            add(&mut tiny, with_params(n, &nd[..1]));
            add(&mut tiny, with_params(n, &[(doc.params[0].0.as_str(), &zero)]));
            add(&mut tiny, format!("{},foo:1", n));
        }
        param_seen += 1;
        for v in [&mut full, &mut mid, &mut mid3] {
            add(v, format!("{},foo:1", n));
        }
        for (k, d) in doc.params.iter() {
            let legal = legal_list(cn, k, *d);
            let l0 = legal[0];
            let l1 = *legal.iter().find(|v| **v != l0).unwrap_or(&l0);
            add(&mut full, format!("{},{}:{},foo:1", n, k, d));
            add(&mut full, format!("{},{}", n, k));
            add(&mut full, format!("{},{}:", n, k));
            add(&mut full, format!("{},{}:{},{}:{}", n, k, l1, k, l0));
            add(&mut full, format!("{},{}:{},{}:{}", n, k, d, k, d));
            for v in [&mut full, &mut mid, &mut mid3] {
                add(v, format!("{},{}:{},{}:{}", n, k, l0, k, l1));
            }
        }
    }
    if let Some(first_plain) = cli.usage.formats.iter().find(|d| d.params.is_empty() && d.canon.name == d.name) {
        add(&mut tiny, first_plain.name.clone());
    }
    for w in WRONG_NAMES {
        for v in [&mut full, &mut mid, &mut mid3] {
            add(v, w.to_string());
        }
    }
    add(&mut small, WRONG_NAMES[0].to_string());
    add(&mut tiny, WRONG_NAMES[0].to_string());
    for a in UNDOCUMENTED_ALIASES {
        add(&mut full, a.to_string());
    }
    let mut micro: Vec<Option<String>> = vec![None];
    if let Some(first_plain) = cli.usage.formats.iter().find(|d| d.params.is_empty() && d.canon.name == d.name) {
        add(&mut micro, first_plain.name.clone());
    }
    if let Some(first_alias) = cli.usage.formats.iter().find(|d| d.canon.name != d.name) {
        add(&mut micro, first_alias.name.clone());
    }
    Alphabets { full: Arc::new(full), mid: Arc::new(mid), mid3: Arc::new(mid3), small: Arc::new(small), tiny: Arc::new(tiny), micro: Arc::new(micro) }
}

#[derive(Clone, Copy, Debug, PartialEq, Eq)]
pub enum OutMode {
    NoOut,
    ShortO,
    LongO,
    Print,
    PrintLong,
    PrintAndO,
    ShortODir,
    DetachedLong,
    Shared,
}

fn out_tokens(cli: &Cli, m: OutMode, gi: usize) -> Vec<String> {
    let name = format!("out{}.x", gi);
    let o = cli.opt("output");
    let p = cli.opt("print");
    let short = |d: Option<&OptDoc>| d.and_then(|d| d.short).map(|c| format!("-{}", c));
    let long = |d: Option<&OptDoc>| d.map(|d| format!("--{}", d.long));
    match m {
        OutMode::NoOut => vec![],
        OutMode::ShortO => short(o).map(|s| vec![s, name]).unwrap_or_default(),
        OutMode::LongO => long(o).map(|s| vec![format!("{}={}", s, name)]).unwrap_or_default(),
        OutMode::Print => short(p).map(|s| vec![s]).unwrap_or_default(),
        OutMode::PrintLong => long(p).map(|s| vec![s]).unwrap_or_default(),
        OutMode::PrintAndO => match (short(p), short(o)) {
            (Some(p), Some(o)) => vec![p, o, name],
            _ => vec![],
        },
        OutMode::ShortODir => short(o).map(|s| vec![s, "dir/o.x".to_string()]).unwrap_or_default(),
        OutMode::DetachedLong => long(o).map(|s| vec![s, name]).unwrap_or_default(),
        OutMode::Shared => short(o).map(|s| vec![s, "same.x".to_string()]).unwrap_or_default(),
    }
}

fn fmt_tokens(cli: &Cli, f: &Option<String>, long: bool) -> Vec<String> {
    let Some(f) = f else { return vec![] };
    let Some(d) = cli.opt("format") else { return vec![] };
    match (long, d.short) {
        (false, Some(c)) => vec![format!("-{}", c), f.clone()],
        _ => vec![format!("--{}={}", d.long, f)],
    }
}

/// every documented global option in every documented spelling with the listed values: (role, tokens)
pub fn global_variants(cli: &Cli, iters_values: &[&str]) -> Vec<(String, Vec<String>)> {
    let mut v: Vec<(String, Vec<String>)> = vec![];
    for o in cli.usage.opts.iter().filter(|o| o.global) {
        let values: Vec<String> = match o.long.as_str() {
            "iters" => iters_values.iter().map(|s| s.to_string()).collect(),
            "define" => ["dbg", "val=7", "val=2", "nosuch=1"].iter().map(|s| s.to_string()).collect(),
            "color" => ["on", "off", "bad"].iter().map(|s| s.to_string()).collect(),
            _ => vec![],
        };
        if o.long_meta.is_none() && !o.short_attached {
            // flag
            if let Some(c) = o.short {
                v.push((o.long.clone(), vec![format!("-{}", c)]));
            }
            v.push((o.long.clone(), vec![format!("--{}", o.long)]));
            continue;
        }
        for val in &values {
            if let Some(c) = o.short {
                if o.short_attached {
                    v.push((o.long.clone(), vec![format!("-{}{}", c, val)]));
                } else {
                    v.push((o.long.clone(), vec![format!("-{}", c), val.clone()]));
                }
            }
            v.push((o.long.clone(), vec![format!("--{}={}", o.long, val)]));
        }
    }
    v
}

/// A base command line as a list of chunks (a global option may be inserted between any two chunks).
fn base_chunks(cli: &Cli, set: &InputSet, groups: &[(&Option<String>, OutMode)], spelling: u64, out_first: bool) -> Vec<Vec<String>> {
    let mut chunks: Vec<Vec<String>> = vec![];
    if !set.args.is_empty() {
        chunks.push(set.args.clone());
    }
    for (gi, (f, o)) in groups.iter().enumerate() {
        if gi > 0 {
            chunks.push(vec!["--".to_string()]);
        }
        let ft = fmt_tokens(cli, f, (gi as u64 + spelling) % 2 == 1);
        let ot = out_tokens(cli, *o, gi);
        let pair = if out_first { [ot, ft] } else { [ft, ot] };
        for c in pair {
            if !c.is_empty() {
                chunks.push(c);
            }
        }
    }
    chunks
}

/// insert `extra` before chunk `slot` (0..=chunks.len()); a slot directly before `--` is the end of a group,
/// directly after it the start of the next one
fn flatten(chunks: &[Vec<String>], inserts: &[(usize, &Vec<String>)]) -> Vec<String> {
    let mut v = vec![];
    for s in 0..=chunks.len() {
        for (p, e) in inserts {
            if *p == s {
                v.extend(e.iter().cloned());
            }
        }
        if s < chunks.len() {
            v.extend(chunks[s].iter().cloned());
        }
    }
    v
}

type Gen = Box<dyn Fn(u64) -> Option<(usize, Vec<String>)> + Sync + Send>;

pub struct Family {
    pub name: String,
    pub n: u64,
    pub gen: Gen,
    pub mode: &'static str,
}

/// all sequences of exactly `len` groups over `formats` x `outs`, x input sets x the two `-f` spellings (x chunk order)
fn grid_family(env: &Arc<Env>, name: &str, mode: &'static str, len: usize, formats: Arc<Vec<Option<String>>>, outs: Vec<OutMode>, sets: Vec<usize>, orders: u64, spellings: u64) -> Family {
    let per_group = (formats.len() * outs.len()) as u64;
    let mut radices = vec![sets.len() as u64, spellings, orders];
    for _ in 0..len {
        radices.push(per_group);
    }
    let n = product(&radices);
    let env = env.clone();
    let gen: Gen = Box::new(move |i| {
        let d = decode(i, &radices);
        let set = sets[d[0] as usize];
        let groups: Vec<(&Option<String>, OutMode)> = (0..len)
            .map(|g| {
                let x = d[3 + g];
                (&formats[(x / outs.len() as u64) as usize], outs[(x % outs.len() as u64) as usize])
            })
            .collect();
        // a group without -f has only one spelling: skip the duplicate
        if d[1] == 1 && groups.iter().all(|(f, _)| f.is_none()) {
            return None;
        }
        if d[2] == 1 && groups.iter().all(|(f, o)| f.is_none() || *o == OutMode::NoOut) {
            return None;
        }
        let chunks = base_chunks(&env.cli, &env.sets[set], &groups, d[1], d[2] == 1);
        Some((set, flatten(&chunks, &[])))
    });
    Family { name: name.to_string(), n, gen, mode }
}

/// base grid x one global option variant x every slot
fn global_family(env: &Arc<Env>, name: &str, mode: &'static str, len: usize, formats: Arc<Vec<Option<String>>>, outs: Vec<OutMode>, sets: Vec<usize>, globals: Arc<Vec<(String, Vec<String>)>>) -> Family {
    let per_group = (formats.len() * outs.len()) as u64;
    let max_slots = (3 * len) as u64 + 1;
    let mut radices = vec![sets.len() as u64, globals.len() as u64, max_slots];
    for _ in 0..len {
        radices.push(per_group);
    }
    let n = product(&radices);
    let env = env.clone();
    let gen: Gen = Box::new(move |i| {
        let d = decode(i, &radices);
        let set = sets[d[0] as usize];
        let groups: Vec<(&Option<String>, OutMode)> = (0..len)
            .map(|g| {
                let x = d[3 + g];
                (&formats[(x / outs.len() as u64) as usize], outs[(x % outs.len() as u64) as usize])
            })
            .collect();
        let chunks = base_chunks(&env.cli, &env.sets[set], &groups, 0, false);
        let slot = d[2] as usize;
        if slot > chunks.len() {
            return None;
        }
        Some((set, flatten(&chunks, &[(slot, &globals[d[1] as usize].1)])))
    });
    Family { name: name.to_string(), n, gen, mode }
}

/// base grid x two global options of different kinds at two slots (p1 <= p2)
fn global_pair_family(env: &Arc<Env>, name: &str, len: usize, formats: Arc<Vec<Option<String>>>, outs: Vec<OutMode>, sets: Vec<usize>, globals: Arc<Vec<(String, Vec<String>)>>) -> Family {
    let per_group = (formats.len() * outs.len()) as u64;
    let max_slots = (3 * len) as u64 + 1;
    let mut radices = vec![sets.len() as u64, globals.len() as u64, globals.len() as u64, max_slots, max_slots];
    for _ in 0..len {
        radices.push(per_group);
    }
    let n = product(&radices);
    let env = env.clone();
    let gen: Gen = Box::new(move |i| {
        let d = decode(i, &radices);
        let (a, b) = (&globals[d[1] as usize], &globals[d[2] as usize]);
        if a.0 == b.0 || d[3] > d[4] {
            return None;
        }
        let set = sets[d[0] as usize];
        let groups: Vec<(&Option<String>, OutMode)> = (0..len)
            .map(|g| {
                let x = d[5 + g];
                (&formats[(x / outs.len() as u64) as usize], outs[(x % outs.len() as u64) as usize])
            })
            .collect();
        let chunks = base_chunks(&env.cli, &env.sets[set], &groups, 1, false);
        if d[4] as usize > chunks.len() {
            return None;
        }
        Some((set, flatten(&chunks, &[(d[3] as usize, &a.1), (d[4] as usize, &b.1)])))
    });
    Family { name: name.to_string(), n, gen, mode: "inproc" }
}

/// the documented default budget and explicit budgets around the number of passes a program needs
fn iters_family(env: &Arc<Env>, mode: &'static str) -> Family {
    let d = env.cli.iters_default;
    let mut lines: Vec<(usize, Vec<String>)> = vec![];
    let doc = env.cli.opt("iters").cloned();
    for k in 0..9usize {
        let set = SET_CHAIN0 + k;
        let need = k + 1 + 3;
        let chunks = vec![env.sets[set].args.clone(), vec!["-f".to_string(), "hexstr".to_string()]];
        lines.push((set, flatten(&chunks, &[])));
        let Some(doc) = &doc else { continue };
        let mut values: Vec<usize> = vec![need - 1, need, need + 1, d - 1, d, d + 1];
        values.sort();
        values.dedup();
        for v in values {
            let mut spellings: Vec<Vec<String>> = vec![vec![format!("--{}={}", doc.long, v)]];
            if let Some(c) = doc.short {
                spellings.push(vec![format!("-{}", c), v.to_string()]);
            }
            for sp in &spellings {
                for slot in 0..=chunks.len() {
                    lines.push((set, flatten(&chunks, &[(slot, sp)])));
                }
                // in a later group
                let mut c2 = chunks.clone();
                c2.push(vec!["--".to_string()]);
                c2.push(vec!["-f".to_string(), "binary".to_string()]);
                lines.push((set, flatten(&c2, &[(3, sp)])));
                lines.push((set, flatten(&c2, &[(4, sp)])));
            }
        }
    }
    let n = lines.len() as u64;
    let gen: Gen = Box::new(move |i| Some(lines[i as usize].clone()));
    Family { name: "iteration budget (documented default, explicit budgets around the need)".into(), n, gen, mode }
}

fn color_lines(env: &Env) -> Vec<(usize, Vec<String>)> {
    let mut lines = vec![];
    let Some(color) = env.cli.opt("color") else { return lines };
    let fail_opts: Vec<Vec<String>> = vec![vec!["-t".into(), "1".into()], vec!["-h".into()], vec!["-dval=2".into()]];
    for trigger in &fail_opts {
        for c in [None, Some("on"), Some("off")] {
            let chunks = vec![vec!["main.asm".to_string()], trigger.clone(), vec!["-f".to_string(), "binary".to_string()], vec!["--".to_string()], vec!["-f".to_string(), "hexstr".to_string()]];
            match c {
                None => lines.push((0usize, flatten(&chunks, &[]))),
                Some(v) => {
                    let tok = vec![format!("--{}={}", color.long, v)];
                    for slot in 0..=chunks.len() {
                        lines.push((0usize, flatten(&chunks, &[(slot, &tok)])));
                    }
                }
            }
        }
    }
    lines
}

// ------------------------------------------------------------------------------------------------

fn run_family(env: &Arc<Env>, f: &Family, rep: &mut Report) {
    let t0 = std::time::Instant::now();
    let l = par_run(f.n, |i, l| {
        if let Some((set, argv)) = (f.gen)(i) {
            let slot = format!("w{}", rayon::current_thread_index().unwrap_or(0));
            judge(env, &env.sets[set], &argv, f.mode, &slot, l);
        }
    });
    let secs = t0.elapsed().as_secs_f64();
    eprintln!("[C18] {:<8} {:<90} indexes={:>10} executed={:>10} violations={} {:.1}s", f.mode, f.name, f.n, l.evaluations, l.viol_counts.values().sum::<u64>(), secs);
    let mut fams = rep.extra.remove("families").and_then(|v| v.as_array().cloned()).unwrap_or_default();
    fams.push(json!({"family": f.name, "mode": f.mode, "index_space": f.n, "executed": l.evaluations, "unspecified": l.unspecified, "seconds": (secs * 10.0).round() / 10.0}));
    rep.extra("families", Value::Array(fams));
    rep.absorb(l);
}

pub fn run(ctx: &Ctx) -> Report {
    let mut rep = Report::new(
        "model_checking",
        "reference CLI model parsed from usage_help.md; a case is one (input set, argv); non-trivial = the model gives a verdict (accept / reject / help) and the command line has at least one token besides the input names; distinct by (input set, argv). states = distinct (globals, group prefix) configurations of the reference parser, transitions = groups consumed, traces = command lines whose complete outcome (status, files, bytes) was compared",
    );
    let env = match Env::new(ctx) {
        Ok(e) => Arc::new(e),
        Err(e) => {
            rep.machinery_error = Some(format!("reference CLI model: {}", e));
            return rep;
        }
    };
    let _gag = StdoutGag::new();
    let cli = &env.cli;
    rep.extra(
        "usage_text_model",
        json!({
            "formats": cli.usage.formats.iter().map(|f| json!({"name": f.name, "documented_params": f.params, "means": f.canon.text(), "ext": f.canon.ext()})).collect::<Vec<_>>(),
            "options": cli.usage.opts.iter().map(|o| json!({"long": o.long, "short": o.short.map(|c| c.to_string()), "value": o.long_meta, "short_attached": o.short_attached, "default": o.default, "global": o.global})).collect::<Vec<_>>(),
            "iters_default": cli.iters_default,
        }),
    );
    for need in ["format", "output", "print", "quiet", "version", "help", "iters", "define", "color"] {
        if cli.opt(need).is_none() {
            rep.machinery_error = Some(format!("usage text no longer documents --{}", need));
            return rep;
        }
    }

    // ---- model conformance / machinery guards -------------------------------------------------
    // (a) explicit parameters: the canonical string must select exactly the directly constructed format
    let mut l0 = Local::new();
    {
        let mut direct: Vec<(String, bool)> = vec![];
        let base = env.compute_asm(&env.sets[0], &env.sets[0].args, &Globals::default(), Some(&mut direct));
        if !base.ok {
            rep.machinery_error = Some("the subject program does not assemble under default options".into());
            return rep;
        }
        for (text, same) in &direct {
            l0.eval();
            l0.traces_validated += 1;
            l0.class("canonical-string-vs-direct-format");
            if !same {
                l0.violation(Violation {
                    property: ID,
                    key: format!("explicit-params|fmt={}", text.split(',').next().unwrap_or("")),
                    what: format!("`-f {}` does not produce the output of the format with exactly these parameters", text),
                    case: json!({"mode": "canonical", "format": text, "files": {"main.asm": PROGRAM}, "argv": ["main.asm", "-f", text, "-p"],
                        "expected": "bytes of driver::format_output with the format value constructed directly from these parameters", "observed": "different bytes, or the string was rejected"}),
                });
            }
        }
        // (b) the program separates all canonical formats (otherwise "selects that format" is unobservable)
        let mut seen: BTreeMap<Vec<u8>, String> = BTreeMap::new();
        for c in &env.universe {
            match base.by_canon.get(&c.text()).cloned().flatten() {
                Some(b) => {
                    if let Some(other) = seen.insert(b, c.text()) {
                        rep.machinery_error = Some(format!("subject program does not distinguish `{}` from `{}`", other, c.text()));
                        return rep;
                    }
                }
                None => {
                    l0.count("canonical_formats_not_accepted_by_subject", 1);
                }
            }
        }
        rep.extra("canonical_formats", json!(env.universe.len()));
        // (c) budgets: the chain programs straddle the documented default
        let d = cli.iters_default;
        let needs: Vec<bool> = (0..9).map(|k| env.expect_asm(&env.sets[SET_CHAIN0 + k], &env.sets[SET_CHAIN0 + k].args, &Globals::default()).ok).collect();
        if !(needs.iter().any(|b| *b) && needs.iter().any(|b| !*b)) {
            rep.machinery_error = Some(format!("chain programs do not straddle the documented default budget {}", d));
            return rep;
        }
    }
    rep.absorb(l0);

    // ---- alphabets ---------------------------------------------------------------------------
    let al = format_alphabets(cli);
    let globals = Arc::new(global_variants(cli, &["0", "1", "3", "x"]));
    let globals_long: Arc<Vec<(String, Vec<String>)>> = Arc::new(globals.iter().filter(|g| g.1[0].starts_with("--")).cloned().collect());
    let show = |f: &Formats| f.iter().map(|f| f.clone().unwrap_or("<no -f>".into())).collect::<Vec<_>>();
    rep.extra(
        "alphabets",
        json!({"formats_full": al.full.len(), "formats_mid": al.mid.len(), "formats_mid3": al.mid3.len(), "formats_small": al.small.len(), "formats_tiny": al.tiny.len(), "formats_micro_list": show(&al.micro),
            "global_variants": globals.len(), "formats_mid3_list": show(&al.mid3), "formats_small_list": show(&al.small), "formats_tiny_list": show(&al.tiny),
            "global_variant_list": globals.iter().map(|g| g.1.join(" ")).collect::<Vec<_>>()}),
    );
    use OutMode::*;
    let outs1 = vec![NoOut, ShortO, LongO, Print, PrintLong, PrintAndO, ShortODir, DetachedLong];
    let outs_n = vec![NoOut, ShortO, LongO, Print];
    let outs_2 = vec![NoOut, ShortO, LongO, Print, Shared];
    let outs_3 = vec![NoOut, ShortO, Print];
    let five: Vec<usize> = vec![0, 1, 2, 3, 4];
    let seven: Vec<usize> = vec![0, 1, 2, 3, 4, SET_NONE, SET_TWO, SET_DOTDIR];
    let four: Vec<usize> = vec![0, 3, SET_NONE, SET_TWO];
    let two: Vec<usize> = vec![0, 3];
    let one: Vec<usize> = vec![0];

    let mut fams: Vec<Family> = vec![];
    let g = |name: &str, mode: &'static str, len: usize, f: &Formats, outs: &Vec<OutMode>, sets: &Vec<usize>, orders: u64| grid_family(&env, name, mode, len, f.clone(), outs.clone(), sets.clone(), orders, 2);
    let gl = |name: &str, mode: &'static str, len: usize, f: &Formats, outs: &Vec<OutMode>, sets: &Vec<usize>| global_family(&env, name, mode, len, f.clone(), outs.clone(), sets.clone(), globals.clone());
    fams.push(g("1 group: FULL formats x 8 output modes x 8 input sets x 2 spellings x 2 chunk orders", "inproc", 1, &al.full, &outs1, &seven, 2));
    fams.push(iters_family(&env, "inproc"));
    if !ctx.thorough {
        fams.push(gl("1 group + 1 global: MID formats x 4 output modes x 4 input sets x every global variant x every slot", "inproc", 1, &al.mid, &outs_n, &four));
        fams.push(g("2 groups: MID formats x 5 output modes (incl. shared name) x {main.asm, main.bin} x 2 spellings", "inproc", 2, &al.mid, &outs_2, &two, 1));
        fams.push(g("2 groups: SMALL formats x 4 output modes x 5 input names x 2 spellings", "inproc", 2, &al.small, &outs_n, &five, 1));
        fams.push(gl("2 groups + 1 global: TINY formats x 4 output modes x {main.asm, main.bin} x every global variant x every slot", "inproc", 2, &al.tiny, &outs_n, &two));
    } else {
        fams.push(gl("1 group + 1 global: MID formats x 4 output modes x 8 input sets x every global variant x every slot", "inproc", 1, &al.mid, &outs_n, &seven));
        fams.push(g("2 groups: FULL formats x 5 output modes (incl. shared name) x {main.asm, main.bin} x 2 spellings", "inproc", 2, &al.full, &outs_2, &two, 1));
        fams.push(g("2 groups: MID formats x 4 output modes x 5 input names x 2 spellings", "inproc", 2, &al.mid, &outs_n, &five, 1));
        fams.push(grid_family(&env, "3 groups: MID3 formats x 4 output modes x main.asm (-f / --format= alternating)", "inproc", 3, al.mid3.clone(), outs_n.clone(), one.clone(), 1, 1));
        fams.push(g("3 groups: SMALL formats x 4 output modes x 5 input names x 2 spellings", "inproc", 3, &al.small, &outs_n, &five, 1));
        fams.push(g("4 groups: TINY formats x 4 output modes x {main.asm, main.bin} x 2 spellings", "inproc", 4, &al.tiny, &outs_n, &two, 1));
        fams.push(gl("2 groups + 1 global: MID3 formats x 4 output modes x main.asm x every global variant x every slot", "inproc", 2, &al.mid3, &outs_n, &one));
        fams.push(gl("2 groups + 1 global: SMALL formats x 4 output modes x {main.asm, main.bin} x every global variant x every slot", "inproc", 2, &al.small, &outs_n, &two));
        fams.push(gl("3 groups + 1 global: TINY formats x 4 output modes x main.asm x every global variant x every slot", "inproc", 3, &al.tiny, &outs_n, &one));
        fams.push(global_pair_family(&env, "2 groups + 2 globals: TINY formats x 4 output modes x main.asm x ordered pairs of different global options (long spellings) x slot pairs", 2, al.tiny.clone(), outs_n.clone(), one.clone(), globals_long.clone()));
    }
    // the real binary: complete 1-group sub-grid
    if env.real_bin.is_some() {
        if !ctx.thorough {
            fams.push(g("1 group: FULL formats x 8 output modes x main.asm x 2 spellings", "real", 1, &al.full, &outs1, &one, 1));
            fams.push(g("1 group: MID3 formats x 8 output modes x 8 input sets x 2 spellings", "real", 1, &al.mid3, &outs1, &seven, 1));
            fams.push(gl("1 group + 1 global: TINY formats x 4 output modes x {main.asm, main.bin} x every global variant x every slot", "real", 1, &al.tiny, &outs_n, &two));
            fams.push(gl("2 groups + 1 global: MICRO formats x {none, -o, -p} x main.asm x every global variant x every slot", "real", 2, &al.micro, &outs_3, &one));
        } else {
            fams.push(g("1 group: FULL formats x 8 output modes x 8 input sets x 2 spellings x 2 chunk orders", "real", 1, &al.full, &outs1, &seven, 2));
            fams.push(gl("1 group + 1 global: MID3 formats x 4 output modes x 8 input sets x every global variant x every slot", "real", 1, &al.mid3, &outs_n, &seven));
            fams.push(g("2 groups: SMALL formats x 4 output modes x {main.asm, main.bin} x 2 spellings", "real", 2, &al.small, &outs_n, &two, 1));
            fams.push(gl("2 groups + 1 global: TINY formats x 4 output modes x main.asm x every global variant x every slot", "real", 2, &al.tiny, &outs_n, &one));
        }
        fams.push(iters_family(&env, "real"));
    }
    for f in &fams {
        run_family(&env, f, &mut rep);
    }
    if env.real_bin.is_some() {
        let lines = color_lines(&env);
        let l = par_cases(&lines, |(set, argv), l| {
            let slot = format!("w{}", rayon::current_thread_index().unwrap_or(0));
            judge_color(&env, &env.sets[*set], argv, &slot, l)
        });
        eprintln!("[C18] real     colour on/off/default x failing assembly, help x every slot: {} runs", l.evaluations);
        rep.absorb(l);
        let _ = std::fs::remove_dir_all(format!("{}/c18-{}", env.scratch, std::process::id()));
    } else {
        rep.assumptions.push("VERIF_REAL_BIN not available: process-level sub-grid (stdout, exit status, real files) not run".into());
        rep.machinery_error = Some("the real binary ($VERIF_REAL_BIN) is missing: the process-level part of C18 cannot run".into());
    }
    drop(_gag);

    rep.assumptions.push("legal parameter value sets not spelled out in the usage text (annotated base, group > 0, intelhex addr_unit) are taken from DESIGN.md".into());
    rep.assumptions.push("derived extensions (bin / mlb / txt) are taken from the property statement; the default format of a group without -f is undocumented, so any documented format (with its own extension) is accepted there".into());
    rep.assumptions.push("expected bytes come from driver::format_output on a separate direct asm::assemble call: the assembler and the formatters themselves are not under test here (C01/C11)".into());
    for c in [
        "inproc:accept", "inproc:reject", "inproc:help", "inproc:assembly-fails", "inproc:unspecified", "real:accept", "real:reject", "real:help",
        "reject:unknown-format", "reject:unknown-param", "reject:bad-value", "reject:derived-equals-input", "reject:iters", "reject:color", "reject:no-input",
        "help-or-version", "assembly-fails:with-iters", "assembly-fails:with-define", "options-rescue-assembly", "options-change-output",
        "group:print", "group:given-name", "group:derived-name", "group:default-format", "group:contested-name", "progress-visible",
        "global:quiet@later-group", "global:iters@later-group", "global:define@later-group", "global:iters@before-input", "color:on", "color:off",
        "canonical-string-vs-direct-format",
    ] {
        rep.require_class(c);
    }
    rep
}

pub fn replay(ctx: &Ctx, case: &Value) -> i32 {
    let env = match Env::new(ctx) {
        Ok(e) => e,
        Err(e) => {
            eprintln!("reference CLI model: {}", e);
            return 2;
        }
    };
    let argv: Vec<String> = case["argv"].as_array().map(|a| a.iter().filter_map(|v| v.as_str().map(|s| s.to_string())).collect()).unwrap_or_default();
    let mut set = InputSet { id: case["input_set"].as_str().unwrap_or("replay").to_string(), files: vec![], args: vec![] };
    if let Some(m) = case["files"].as_object() {
        for (n, t) in m {
            set.files.push((n.clone(), t.as_str().unwrap_or("").as_bytes().to_vec()));
        }
    }
    let mode = case["mode"].as_str().unwrap_or("inproc").to_string();
    println!("reproduce: {}", shell_line(&set, &argv));
    super::replay_with(ctx, case, |_case, l| {
        let gag = StdoutGag::new();
        match mode.as_str() {
            "real" if env.real_bin.is_some() => judge(&env, &set, &argv, "real", "replay", l),
            "color" if env.real_bin.is_some() => judge_color(&env, &set, &argv, "replay", l),
            "canonical" => {
                let mut direct = vec![];
                let _ = env.compute_asm(&env.sets[0], &env.sets[0].args, &Globals::default(), Some(&mut direct));
                let want = case["format"].as_str().unwrap_or("");
                for (t, same) in direct {
                    if t == want && !same {
                        l.violation(Violation { property: ID, key: "explicit-params".into(), what: format!("`-f {}` still differs from the directly constructed format", t), case: case.clone() });
                    }
                }
            }
            _ => judge(&env, &set, &argv, "inproc", "replay", l),
        }
        drop(gag);
    })
}
