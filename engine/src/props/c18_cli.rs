//! Reference model of the *documented* command line of customasm.
//!
//! Everything here is derived from the text of `src/usage_help.md` (read at run time) plus the
//! legal value sets listed in DESIGN.md; nothing is taken from `src/driver.rs`. The model works on a
//! plain argv (without argv[0]) and answers one of
//!   * `Parsed::Unspecified` – the usage text does not determine what this command line means
//!     (undocumented spelling/alias, doubled option, conflicting globals, ...): no verdict;
//!   * `Parsed::Reject`      – the usage text rules the command line out: it must fail with an error
//!     before anything is assembled or written;
//!   * `Parsed::Cmd`         – a well-formed command: inputs, output groups (format in canonical fully
//!     explicit form, target), global options.
use std::collections::BTreeMap;

#[derive(Clone, Debug, PartialEq, Eq, Hash)]
pub struct Canon {
    pub name: String,
    pub params: Vec<(String, u64)>,
}

impl Canon {
    /// fully explicit format string, e.g. `annotated,base:16,group:2`
    pub fn text(&self) -> String {
        let mut s = self.name.clone();
        for (k, v) in &self.params {
            s += &format!(",{}:{}", k, v);
        }
        s
    }
    /// extension of a derived output file name (task statement: bin for binary, mlb for mesen-mlb, txt otherwise)
    pub fn ext(&self) -> &'static str {
        match self.name.as_str() {
            "binary" => "bin",
            "mesen-mlb" => "mlb",
            _ => "txt",
        }
    }
}

#[derive(Clone, Debug)]
pub struct FormatDoc {
    /// the name as listed
    pub name: String,
    /// parameters listed next to the name, with documented defaults
    pub params: Vec<(String, u64)>,
    /// what the name means with no parameter given (after resolving "Same as:")
    pub canon: Canon,
}

#[derive(Clone, Debug, Default)]
pub struct OptDoc {
    pub long: String,
    pub short: Option<char>,
    /// the long spelling is shown with `=META`
    pub long_meta: Option<String>,
    /// the short spelling is shown with an attached meta (`-dNAME`)
    pub short_attached: bool,
    pub default: Option<String>,
    pub global: bool,
}

#[derive(Clone, Debug)]
pub struct Usage {
    pub formats: Vec<FormatDoc>,
    pub opts: Vec<OptDoc>,
}

fn backticked(line: &str) -> Vec<String> {
    let mut v = vec![];
    let mut rest = line;
    while let Some(a) = rest.find('`') {
        let after = &rest[a + 1..];
        match after.find('`') {
            Some(b) => {
                v.push(after[..b].to_string());
                rest = &after[b + 1..];
            }
            None => break,
        }
    }
    v
}

fn parse_format_spec(spec: &str) -> Option<(String, Vec<(String, u64)>)> {
    let mut it = spec.split(',');
    let name = it.next()?.trim().to_string();
    if name.is_empty() {
        return None;
    }
    let mut params = vec![];
    for p in it {
        let (k, v) = p.split_once(':')?;
        params.push((k.trim().to_string(), v.trim().parse::<u64>().ok()?));
    }
    Some((name, params))
}

pub fn parse_usage(text: &str) -> Result<Usage, String> {
    let mut section = String::new();
    let mut formats: Vec<FormatDoc> = vec![];
    let mut same_as: Vec<(usize, String, Vec<(String, u64)>)> = vec![];
    let mut opts: Vec<OptDoc> = vec![];
    let mut last_opt: Option<usize> = None;
    for line in text.lines() {
        if let Some(h) = line.strip_prefix("## ") {
            section = h.trim().to_string();
            last_opt = None;
            continue;
        }
        let is_bullet = line.starts_with("* `");
        match section.as_str() {
            "Formats:" => {
                if is_bullet {
                    let spec = backticked(line).into_iter().next().ok_or("format bullet without backticks")?;
                    let (name, params) = parse_format_spec(&spec).ok_or(format!("cannot parse format bullet `{}`", spec))?;
                    let canon = Canon { name: name.clone(), params: params.clone() };
                    formats.push(FormatDoc { name, params, canon });
                } else if let Some(p) = line.find("Same as:") {
                    let spec = backticked(&line[p..]).into_iter().next().ok_or("`Same as:` without backticks")?;
                    let (n, ps) = parse_format_spec(&spec).ok_or(format!("cannot parse `Same as: {}`", spec))?;
                    if formats.is_empty() {
                        return Err("`Same as:` before any format".into());
                    }
                    same_as.push((formats.len() - 1, n, ps));
                }
            }
            "Global Options:" | "Output Options:" => {
                if is_bullet {
                    let spec = backticked(line).into_iter().next().ok_or("option bullet without backticks")?;
                    let mut d = OptDoc { global: section == "Global Options:", ..Default::default() };
                    for tok in spec.split(", ") {
                        let tok = tok.trim();
                        if let Some(l) = tok.strip_prefix("--") {
                            match l.split_once('=') {
                                Some((n, m)) => {
                                    d.long = n.to_string();
                                    d.long_meta = Some(m.to_string());
                                }
                                None => d.long = l.to_string(),
                            }
                        } else if let Some(s) = tok.strip_prefix('-') {
                            let mut cs = s.chars();
                            d.short = cs.next();
                            d.short_attached = cs.next().is_some();
                        }
                    }
                    if d.long.is_empty() {
                        return Err(format!("option bullet without long name: `{}`", spec));
                    }
                    // `-dNAME` and `-dNAME=VALUE` are two bullets of the same option
                    if let Some(i) = opts.iter().position(|o| o.long == d.long) {
                        last_opt = Some(i);
                    } else {
                        opts.push(d);
                        last_opt = Some(opts.len() - 1);
                    }
                } else if let (Some(i), Some(p)) = (last_opt, line.find("(Default:")) {
                    let rest = &line[p + "(Default:".len()..];
                    if let Some(e) = rest.find(')') {
                        opts[i].default = Some(rest[..e].trim().to_string());
                    }
                }
            }
            _ => {}
        }
    }
    // resolve "Same as:" against the listed defaults of the target format
    for (i, target, given) in same_as {
        let tdoc = formats.iter().find(|f| f.name == target).ok_or(format!("`Same as:` names unknown format `{}`", target))?.clone();
        let mut params = tdoc.params.clone();
        for (k, v) in given {
            match params.iter_mut().find(|(n, _)| *n == k) {
                Some(p) => p.1 = v,
                None => return Err(format!("`Same as:` uses unknown parameter `{}`", k)),
            }
        }
        formats[i].canon = Canon { name: target, params };
    }
    if formats.is_empty() {
        return Err("no formats found in the usage text".into());
    }
    Ok(Usage { formats, opts })
}

/// Legal values of a format parameter. The usage text does not spell these out (except tcgame's base);
/// they are the sets given in DESIGN.md §4 C18 / the task description.
#[derive(Clone, Debug)]
pub enum Legal {
    Set(Vec<u64>),
    Positive,
    /// the model does not know this parameter: any explicit value is Unspecified
    Unknown,
}

pub fn legal_values(format: &str, param: &str) -> Legal {
    match (format, param) {
        ("annotated", "base") => Legal::Set(vec![2, 4, 8, 16, 32, 64, 128]),
        ("tcgame", "base") => Legal::Set(vec![2, 16]),
        ("annotated", "group") | ("tcgame", "group") => Legal::Positive,
        ("intelhex", "addr_unit") => Legal::Set(vec![8, 16, 32]),
        _ => Legal::Unknown,
    }
}

impl Legal {
    pub fn contains(&self, v: u64) -> Option<bool> {
        match self {
            Legal::Set(s) => Some(s.contains(&v)),
            Legal::Positive => Some(v > 0),
            Legal::Unknown => None,
        }
    }
}

/// Strings that no reading of the usage text accepts as a format name.
pub const WRONG_NAMES: [&str; 6] = ["binaryy", "Binary", "bin", "", "hex", "annotated,"];
/// Aliases the code happens to accept but the usage text does not show: neither accepted nor rejected.
pub const UNDOCUMENTED_ALIASES: [&str; 2] = ["annotatedhex", "c"];

#[derive(Clone, Debug, PartialEq, Eq)]
pub enum FmtVerdict {
    /// accepted; several candidates only for a doubled key (either given value may win)
    Accept(Vec<Canon>),
    Reject(String),
    Unspecified(String),
}

#[derive(Clone, Debug, PartialEq, Eq)]
pub enum GroupFmt {
    /// no `-f` in this group: the usage text does not say which format is the default
    NotGiven,
    OneOf(Vec<Canon>),
}

#[derive(Clone, Debug)]
pub struct Group {
    pub fmt: GroupFmt,
    /// input-side description of the format argument (for violation keys)
    pub fmt_feature: String,
    pub out: Option<String>,
    pub print: bool,
}

#[derive(Clone, Debug, PartialEq, Eq)]
pub enum DefV {
    Bool(bool),
    Int(i64),
}

#[derive(Clone, Debug, Default)]
pub struct Globals {
    pub quiet: bool,
    pub help: bool,
    pub version: bool,
    pub iters: Option<usize>,
    pub defines: Vec<(String, DefV)>,
    pub color: Option<bool>,
    pub debug_iters: bool,
    pub no_opt_static: bool,
    pub no_opt_matcher: bool,
    /// (role, position class) of every global option seen, for violation keys
    pub seen: Vec<(String, &'static str)>,
}

impl Globals {
    pub fn feature(&self) -> String {
        if self.seen.is_empty() {
            return "-".into();
        }
        let mut v: Vec<String> = self.seen.iter().map(|(r, p)| format!("{}@{}", r, p)).collect();
        v.sort();
        v.dedup();
        v.join("+")
    }
}

#[derive(Clone, Debug)]
pub struct Cmd {
    pub inputs: Vec<String>,
    pub groups: Vec<Group>,
    pub g: Globals,
}

#[derive(Clone, Debug)]
pub enum Parsed {
    Unspecified(String),
    /// (reason class, must nothing have been read yet?)
    Reject(String, bool, Globals),
    Cmd(Cmd),
}

#[derive(Clone, Debug)]
pub struct Cli {
    pub usage: Usage,
    pub iters_default: usize,
}

fn is_decimal(s: &str) -> bool {
    !s.is_empty() && s.len() <= 9 && s.bytes().all(|b| b.is_ascii_digit())
}

impl Cli {
    pub fn from_usage_text(text: &str) -> Result<Cli, String> {
        let usage = parse_usage(text)?;
        let iters_default = usage
            .opts
            .iter()
            .find(|o| o.long == "iters")
            .and_then(|o| o.default.as_ref())
            .and_then(|d| d.parse::<usize>().ok())
            .ok_or("usage text does not document the default of --iters")?;
        Ok(Cli { usage, iters_default })
    }

    pub fn opt(&self, long: &str) -> Option<&OptDoc> {
        self.usage.opts.iter().find(|o| o.long == long)
    }

    pub fn format_doc(&self, name: &str) -> Option<&FormatDoc> {
        self.usage.formats.iter().find(|f| f.name == name)
    }

    /// The documented meaning of a `FORMAT` argument.
    pub fn judge_format(&self, s: &str) -> (FmtVerdict, String) {
        let mut parts = s.split(',');
        let name = parts.next().unwrap_or("");
        let given: Vec<&str> = parts.collect();
        let Some(doc) = self.format_doc(name) else {
            // a fixed list of names is in the rejected set; anything else undocumented has no verdict
            if WRONG_NAMES.contains(&s) || WRONG_NAMES.contains(&name) {
                return (FmtVerdict::Reject("unknown-format".into()), format!("wrong-name:{:?}", s));
            }
            return (FmtVerdict::Unspecified(format!("undocumented format name `{}`", name)), format!("undocumented:{}", name));
        };
        // occurrences per documented parameter: Ok(value) or Err(reject reason)
        let mut occ: BTreeMap<String, Vec<Result<u64, String>>> = BTreeMap::new();
        let mut feature = format!("fmt={}", name);
        let mut reject: Option<String> = None;
        let mut unspec: Option<String> = None;
        for g in &given {
            let (k, v) = match g.split_once(':') {
                Some((k, v)) => (k, Some(v)),
                None => (*g, None),
            };
            if !doc.params.iter().any(|(n, _)| n == k) {
                reject.get_or_insert(format!("unknown-param:{}", name));
                feature += ";unknown-key";
                continue;
            }
            let legal = legal_values(&doc.canon.name, k);
            let o = occ.entry(k.to_string()).or_default();
            match v {
                Some(v) if is_decimal(v) && !(v.len() > 1 && v.starts_with('0')) => {
                    let n: u64 = v.parse().unwrap();
                    match legal.contains(n) {
                        Some(true) => o.push(Ok(n)),
                        Some(false) => o.push(Err(format!("bad-value:{}.{}={}", name, k, n))),
                        None => {
                            unspec.get_or_insert(format!("legal set of {}.{} unknown to the model", name, k));
                        }
                    }
                }
                Some(v) if v.contains(':') || v.starts_with('0') || v.starts_with('+') || v.starts_with('-') => {
                    unspec.get_or_insert(format!("unusual number spelling `{}`", v));
                }
                _ => o.push(Err(format!("bad-value:{}.{}=non-number", name, k))),
            }
        }
        let mut chosen: BTreeMap<String, Vec<u64>> = BTreeMap::new();
        for (k, o) in &occ {
            let bad = o.iter().find_map(|r| r.as_ref().err());
            if o.len() > 1 && bad.is_some() {
                // which occurrence of a doubled key counts is not documented
                unspec.get_or_insert(format!("doubled key `{}` with an illegal occurrence", k));
            } else if let Some(b) = bad {
                reject.get_or_insert(b.clone());
            }
            chosen.insert(k.clone(), o.iter().filter_map(|r| r.as_ref().ok().copied()).collect());
        }
        for (k, _) in &doc.params {
            feature += &format!(
                ";{}={}",
                k,
                match chosen.get(k).map(|v| v.len()).unwrap_or(0) {
                    0 => "default",
                    1 => "explicit",
                    _ => "doubled",
                }
            );
        }
        if let Some(u) = unspec {
            return (FmtVerdict::Unspecified(u), feature);
        }
        if let Some(r) = reject {
            return (FmtVerdict::Reject(r), feature);
        }
        // build the candidates (cartesian product only matters for doubled keys)
        let mut cands: Vec<Canon> = vec![Canon { name: doc.canon.name.clone(), params: vec![] }];
        for (k, d) in &doc.canon.params {
            let vals: Vec<u64> = match chosen.get(k) {
                Some(v) => {
                    let mut v = v.clone();
                    v.dedup();
                    v
                }
                None => vec![*d],
            };
            let mut next = vec![];
            for c in &cands {
                for v in &vals {
                    let mut c2 = c.clone();
                    c2.params.push((k.clone(), *v));
                    next.push(c2);
                }
            }
            cands = next;
        }
        (FmtVerdict::Accept(cands), feature)
    }

    /// Parse a command line (without argv[0]) by the documented grammar.
    pub fn parse_argv(&self, argv: &[String]) -> Parsed {
        let mut unspec: Option<String> = None;
        let mut reject: Option<(String, bool)> = None;
        let mut g = Globals::default();
        let mut inputs: Vec<String> = vec![];
        let mut groups: Vec<Group> = vec![];
        let has = |long: &str| self.opt(long).is_some();
        let short_of = |long: &str| self.opt(long).and_then(|o| o.short);
        // which group carried -t / --color (conflicts between groups are Unspecified)
        let mut iters_seen = 0;
        let mut color_seen = 0;

        for (gi, toks) in argv.split(|a| a == "--").enumerate() {
            let mut fmt: Option<String> = None;
            let mut out: Option<String> = None;
            let mut print = false;
            let mut flags_here: Vec<&'static str> = vec![];
            let mut i = 0;
            while i < toks.len() {
                let t = toks[i].as_str();
                i += 1;
                let pos: &'static str = if gi > 0 {
                    "later-group"
                } else if inputs.is_empty() {
                    "before-input"
                } else {
                    "first-group"
                };
                // returns Some(value) for `-x VALUE` (detached short) and `--long=VALUE`
                let valued = |long: &str, i: &mut usize, unspec: &mut Option<String>| -> Option<String> {
                    let doc = self.opt(long)?;
                    if let Some(v) = t.strip_prefix(&format!("--{}=", long)) {
                        if doc.long_meta.is_some() {
                            return Some(v.to_string());
                        }
                    }
                    if let Some(c) = doc.short {
                        if !doc.short_attached && t == format!("-{}", c) {
                            if *i < toks.len() && !(toks[*i].starts_with('-') && toks[*i].len() > 1) {
                                *i += 1;
                                return Some(toks[*i - 1].clone());
                            }
                            unspec.get_or_insert(format!("`-{}` without a value", c));
                            return Some(String::new());
                        }
                        if doc.short_attached && t.len() > 2 && t.starts_with(&format!("-{}", c)) {
                            return Some(t[2..].to_string());
                        }
                    }
                    None
                };
                let is_flag = |long: &str| -> bool { has(long) && (t == format!("--{}", long) || short_of(long).map(|c| t == format!("-{}", c)).unwrap_or(false)) };

                if !t.starts_with('-') || t == "-" {
                    inputs.push(t.to_string());
                    continue;
                }
                if let Some(v) = valued("format", &mut i, &mut unspec) {
                    if fmt.is_some() {
                        unspec.get_or_insert("format given twice in a group".into());
                    }
                    fmt = Some(v);
                } else if let Some(v) = valued("output", &mut i, &mut unspec) {
                    if out.is_some() {
                        unspec.get_or_insert("output given twice in a group".into());
                    }
                    if v.is_empty() {
                        unspec.get_or_insert("empty output name".into());
                    }
                    out = Some(v);
                } else if is_flag("print") {
                    if print {
                        unspec.get_or_insert("print given twice in a group".into());
                    }
                    print = true;
                } else if let Some(v) = valued("iters", &mut i, &mut unspec) {
                    iters_seen += 1;
                    g.seen.push(("iters".into(), pos));
                    if is_decimal(&v) {
                        let n: usize = v.parse().unwrap();
                        if n == 0 {
                            // tests/driver/err_iters_0 (maintainers' spec): an error; a zero budget cannot succeed either way
                            reject.get_or_insert(("iters:zero".into(), false));
                        } else {
                            g.iters = Some(n);
                        }
                    } else {
                        reject.get_or_insert(("iters:non-number".into(), true));
                    }
                } else if let Some(v) = valued("define", &mut i, &mut unspec) {
                    g.seen.push(("define".into(), pos));
                    let (n, val) = match v.split_once('=') {
                        Some((n, val)) => (n.to_string(), Some(val.to_string())),
                        None => (v.clone(), None),
                    };
                    let ident = !n.is_empty() && n.chars().all(|c| c.is_ascii_alphanumeric() || c == '_') && !n.chars().next().unwrap().is_ascii_digit();
                    let dv = match val.as_deref() {
                        None | Some("true") => Some(DefV::Bool(true)),
                        Some("false") => Some(DefV::Bool(false)),
                        Some(x) if is_decimal(x) && !(x.len() > 1 && x.starts_with('0')) => Some(DefV::Int(x.parse().unwrap())),
                        _ => None,
                    };
                    match (ident, dv) {
                        (true, Some(dv)) => {
                            if g.defines.iter().any(|(m, _)| *m == n) {
                                unspec.get_or_insert("same name defined twice".into());
                            }
                            g.defines.push((n, dv));
                        }
                        _ => {
                            unspec.get_or_insert(format!("define argument `{}` outside the documented NAME / NAME=VALUE forms the model knows", v));
                        }
                    }
                } else if let Some(v) = valued("color", &mut i, &mut unspec) {
                    color_seen += 1;
                    g.seen.push(("color".into(), pos));
                    match v.as_str() {
                        "on" => g.color = Some(true),
                        "off" => g.color = Some(false),
                        _ => {
                            reject.get_or_insert(("color:bad-value".into(), true));
                        }
                    }
                } else {
                    let mut hit = false;
                    for (long, role) in [
                        ("quiet", "quiet"),
                        ("help", "help"),
                        ("version", "version"),
                        ("debug-iters", "debug-iters"),
                        ("debug-no-optimize-static", "no-opt-static"),
                        ("debug-no-optimize-matcher", "no-opt-matcher"),
                    ] {
                        if is_flag(long) {
                            hit = true;
                            if flags_here.contains(&role) {
                                unspec.get_or_insert(format!("`{}` twice in a group", long));
                            }
                            flags_here.push(role);
                            g.seen.push((role.to_string(), pos));
                            match role {
                                "quiet" => g.quiet = true,
                                "help" => g.help = true,
                                "version" => g.version = true,
                                "debug-iters" => g.debug_iters = true,
                                "no-opt-static" => g.no_opt_static = true,
                                _ => g.no_opt_matcher = true,
                            }
                        }
                    }
                    if !hit {
                        unspec.get_or_insert(format!("spelling `{}` is not shown in the usage text", t));
                    }
                }
            }
            // the group itself
            let (gf, feature) = match &fmt {
                None => (GroupFmt::NotGiven, "fmt=<none>".to_string()),
                Some(s) => {
                    let (v, feature) = self.judge_format(s);
                    match v {
                        FmtVerdict::Accept(c) => (GroupFmt::OneOf(c), feature),
                        FmtVerdict::Reject(r) => {
                            reject.get_or_insert((r, true));
                            (GroupFmt::NotGiven, feature)
                        }
                        FmtVerdict::Unspecified(u) => {
                            unspec.get_or_insert(u);
                            (GroupFmt::NotGiven, feature)
                        }
                    }
                }
            };
            groups.push(Group { fmt: gf, fmt_feature: feature, out, print });
        }
        if iters_seen > 1 {
            unspec.get_or_insert("--iters given in several places".into());
        }
        if color_seen > 1 {
            unspec.get_or_insert("--color given in several places".into());
        }
        if let Some(u) = unspec {
            return Parsed::Unspecified(u);
        }
        if let Some((r, strict)) = reject {
            if g.help || g.version {
                return Parsed::Unspecified("help/version together with an invalid argument".into());
            }
            return Parsed::Reject(r, strict, g);
        }
        Parsed::Cmd(Cmd { inputs, groups, g })
    }
}

/// Name derived from the first input: last extension of the file-name component replaced by `ext`.
pub fn derive_name(input: &str, ext: &str) -> String {
    let (dir, base) = match input.rfind('/') {
        Some(p) => (&input[..p + 1], &input[p + 1..]),
        None => ("", input),
    };
    let stem = match base.rfind('.') {
        Some(0) | None => base,
        Some(i) => &base[..i],
    };
    format!("{}{}.{}", dir, stem, ext)
}
